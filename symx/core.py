"""symx core: symbolic integers / booleans / byte strings over an interned expression DAG,
interval tracking, demand-driven bit-vector lowering, integer (LIA) lowering, and a
re-execution path explorer on z3.

The real functions of /repo are *run* on these proxies; the SMT terms are whatever the
real code computed.  See DESIGN.md section 2.
"""
import time
import z3

# --------------------------------------------------------------------------------------
# expression DAG


WIDE_HASH = [1 << 16]


class Unsupported(Exception):
    """an operation the engine cannot encode; the obligation is inconclusive, never 'ok'"""


def bits_for(lo, hi):
    """minimal signed two's-complement width holding [lo, hi]"""
    w = 1
    m = max(hi, -lo - 1, 0)
    w = m.bit_length() + 1
    return w


_INTERN = {}
_NEXT_ID = [0]


class Node:
    __slots__ = ("op", "args", "lo", "hi", "id", "_bv", "_int", "_nz")

    def __init__(self, op, args, lo, hi):
        self.op = op
        self.args = args
        self.lo = lo
        self.hi = hi
        self.id = _NEXT_ID[0]
        _NEXT_ID[0] += 1
        self._bv = {}
        self._int = None
        self._nz = {}

    @property
    def W(self):
        return bits_for(self.lo, self.hi)

    @property
    def U(self):
        """unsigned width (only for lo >= 0)"""
        return max(self.hi.bit_length(), 1)

    @property
    def isbool(self):
        return self.lo is None

    def __repr__(self):
        if self.op == "const":
            return f"#{self.args[0]}"
        if self.op == "var":
            return f"${self.args[0]}"
        return f"({self.op} " + " ".join(repr(a) for a in self.args) + ")"


def _key(a):
    return a


def mknode(op, args, lo, hi):
    k = (op, args)
    n = _INTERN.get(k)
    if n is None:
        n = Node(op, args, lo, hi)
        _INTERN[k] = n
    return n


def const(c):
    return mknode("const", (int(c),), int(c), int(c))


def is_const(n):
    return n.op == "const"


TRUE = mknode("bconst", (True,), None, None)
FALSE = mknode("bconst", (False,), None, None)

_FOLD = {
    "add": lambda x, y: x + y,
    "sub": lambda x, y: x - y,
    "mul": lambda x, y: x * y,
    "neg": lambda x: -x,
    "and": lambda x, y: x & y,
    "or": lambda x, y: x | y,
    "xor": lambda x, y: x ^ y,
    "shl": lambda x, c: x << c,
    "shr": lambda x, c: x >> c,
    "mod": lambda x, m: x % m,
    "div": lambda x, m: x // m,
    "byte": lambda x, i: (x >> (8 * i)) & 0xFF,
}


def _all_const(args):
    return all((not isinstance(a, Node)) or a.op == "const" for a in args)


def _cv(a):
    return a.args[0] if isinstance(a, Node) else a


def _const_ite(a):
    return isinstance(a, Node) and a.op == "ite" and a.args[1].op == "const" and a.args[2].op == "const"


def mk(op, args, lo, hi):
    """build an int node with constant folding"""
    if op in _FOLD and _all_const(args):
        return const(_FOLD[op](*[_cv(a) for a in args]))
    if op in _FOLD and len(args) <= 2:
        # lift an operation over ite(c, const, const) when the other operand is constant
        ites = [i for i, a in enumerate(args) if _const_ite(a)]
        if len(ites) == 1 and all((not isinstance(a, Node)) or a.op == "const" for i, a in enumerate(args) if i != ites[0]):
            k = ites[0]
            it = args[k]
            va = list(args)
            vb = list(args)
            va[k] = it.args[1]
            vb[k] = it.args[2]
            x = const(_FOLD[op](*[_cv(a) for a in va]))
            y = const(_FOLD[op](*[_cv(a) for a in vb]))
            return n_ite(it.args[0], x, y)
    if lo == hi:
        return const(lo)
    return mknode(op, args, lo, hi)


TELESCOPE_DIVMOD = [False]  # opt-in (C09 Base58): m*(x div m) + (x mod m) is rebuilt as x (lemma checked by z3 in checks/c09.py)


def _telescope(a, b):
    """x when a + b has the shape m*(x div m) + (x mod m) (either order; the quotient may have been folded to a constant)"""
    for p, r in ((a, b), (b, a)):
        if r.op != "mod":
            continue
        x, m = r.args
        if p.op == "mul" and is_const(p.args[1]) and p.args[1].args[0] == m:
            q = p.args[0]
            if q.op == "div" and q.args[0] is x and q.args[1] == m:
                return x
        if is_const(p) and m > 0 and x.lo // m == x.hi // m and p.args[0] == m * (x.lo // m):
            return x
    return None


def n_add(a, b):
    if is_const(a) and a.args[0] == 0:
        return b
    if is_const(b) and b.args[0] == 0:
        return a
    if TELESCOPE_DIVMOD[0]:
        t = _telescope(a, b)
        if t is not None:
            return t
    if is_const(a) and not is_const(b):
        a, b = b, a
    return mk("add", (a, b), a.lo + b.lo, a.hi + b.hi)


def n_sub(a, b):
    if is_const(b) and b.args[0] == 0:
        return a
    if a is b:
        return const(0)
    return mk("sub", (a, b), a.lo - b.hi, a.hi - b.lo)


def n_neg(a):
    if a.op == "neg":
        return a.args[0]
    return mk("neg", (a,), -a.hi, -a.lo)


def n_mul(a, b):
    if is_const(a) and not is_const(b):
        a, b = b, a
    if is_const(b):
        c = b.args[0]
        if c == 0:
            return const(0)
        if c == 1:
            return a
        if c == -1:
            return n_neg(a)
        if c > 0 and c & (c - 1) == 0:
            return n_shl(a, c.bit_length() - 1)
    c = [a.lo * b.lo, a.lo * b.hi, a.hi * b.lo, a.hi * b.hi]
    return mk("mul", (a, b), min(c), max(c))


def n_shl(a, c):
    if c == 0:
        return a
    if a.op == "shl":
        return n_shl(a.args[0], a.args[1] + c)
    return mk("shl", (a, c), a.lo << c, a.hi << c)


def n_shr(a, c):
    if c == 0:
        return a
    if a.lo >= 0 and (a.hi >> c) == 0:
        return const(0)
    if a.op == "shr":
        return n_shr(a.args[0], a.args[1] + c)
    if a.op == "cat" and c % 8 == 0:
        k = c // 8
        items = a.args[: len(a.args) - k]
        return n_cat(items) if items else const(0)
    return mk("shr", (a, c), a.lo >> c, a.hi >> c)


def n_byte(x, i):
    """(x >> 8i) & 0xff"""
    if x.op == "cat":
        n = len(x.args)
        return x.args[n - 1 - i] if i < n else const(0)
    if x.lo >= 0 and x.hi < (1 << (8 * i)):
        return const(0)
    if i == 0 and x.lo >= 0 and x.hi <= 255:
        return x
    if x.op == "byte":
        return x if i == 0 else const(0)
    return mk("byte", (x, i), 0, 255)


def n_cat(items):
    """big-endian concatenation of byte-valued nodes"""
    items = tuple(items)
    if not items:
        return const(0)
    # strip leading constant zeros
    while len(items) > 1 and is_const(items[0]) and items[0].args[0] == 0:
        items = items[1:]
    n = len(items)
    if all(is_const(i) for i in items):
        v = 0
        for i in items:
            v = (v << 8) | i.args[0]
        return const(v)
    if n == 1:
        return items[0]
    # provenance: bytes of one integer in order
    f = items[0]
    if f.op == "byte" and f.args[1] == n - 1:
        x = f.args[0]
        if x.lo >= 0 and x.hi < (1 << (8 * n)) and all(
            it.op == "byte" and it.args[0] is x and it.args[1] == n - 1 - j for j, it in enumerate(items)
        ):
            return x
    hi = 0
    for it in items:
        hi = (hi << 8) | it.hi
    lo = 0
    for it in items:
        lo = (lo << 8) | it.lo
    return mknode("cat", items, lo, hi)


def _bit_range(a, b, op):
    if a.lo >= 0 and b.lo >= 0:
        if op == "and":
            return 0, min(a.hi, b.hi)
        return (max(a.lo, b.lo) if op == "or" else 0), (1 << max(a.hi, b.hi).bit_length()) - 1
    if op == "and" and (a.lo >= 0 or b.lo >= 0):
        return 0, (a.hi if a.lo >= 0 else b.hi)
    w = max(a.W, b.W)
    return -(1 << (w - 1)), (1 << (w - 1)) - 1


def n_bit(op, a, b):
    if is_const(a) and not is_const(b):
        a, b = b, a
    if op == "and" and is_const(b):
        m = b.args[0]
        if m == 0:
            return const(0)
        if m > 0 and m & (m + 1) == 0:  # 2^k - 1
            k = m.bit_length()
            if a.lo >= 0 and a.hi <= m:
                return a
            if k == 8:
                if a.op == "shr" and a.args[1] % 8 == 0:
                    return n_byte(a.args[0], a.args[1] // 8)
                return n_byte(a, 0)
    if op in ("or", "xor") and is_const(b) and b.args[0] == 0:
        return a
    if a is b:
        return a if op in ("and", "or") else const(0)
    lo, hi = _bit_range(a, b, op)
    return mk(op, (a, b), lo, hi)


def n_mod(a, m):
    assert m > 0
    if a.lo >= 0 and a.hi < m:
        return a
    if m & (m - 1) == 0:
        return n_bit("and", a, const(m - 1))
    if a.op == "mod" and a.args[1] % m == 0:
        return n_mod(a.args[0], m)
    return mk("mod", (a, m), 0, m - 1)


def n_div(a, m):
    assert m > 0
    if m == 1:
        return a
    if m & (m - 1) == 0:
        return n_shr(a, m.bit_length() - 1)
    return mk("div", (a, m), a.lo // m, a.hi // m)


def n_divs(a, b):
    """a // b for a >= 0 and a *symbolic* b > 0 on the current path (symx/fpx.py: quotient step of the float rounding model)"""
    if is_const(b):
        return n_div(a, b.args[0])
    return mk("divs", (a, b), max(a.lo, 0) // max(b.hi, 1), max(a.hi, 0) // max(b.lo, 1))


def n_ite(c, a, b):
    if c is TRUE:
        return a
    if c is FALSE:
        return b
    if a is b:
        return a
    if a.isbool:
        return b_or(b_and(c, a), b_and(b_not(c), b))
    return mknode("ite", (c, a, b), min(a.lo, b.lo), max(a.hi, b.hi))


def n_uf(name, outbits, args, widths=None):
    """uninterpreted function application; args lowered at the declared unsigned widths"""
    args = tuple(args)
    if widths is None:
        widths = tuple(x.U for x in args)
    return mknode("uf", (name, outbits, tuple(widths)) + args, 0, (1 << outbits) - 1)


_TABLES = {}


def n_sel(table, idx):
    """table: tuple of ints; idx: node known to be in range"""
    table = tuple(table)
    if is_const(idx):
        return const(table[idx.args[0]])
    _TABLES[id(table)] = table
    return mknode("sel", (table, idx), min(table), max(table))


# ---- boolean nodes


def b_not(p):
    if p is TRUE:
        return FALSE
    if p is FALSE:
        return TRUE
    if p.op == "not":
        return p.args[0]
    return mknode("not", (p,), None, None)


def b_and(*ps):
    out = []
    for p in ps:
        if p is FALSE:
            return FALSE
        if p is TRUE:
            continue
        if p.op == "band":
            out.extend(p.args)
        else:
            out.append(p)
    seen = []
    for p in out:
        if p not in seen:
            seen.append(p)
    if not seen:
        return TRUE
    if len(seen) == 1:
        return seen[0]
    return mknode("band", tuple(seen), None, None)


def b_or(*ps):
    return b_not(b_and(*[b_not(p) for p in ps]))


def b_cmp(op, a, b):
    """op in lt, le, eq on int nodes"""
    if op == "lt":
        if a.hi < b.lo:
            return TRUE
        if a.lo >= b.hi:
            return FALSE
    elif op == "le":
        if a.hi <= b.lo:
            return TRUE
        if a.lo > b.hi:
            return FALSE
    else:
        if a is b:
            return TRUE
        if a.hi < b.lo or b.hi < a.lo:
            return FALSE
        if a.id > b.id:
            a, b = b, a
    return mknode(op, (a, b), None, None)


def b_var(name):
    return mknode("bvar", (name,), None, None)


def b_uf(name, args):
    return mknode("buf", (name,) + tuple(args), None, None)


# --------------------------------------------------------------------------------------
# lowering to z3

_SIDE = {"bv": [], "int": []}  # definitional side constraints produced during lowering (pending)
_UFD = {}


def _side(mode, c):
    _SIDE[mode].append(c)


def nz(n, k):
    """mask (k bits) of bit positions that may be non-zero in value(n) mod 2^k"""
    r = n._nz.get(k)
    if r is not None:
        return r
    full = (1 << k) - 1
    op, a = n.op, n.args
    if op == "const":
        r = a[0] & full
    else:
        m = full
        if n.lo >= 0:
            m &= (1 << n.hi.bit_length()) - 1
        if op == "shl":
            m &= (nz(a[0], max(k - a[1], 1)) << a[1]) if a[1] < k else 0
        elif op == "shr":
            m &= nz(a[0], k + a[1]) >> a[1]
        elif op == "and":
            m &= nz(a[0], k) & nz(a[1], k)
        elif op in ("or", "xor"):
            m &= nz(a[0], k) | nz(a[1], k)
        elif op == "ite":
            m &= nz(a[1], k) | nz(a[2], k)
        elif op == "cat":
            mm = 0
            for it in a:
                mm = (mm << 8) | nz(it, 8)
            m &= mm
        r = m & full
    n._nz[k] = r
    return r


def _splice(x, mx, y, my, k):
    """x,y BV(k) with disjoint supports mx,my: concat of slices"""
    segs = []
    i = 0

    def src(i):
        return "x" if (mx >> i) & 1 else ("y" if (my >> i) & 1 else "0")

    while i < k:
        s = src(i)
        j = i
        while j + 1 < k and src(j + 1) == s:
            j += 1
        if s == "0":
            segs.append(z3.BitVecVal(0, j - i + 1))
        else:
            segs.append(z3.Extract(j, i, x if s == "x" else y))
        i = j + 1
    segs.reverse()
    return segs[0] if len(segs) == 1 else z3.Concat(*segs)


def _fit(bv, have, k, signed=False):
    if k == have:
        return bv
    if k < have:
        return z3.Extract(k - 1, 0, bv)
    return z3.SignExt(k - have, bv) if signed else z3.ZeroExt(k - have, bv)


def low(n, k):
    """BV(k) equal to value(n) mod 2^k"""
    r = n._bv.get(k)
    if r is not None:
        return r
    op, a = n.op, n.args
    if op == "const":
        r = z3.BitVecVal(a[0] % (1 << k), k)
    elif n.lo >= 0 and k > n.U:
        r = z3.ZeroExt(k - n.U, low(n, n.U))
    elif k > n.W:
        r = z3.SignExt(k - n.W, low(n, n.W))
    elif op == "var":
        name, vlo, vhi = a
        if vlo >= 0:
            w = max(vhi.bit_length(), 1)
            v = z3.BitVec(name, w)
            r = _fit(v, w, k)
        else:
            w = bits_for(vlo, vhi)
            v = z3.BitVec(name, w)
            r = _fit(v, w, k, signed=True)
    elif op in ("or", "xor", "add") and nz(a[0], k) & nz(a[1], k) == 0:
        r = _splice(low(a[0], k), nz(a[0], k), low(a[1], k), nz(a[1], k), k)
    elif op in ("add", "sub", "mul", "and", "or", "xor"):
        x, y = low(a[0], k), low(a[1], k)
        r = {"add": lambda: x + y, "sub": lambda: x - y, "mul": lambda: x * y, "and": lambda: x & y,
             "or": lambda: x | y, "xor": lambda: x ^ y}[op]()
    elif op == "neg":
        r = -low(a[0], k)
    elif op == "shl":
        c = a[1]
        r = z3.BitVecVal(0, k) if c >= k else z3.Concat(low(a[0], k - c), z3.BitVecVal(0, c))
    elif op == "shr":
        c = a[1]
        r = z3.Extract(k + c - 1, c, low(a[0], k + c))
    elif op == "byte":
        x, i = a
        r = _fit(z3.Extract(8 * i + 7, 8 * i, low(x, 8 * i + 8)), 8, k)
    elif op == "cat":
        full = z3.Concat(*[low(it, 8) for it in a]) if len(a) > 1 else low(a[0], 8)
        r = _fit(full, 8 * len(a), k)
    elif op == "mod":
        x, m = a
        if x.lo >= 0:
            Wx = max(x.U, m.bit_length())
            rr = z3.URem(low(x, Wx), z3.BitVecVal(m, Wx))
            r = _fit(rr, Wx, k)
        else:
            Wx = max(x.W, m.bit_length() + 1) + 1
            xx = low(x, Wx)
            mm = z3.BitVecVal(m, Wx)
            rr = z3.SRem(xx, mm)
            rr = z3.If(rr < 0, rr + mm, rr)
            r = _fit(rr, Wx, k)
    elif op == "div":
        x, m = a
        if x.lo >= 0:
            Wx = max(x.U, m.bit_length())
            rr = z3.UDiv(low(x, Wx), z3.BitVecVal(m, Wx))
            r = _fit(rr, Wx, k)
        else:
            # floor division for possibly negative x: (x - (x mod m)) / m exactly
            Wx = max(x.W, m.bit_length() + 1) + 1
            xx = low(x, Wx)
            mm = z3.BitVecVal(m, Wx)
            rem = z3.SRem(xx, mm)
            rem = z3.If(rem < 0, rem + mm, rem)
            rr = (xx - rem) / mm
            r = _fit(rr, Wx, k, signed=True)
    elif op == "divs":
        Wx = max(a[0].W, a[1].W)    # both operands are non-negative on the path: unsigned division at a width holding both
        r = _fit(z3.UDiv(low(a[0], Wx), low(a[1], Wx)), Wx, k)
    elif op == "ite":
        r = z3.If(lowb(a[0], "bv"), low(a[1], k), low(a[2], k))
    elif op == "uf":
        name, outbits, widths = a[0], a[1], a[2]
        args = a[3:]
        zargs = [low(x, w) for x, w in zip(args, widths)]
        key = ("bv", name, widths, outbits)
        f = _UFD.get(key)
        if f is None:
            f = z3.Function(f"{name}!{'_'.join(str(w) for w in widths)}", *[z3.BitVecSort(w) for w in widths],
                            z3.BitVecSort(outbits))
            _UFD[key] = f
        r = _fit(f(*zargs), outbits, k)
    elif op == "sel":
        table, idx = a
        w = max(max(table).bit_length(), 1)
        ib = low(idx, idx.U)
        e = z3.BitVecVal(table[-1], w)
        for i in range(len(table) - 2, -1, -1):
            e = z3.If(ib == z3.BitVecVal(i, idx.U), z3.BitVecVal(table[i], w), e)
        r = _fit(e, w, k)
    else:
        raise Unsupported(f"bv lowering of {op}")
    n._bv[k] = r
    return r


def _contiguous(m):
    """(lo, hi) when m == 2^hi - 2^lo (a run of ones), else None"""
    lo_ = (m & -m).bit_length() - 1
    hi_ = m.bit_length()
    return (lo_, hi_) if m == (1 << hi_) - (1 << lo_) else None


_INT_LOWERED = []


def reset_int_lowering():
    """forget the integer lowerings made under LIA_FRESH_DIVMOD together with their pending definitional constraints, so that the
    next exploration (over other variables) does not carry the quotient / remainder definitions of the previous ones"""
    for n in _INT_LOWERED:
        n._int = None
        n._bv.pop("bint", None)
    del _INT_LOWERED[:]
    _DMFRESH.clear()
    del _SIDE["int"][:]


LIA_FRESH_DIVMOD = [False]  # opt-in (C09 Base58): floor division / remainder by constants as fresh integers + defining axioms
_DMFRESH = {}


def _divmod_fresh(x, m):
    """(q, r) fresh z3 Ints with value(x) == m*q + r and 0 <= r < m (floor division by the positive constant m; definitional
    side constraint).  z3 decides long divmod-by-58 / by-256 chains in this form and answers `unknown` on the div/mod terms."""
    key = (x.id, m)
    qr = _DMFRESH.get(key)
    if qr is None:
        xi = lowi(x)
        q = z3.Int(f"dq!{x.id}!{m}")
        r = z3.Int(f"dr!{x.id}!{m}")
        _side("int", z3.And(xi == m * q + r, r >= 0, r < m, q >= x.lo // m, q <= x.hi // m))
        qr = _DMFRESH[key] = (q, r)
    return qr


def _lowi_fresh(n):
    """lowering of the div/mod family under LIA_FRESH_DIVMOD; None when n is not of that family.  Right shifts by a multiple of
    8 and byte extraction are chained through division by 256 so that consecutive bytes share their quotients."""
    op, a = n.op, n.args
    if op == "mod":
        return _divmod_fresh(a[0], a[1])[1]
    if op == "div":
        return _divmod_fresh(a[0], a[1])[0]
    if op == "shr":
        c = a[1]
        if c % 8 == 0 and c > 8:
            for cc in range(8, c - 8, 8):       # bottom-up, so that the chain is not one deep recursion
                lowi(n_shr(a[0], cc))
            return _divmod_fresh(n_shr(a[0], c - 8), 256)[0]
        return _divmod_fresh(a[0], 1 << c)[0]
    if op == "byte":
        for cc in range(8, 8 * a[1], 8):
            lowi(n_shr(a[0], cc))
        return _divmod_fresh(n_shr(a[0], 8 * a[1]), 256)[1]
    if op == "and" and is_const(a[1]) and a[1].args[0] > 0 and a[1].args[0] & (a[1].args[0] + 1) == 0:
        return _divmod_fresh(a[0], a[1].args[0] + 1)[1]
    return None


def lowi(n):
    """z3 Int term equal to value(n)"""
    r = n._int
    if r is not None:
        return r
    op, a = n.op, n.args
    if LIA_FRESH_DIVMOD[0] and op in ("mod", "div", "shr", "byte", "and"):
        r = _lowi_fresh(n)
        if r is not None:
            n._int = r
            _INT_LOWERED.append(n)
            return r
    if op == "const":
        r = z3.IntVal(a[0])
    elif op == "var":
        name, vlo, vhi = a
        r = z3.Int(name)
    elif op == "add":
        r = lowi(a[0]) + lowi(a[1])
    elif op == "sub":
        r = lowi(a[0]) - lowi(a[1])
    elif op == "mul":
        r = lowi(a[0]) * lowi(a[1])
    elif op == "neg":
        r = -lowi(a[0])
    elif op == "shl":
        r = lowi(a[0]) * (1 << a[1])
    elif op == "shr":
        r = lowi(a[0]) / z3.IntVal(1 << a[1])
    elif op == "mod":
        r = lowi(a[0]) % z3.IntVal(a[1])
    elif op == "div":
        r = lowi(a[0]) / z3.IntVal(a[1])
    elif op == "divs":
        r = lowi(a[0]) / lowi(a[1])
    elif op == "byte":
        x, i = a
        r = (lowi(x) / z3.IntVal(1 << (8 * i))) % 256 if i else lowi(x) % 256
    elif op == "cat":
        r = z3.Sum([lowi(it) * (1 << (8 * (len(a) - 1 - j))) for j, it in enumerate(a)])
    elif op == "and" and is_const(a[1]) and a[1].args[0] > 0 and a[1].args[0] & (a[1].args[0] + 1) == 0:
        r = lowi(a[0]) % z3.IntVal(a[1].args[0] + 1)
    elif op in ("or", "xor", "add") and a[0].lo >= 0 and a[1].lo >= 0 and \
            nz(a[0], max(a[0].U, a[1].U)) & nz(a[1], max(a[0].U, a[1].U)) == 0:
        r = lowi(a[0]) + lowi(a[1])
    elif op == "and" and is_const(a[1]) and a[1].args[0] > 0 and a[0].lo >= 0 and _contiguous(a[1].args[0]) is not None:
        # mask of contiguous ones, bits [lo, hi): ((x div 2^lo) mod 2^(hi-lo)) * 2^lo
        lo_, hi_ = _contiguous(a[1].args[0])
        r = ((lowi(a[0]) / z3.IntVal(1 << lo_)) % z3.IntVal(1 << (hi_ - lo_))) * (1 << lo_)
    elif op in ("and", "or", "xor") and a[0].lo >= 0 and a[1].lo >= 0:
        # bitwise operation on non-negative operands as an uninterpreted function (sound over-approximation in LIA mode)
        key = ("int", "bit_" + op, 2, 0)
        f = _UFD.get(key)
        if f is None:
            f = z3.Function("bit_" + op + "!i", z3.IntSort(), z3.IntSort(), z3.IntSort())
            _UFD[key] = f
        r = f(lowi(a[0]), lowi(a[1]))
        _side("int", z3.And(r >= n.lo, r <= n.hi))
    elif op == "ite":
        r = z3.If(lowb(a[0], "int"), lowi(a[1]), lowi(a[2]))
    elif op == "uf":
        name, outbits = a[0], a[1]
        args = a[3:]
        key = ("int", name, len(args), outbits)
        f = _UFD.get(key)
        if f is None:
            f = z3.Function(f"{name}!i{len(args)}", *([z3.IntSort()] * len(args)), z3.IntSort())
            _UFD[key] = f
        r = f(*[lowi(x) for x in args])
        _side("int", z3.And(r >= 0, r < (1 << outbits)))
    elif op == "sel":
        table, idx = a
        ib = lowi(idx)
        e = z3.IntVal(table[-1])
        for i in range(len(table) - 2, -1, -1):
            e = z3.If(ib == i, z3.IntVal(table[i]), e)
        r = e
    else:
        raise Unsupported(f"int lowering of {op}")
    n._int = r
    if LIA_FRESH_DIVMOD[0]:
        _INT_LOWERED.append(n)
    return r


def lowb(p, mode):
    key = "b" + mode
    r = p._bv.get(key)
    if r is not None:
        return r
    op, a = p.op, p.args
    if op == "bconst":
        r = z3.BoolVal(a[0])
    elif op == "bvar":
        r = z3.Bool(a[0])
    elif op == "not":
        r = z3.Not(lowb(a[0], mode))
    elif op == "band":
        r = z3.And(*[lowb(x, mode) for x in a])
    elif op in ("lt", "le", "eq"):
        x, y = a
        if mode == "int":
            xx, yy = lowi(x), lowi(y)
            r = xx < yy if op == "lt" else (xx <= yy if op == "le" else xx == yy)
        else:
            if x.lo >= 0 and y.lo >= 0:
                w = max(x.U, y.U)
                xx, yy = low(x, w), low(y, w)
                r = z3.ULT(xx, yy) if op == "lt" else (z3.ULE(xx, yy) if op == "le" else xx == yy)
            else:
                w = max(x.W, y.W)
                xx, yy = low(x, w), low(y, w)
                r = xx < yy if op == "lt" else (xx <= yy if op == "le" else xx == yy)
    elif op == "buf":
        name = a[0]
        args = a[1:]
        if mode == "int":
            key2 = ("intb", name, len(args))
            f = _UFD.get(key2)
            if f is None:
                f = z3.Function(f"{name}!p{len(args)}", *([z3.IntSort()] * len(args)), z3.BoolSort())
                _UFD[key2] = f
            r = f(*[lowi(x) for x in args])
        else:
            key2 = ("bvb", name, tuple(x.U for x in args))
            f = _UFD.get(key2)
            if f is None:
                f = z3.Function(f"{name}!p{'_'.join(str(x.U) for x in args)}",
                                *[z3.BitVecSort(x.U) for x in args], z3.BoolSort())
                _UFD[key2] = f
            r = f(*[low(x, x.U) for x in args])
    else:
        raise Unsupported(f"bool lowering of {op}")
    p._bv[key] = r
    if mode == "int" and LIA_FRESH_DIVMOD[0]:
        _INT_LOWERED.append(p)
    return r


# --------------------------------------------------------------------------------------
# concrete evaluation of the DAG (encoding self-validation and witness extraction)

UF_IMPL = {}  # name -> python callable over ints (self-validation with real hashes)


def evaln(n, env, memo=None):
    """evaluate node under env: var name -> int/bool"""
    if memo is None:
        memo = {}
    r = memo.get(n.id)
    if r is not None:
        return r
    op, a = n.op, n.args
    E = lambda x: evaln(x, env, memo)  # noqa
    if op == "const":
        r = a[0]
    elif op == "var":
        r = env[a[0]]
    elif op in ("add", "sub", "mul", "and", "or", "xor"):
        r = _FOLD[op](E(a[0]), E(a[1]))
    elif op == "neg":
        r = -E(a[0])
    elif op in ("shl", "shr", "mod", "div", "byte"):
        r = _FOLD[op](E(a[0]), a[1])
    elif op == "divs":
        r = E(a[0]) // E(a[1])
    elif op == "cat":
        r = 0
        for it in a:
            r = (r << 8) | E(it)
    elif op == "ite":
        r = E(a[1]) if E(a[0]) else E(a[2])
    elif op == "uf":
        r = UF_IMPL[a[0]](*[E(x) for x in a[3:]])
    elif op == "sel":
        r = a[0][E(a[1])]
    elif op == "bconst":
        r = a[0]
    elif op == "bvar":
        r = bool(env[a[0]])
    elif op == "not":
        r = not E(a[0])
    elif op == "band":
        r = all(E(x) for x in a)
    elif op == "lt":
        r = E(a[0]) < E(a[1])
    elif op == "le":
        r = E(a[0]) <= E(a[1])
    elif op == "eq":
        r = E(a[0]) == E(a[1])
    elif op == "buf":
        r = UF_IMPL[a[0]](*[E(x) for x in a[1:]])
    else:
        raise Unsupported(f"eval of {op}")
    memo[n.id] = r
    return r


# --------------------------------------------------------------------------------------
# explorer


class Stats:
    def __init__(self):
        self.paths = 0
        self.decisions = 0
        self.q = {"unsat": 0, "sat": 0, "unknown": 0}
        self.solver_s = 0.0
        self.unknown_feas = 0
        self.checks = 0

    def merge(self, o):
        self.paths += o.paths
        self.decisions += o.decisions
        for k in self.q:
            self.q[k] += o.q[k]
        self.solver_s += o.solver_s
        self.unknown_feas += o.unknown_feas
        self.checks += o.checks

    def asdict(self):
        return {"paths": self.paths, "decisions": self.decisions, "queries": dict(self.q),
                "solver_s": round(self.solver_s, 3), "unknown_feasibility": self.unknown_feas,
                "assertion_queries": self.checks}


class PathAbort(BaseException):
    """raised to abandon the current path (infeasible / budget)"""


class Inconclusive(Exception):
    pass


class Ctx:
    def __init__(self, mode="bv", timeout_ms=20000, tactic=None):
        self.mode = mode
        self.solver = z3.SolverFor("QF_AUFBV") if (mode == "bv" and tactic == "qfaufbv") else z3.Solver()
        self.timeout_ms = timeout_ms
        self.decisions = []  # list of bool
        self.cand = {}  # decision index -> concretisation candidate
        self.pos = 0
        self.pc = []  # z3 bools
        self.dpos = []  # index into pc of each decision taken on the current path
        self.assumed = []  # harness preconditions on the current path
        self.records = []  # per completed path: (pcn, assumed, result)
        self.pcn = []  # bool nodes
        self.stats = Stats()
        self.vars = {}
        self.side_done = {"bv": 0, "int": 0}
        self.pre = []
        self.violations = []
        self.inconclusive = []
        self.notes = []

    def flush_side(self):
        m = self.mode
        s = _SIDE[m]
        while self.side_done[m] < len(s):
            self.solver.add(s[self.side_done[m]])
            self.side_done[m] += 1

    def lower(self, p):
        r = lowb(p, self.mode)
        self.flush_side()
        return r

    def query(self, extra, timeout_ms=None):
        """check pre ∧ pc ∧ extra; returns 'sat'/'unsat'/'unknown' (model kept on sat)"""
        tmo = timeout_ms or self.timeout_ms
        if DEADLINE[0] is not None:
            # the obligation's wall budget: no single query may run past it (an `unknown` answer is handled conservatively by callers)
            tmo = max(1, min(tmo, int((DEADLINE[0] - time.time()) * 1000)))
        self.solver.set("timeout", tmo)
        t = time.time()
        self.solver.push()
        try:
            self.solver.add(*self.pc)
            self.solver.add(*extra)
            r = self.solver.check()
            rs = str(r)
            self.model = self.solver.model() if rs == "sat" else None
        finally:
            self.solver.pop()
        self.stats.solver_s += time.time() - t
        self.stats.q[rs] += 1
        return rs

    def query_fresh(self, extra, timeout_ms=None):
        """query() on a new, non-incremental solver holding the same assertions (variable ranges, side conditions, pc):
        z3 then runs its full preprocessing pipeline, which decides table look-up / xor-heavy lemmas that the
        incremental (push/pop) core does not (C15: 255 GF(256) per-constant lemmas 25 s instead of > 600 s)"""
        s = z3.Solver()
        s.set("timeout", timeout_ms or self.timeout_ms)
        t = time.time()
        s.add(self.solver.assertions())
        s.add(*self.pc)
        s.add(*extra)
        rs = str(s.check())
        self.model = s.model() if rs == "sat" else None
        self.stats.solver_s += time.time() - t
        self.stats.q[rs] += 1
        return rs


CTX = None
DEADLINE = [None]   # absolute time.time() after which explorations of this process wind up (set by the obligation runner)


def ctx():
    return CTX


def branch(p):
    """decide bool node p on the current path (forking through re-execution)"""
    if p is TRUE:
        return True
    if p is FALSE:
        return False
    c = CTX
    if c is None:
        raise RuntimeError("symbolic branch outside an exploration")
    zp = c.lower(p)
    if c.pos < len(c.decisions):
        taken = c.decisions[c.pos]
    else:
        r = c.query([zp])
        if r == "unknown":
            c.stats.unknown_feas += 1
        taken = r != "unsat"
        c.decisions.append(taken)
    c.pos += 1
    c.stats.decisions += 1
    c.dpos.append(len(c.pc))
    c.pc.append(zp if taken else z3.Not(zp))
    c.pcn.append(p if taken else b_not(p))
    return taken


def assume(p):
    """restrict the current path to p (harness precondition). Placed before the code it constrains."""
    if isinstance(p, SB):
        p = p.n
    elif isinstance(p, bool):
        p = TRUE if p else FALSE
    if p is TRUE:
        return
    c = CTX
    if p is FALSE:
        raise PathAbort()
    zp = c.lower(p)
    c.pc.append(zp)
    c.pcn.append(p)
    c.assumed.append(p)
    # feasibility of the assumption on this path
    r = c.query([])
    if r == "unsat":
        raise PathAbort()


def concretize(x, limit=None):
    """fork over the feasible values of x (solver-chosen); each value is a path"""
    if isinstance(x, SI):
        n = x.n
    elif isinstance(x, Node):
        n = x
    else:
        return x
    if is_const(n):
        return n.args[0]
    c = CTX
    while True:
        if c.pos in c.cand and c.pos < len(c.decisions):
            v = c.cand[c.pos]
        else:
            r = c.query([])
            if r != "sat":
                if r == "unknown":
                    raise Inconclusive("concretize: feasibility unknown")
                raise PathAbort()
            v = model_int(c.model, n, c.mode)
            c.cand[c.pos] = v
        if branch(b_cmp("eq", n, const(v))):
            return v


MANY_IF_UNKNOWN = [False]


def _many_values(nodes, k=4):
    """True when the current path admits more than k joint values of the nodes (at most k+1 queries, no decision recorded);
    values pinned by the path condition are then still concretised as before"""
    c = CTX
    excl = []
    for _ in range(k + 1):
        r = c.query(excl)
        if r == "unknown" and excl and MANY_IF_UNKNOWN[0]:
            # opt-in (harness): the solver found some values and gave up on "yet another one" -- not pinned, so not enumerable either
            return True
        if r != "sat":
            return False
        m = c.model
        same = [c.lower(b_cmp("eq", n, const(model_int(m, n, c.mode)))) for n in nodes]
        excl.append(z3.Not(z3.And(*same)) if len(same) > 1 else z3.Not(same[0]))
    return True


def model_int(model, n, mode):
    if mode == "int":
        t = lowi(n)
        return model.eval(t, model_completion=True).as_long()
    if n.lo >= 0:
        return model.eval(low(n, n.U), model_completion=True).as_long()
    return model.eval(low(n, n.W), model_completion=True).as_signed_long()


def model_bool(model, p, mode):
    return z3.is_true(model.eval(lowb(p, mode), model_completion=True))


def model_env(model=None):
    """var name -> concrete value for every variable created in this exploration"""
    c = CTX
    model = model or c.model
    env = {}
    for name, n in c.vars.items():
        if n.isbool:
            env[name] = model_bool(model, n, c.mode)
        else:
            env[name] = model_int(model, n, c.mode)
    return env


PATH_START_HOOKS = []   # callables run before every path (symx.loader resets the library's module-level state here)


def explore(fn, mode="bv", max_paths=20000, timeout_ms=20000, wall_s=None, pre=None, max_violations=None):
    """run fn() on every feasible path. fn's return value / exception is collected.
    Returns (ctx, results) where results is a list of (outcome_kind, value)."""
    global CTX
    prev = CTX
    c = CTX = Ctx(mode=mode, timeout_ms=timeout_ms)
    t0 = time.time()
    out = []
    try:
        while True:
            c.pos = 0
            c.pc = []
            c.pcn = []
            c.dpos = []
            c.assumed = []
            for _h in PATH_START_HOOKS:
                _h()
            try:
                res = ("ok", fn())
            except PathAbort:
                res = None
            except Inconclusive as e:
                c.inconclusive.append(str(e))
                res = None
            except Unsupported as e:
                c.inconclusive.append("unsupported: " + str(e))
                res = None
            if res is not None:
                out.append(res)
                c.stats.paths += 1
                if len(c.records) < 5000:
                    c.records.append((list(c.pcn), list(c.assumed), list(c.pc), res[1]))
            d = c.decisions[: c.pos]
            pcs = c.pc
            # backtrack: flip the deepest True decision whose negation is feasible
            saved_pc = list(pcs)
            dpos = c.dpos
            while d:
                last = d.pop()
                if last:
                    c.pc = saved_pc[: dpos[len(d)]]
                    r = c.query([z3.Not(saved_pc[dpos[len(d)]])])
                    if r == "unknown":
                        c.stats.unknown_feas += 1
                    if r != "unsat":
                        d.append(False)
                        break
            else:
                c.pc = []
                if c.query([]) != "sat":
                    c.inconclusive.append("vacuity guard: the solver's base assertions (variable ranges, side conditions) are not satisfiable")
                return c, out
            c.decisions = d
            c.cand = {k: v for k, v in c.cand.items() if k < len(d)}
            if max_violations is not None and len(c.violations) >= max_violations:
                c.notes.append(f"exploration stopped after {len(c.violations)} violation candidates")
                return c, out
            if c.stats.paths > max_paths:
                c.inconclusive.append(f"path budget {max_paths} exceeded")
                return c, out
            if wall_s is not None and time.time() - t0 > wall_s:
                c.inconclusive.append(f"wall budget {wall_s}s exceeded")
                return c, out
            if DEADLINE[0] is not None and time.time() > DEADLINE[0]:
                c.inconclusive.append("obligation wall budget exhausted: exploration incomplete")
                return c, out
    finally:
        CTX = prev


def check(p, label, witness=None, timeout_ms=None, fresh=False):
    """assert p on the current path: query pc ∧ ¬p.  Records a violation candidate (with model) on sat,
    an inconclusive entry on unknown.  Returns True when discharged.  fresh=True: decide on a new non-incremental solver
    (see Ctx.query_fresh)."""
    c = CTX
    if isinstance(p, SB):
        p = p.n
    elif isinstance(p, bool):
        p = TRUE if p else FALSE
    c.stats.checks += 1
    if p is TRUE:
        # still a discharged obligation on this path (decided by folding / intervals)
        return True
    if p is FALSE:
        r = c.query([])
        if r == "unsat":
            return True
    else:
        zp = c.lower(p)
        r = c.query_fresh([z3.Not(zp)], timeout_ms) if fresh else c.query([z3.Not(zp)], timeout_ms)
    if r == "unsat":
        return True
    if r == "unknown":
        c.inconclusive.append(f"{label}: solver unknown")
        return False
    env = model_env()
    w = {"label": label, "env": {k: (v if not isinstance(v, bool) else bool(v)) for k, v in env.items()}}
    if witness is not None:
        try:
            w["witness"] = witness(env)
        except Exception as e:  # noqa
            w["witness_error"] = repr(e)
    c.violations.append(w)
    return False


def reachable(label="reach"):
    """reachability twin: the current path must be feasible (it is, by construction of branch());
    re-query to make it explicit and count it"""
    c = CTX
    r = c.query([])
    if r != "sat":
        c.inconclusive.append(f"{label}: path not shown feasible ({r})")
    return r == "sat"


# --------------------------------------------------------------------------------------
# proxies


def lift(x):
    if isinstance(x, SI):
        return x.n
    if isinstance(x, bool):
        return const(int(x))
    if isinstance(x, int):
        return const(x)
    if isinstance(x, SB):
        return n_ite(x.n, const(1), const(0))
    raise TypeError(f"cannot lift {type(x)}")


def wrap(n):
    if is_const(n):
        return n.args[0]
    return SI(n)


def wrapb(p):
    if p is TRUE:
        return True
    if p is FALSE:
        return False
    return SB(p)


class SB:
    """symbolic boolean; bool() forks"""
    __slots__ = ("n",)

    def __init__(self, n):
        self.n = n

    def __bool__(self):
        return branch(self.n)

    def __and__(self, o):
        return wrapb(b_and(self.n, lbool(o)))

    __rand__ = __and__

    def __or__(self, o):
        return wrapb(b_or(self.n, lbool(o)))

    __ror__ = __or__

    def __invert__(self):
        return wrapb(b_not(self.n))

    def __eq__(self, o):
        a, b = self.n, lbool(o)
        return wrapb(b_or(b_and(a, b), b_and(b_not(a), b_not(b))))

    def __ne__(self, o):
        return ~(self == o)

    def __hash__(self):
        return id(self)

    def __repr__(self):
        return "SB<?>"

    # int-like use of a boolean (True + 1, int(flag))
    def __int__(self):
        return int(bool(self))

    def __index__(self):
        return int(bool(self))


def lbool(x):
    if isinstance(x, SB):
        return x.n
    if isinstance(x, Node):
        return x
    return TRUE if x else FALSE


def s_and(*xs):
    return wrapb(b_and(*[lbool(x) for x in xs]))


def s_or(*xs):
    return wrapb(b_or(*[lbool(x) for x in xs]))


def s_not(x):
    return wrapb(b_not(lbool(x)))


def s_implies(a, b):
    return wrapb(b_or(b_not(lbool(a)), lbool(b)))


def s_ite(c, a, b):
    """value-level if-then-else over ints (no fork)"""
    cn = lbool(c)
    if cn is TRUE:
        return a
    if cn is FALSE:
        return b
    if isinstance(a, (SB, bool)) and isinstance(b, (SB, bool)):
        return wrapb(n_ite(cn, lbool(a), lbool(b)))
    return wrap(n_ite(cn, lift(a), lift(b)))


class SI:
    """symbolic mathematical integer (Python int semantics)"""
    __slots__ = ("n",)

    def __init__(self, n):
        self.n = n

    lo = property(lambda s: s.n.lo)
    hi = property(lambda s: s.n.hi)

    def __add__(s, o):
        if isinstance(o, float):
            return Ratio(s, o, "add")
        if not isinstance(o, (SI, int, SB)):
            return NotImplemented
        return wrap(n_add(s.n, lift(o)))

    __radd__ = __add__

    def __sub__(s, o):
        if isinstance(o, float):
            return Ratio(s, o, "sub")
        if not isinstance(o, (SI, int, SB)):
            return NotImplemented
        return wrap(n_sub(s.n, lift(o)))

    def __rsub__(s, o):
        if isinstance(o, float):
            return Ratio(o, s, "sub")
        if not isinstance(o, (SI, int, SB)):
            return NotImplemented
        return wrap(n_sub(lift(o), s.n))

    def __neg__(s):
        return wrap(n_neg(s.n))

    def __pos__(s):
        return s

    def __abs__(s):
        if s.n.lo >= 0:
            return s
        if s.n.hi < 0:
            return -s
        return (-s) if (s < 0) else s

    def __mul__(s, o):
        if isinstance(o, float):
            return _mul_float(s, o)
        if not isinstance(o, (SI, int, SB)):
            return NotImplemented
        return wrap(n_mul(s.n, lift(o)))

    __rmul__ = __mul__

    def __lshift__(s, c):
        c = concretize(c)
        if c < 0:
            raise ValueError("negative shift count")
        return wrap(n_shl(s.n, c))

    def __rlshift__(s, o):
        c = concretize(s)
        return o << c

    def __rshift__(s, c):
        c = concretize(c)
        if c < 0:
            raise ValueError("negative shift count")
        return wrap(n_shr(s.n, c))

    def __rrshift__(s, o):
        c = concretize(s)
        return o >> c

    def __and__(s, o):
        if not isinstance(o, (SI, int, SB)):
            return NotImplemented
        return wrap(n_bit("and", s.n, lift(o)))

    __rand__ = __and__

    def __or__(s, o):
        if not isinstance(o, (SI, int, SB)):
            return NotImplemented
        return wrap(n_bit("or", s.n, lift(o)))

    __ror__ = __or__

    def __xor__(s, o):
        if not isinstance(o, (SI, int, SB)):
            return NotImplemented
        return wrap(n_bit("xor", s.n, lift(o)))

    __rxor__ = __xor__

    def __invert__(s):
        return wrap(n_sub(const(-1), s.n))

    def __mod__(s, m):
        m = concretize(m)
        if m == 0:
            raise ZeroDivisionError("integer modulo by zero")
        if m < 0:
            r = (-s) % (-m)
            return -r
        return wrap(n_mod(s.n, m))

    def __rmod__(s, o):
        m = concretize(s)
        return o % m

    def __floordiv__(s, m):
        m = concretize(m)
        if m == 0:
            raise ZeroDivisionError("integer division by zero")
        if m < 0:
            return (-s) // (-m)
        return wrap(n_div(s.n, m))

    def __rfloordiv__(s, o):
        m = concretize(s)
        return o // m

    def __divmod__(s, m):
        return (s // m, s % m)

    def __truediv__(s, o):
        return _fpx.binop("div", s, o)

    def __rtruediv__(s, o):
        return _fpx.binop("div", o, s)

    def __pow__(s, e, mod=None):
        e = concretize(e)
        if mod is not None:
            mod = concretize(mod)
        if e < 0:
            if mod is None:
                raise Unsupported("negative power")
            raise Unsupported("modular inverse of symbolic value (no field model active)")
        if mod is not None and e.bit_length() > 32 and mod.bit_length() > 32:
            # e.g. a square root / inverse mod the secp256k1 prime by exponentiation: hundreds of 256-bit symbolic multiplications
            raise Unsupported("modular exponentiation of a symbolic base with a wide exponent (no field model active)")
        result = 1
        base = s
        if mod is not None:
            base = base % mod
        while e:
            if e & 1:
                result = result * base
                if mod is not None:
                    result = result % mod
            e >>= 1
            if e:
                base = base * base
                if mod is not None:
                    base = base % mod
        if mod is not None and isinstance(result, int):
            result %= mod
        return result

    def __rpow__(s, o, mod=None):
        e = concretize(s)
        return pow(o, e, mod) if mod is not None else o ** e

    def _cmp(s, o, op, swap=False, neg=False):
        if isinstance(o, float):
            return _cmp_float(s, o, op, swap, neg)
        if isinstance(o, Ratio):
            return o._cmp(s, op, not swap, neg)
        if not isinstance(o, (SI, int, SB)):
            return NotImplemented
        a, b = s.n, lift(o)
        if swap:
            a, b = b, a
        p = b_cmp(op, a, b)
        if neg:
            p = b_not(p)
        return wrapb(p)

    def __eq__(s, o):
        r = s._cmp(o, "eq")
        return False if r is NotImplemented else r

    def __ne__(s, o):
        r = s._cmp(o, "eq", neg=True)
        return True if r is NotImplemented else r

    def __lt__(s, o):
        return s._cmp(o, "lt")

    def __le__(s, o):
        return s._cmp(o, "le")

    def __gt__(s, o):
        return s._cmp(o, "lt", swap=True)

    def __ge__(s, o):
        return s._cmp(o, "le", swap=True)

    def __bool__(s):
        return bool(s != 0)

    def __hash__(s):
        # hashing a symbolic value (dict key / set member) needs its value: concretise -- unless the value has too many
        # candidates to enumerate.  Then every such value hashes alike, so that set/dict lookups among symbolic keys are decided
        # by == (which forks); a lookup against *concrete* keys of the same container would be missed, hence the path set is
        # marked inconclusive (a witness found on such a path is still replayed on the real code, so no false alarm arises).
        if s.n.op != "const" and s.n.hi - s.n.lo >= WIDE_HASH[0] and CTX is not None and _many_values([s.n]):
            note = ("a symbolic int with more than 2^16 candidate values was hashed (set/dict key): compared by equality with other "
                    "symbolic keys only; lookups against concrete keys of the same container are not modelled")
            if note not in CTX.inconclusive:
                CTX.inconclusive.append(note)
            return 0x5157
        return hash(concretize(s))

    def __index__(s):
        return concretize(s)

    def __int__(s):
        return concretize(s)

    def __repr__(s):
        return f"<sym int [{s.n.lo},{s.n.hi}]>" if s.n.hi - s.n.lo < 1 << 64 else "<sym int>"

    __str__ = __repr__

    def __format__(s, spec):
        return "<sym>"

    def bit_length(s):
        if s.n.lo >= 0:
            # fork over the lengths, longest first (the short ones are the rare values: explored last, found all the same)
            for k in range(s.n.hi.bit_length(), 0, -1):
                if s >= (1 << (k - 1)):
                    return k
            return 0
        raise Unsupported("bit_length of possibly negative symbolic value")

    def to_bytes(s, length=1, byteorder="big", *, signed=False):
        length = concretize(length)
        if signed:
            # two's complement: range check as CPython does, then one path per sign
            half = 1 << (8 * length - 1) if length else 0
            if s < -half or s >= half:
                raise OverflowError("int too big to convert")
            if s < 0:
                return (s + (1 << (8 * length))).to_bytes(length, byteorder)
            return s.to_bytes(length, byteorder)
        if s < 0:
            raise OverflowError("can't convert negative int to unsigned")
        if s >= (1 << (8 * length)):
            raise OverflowError("int too big to convert")
        # on this path 0 <= s < 256^length; tighten the interval for provenance
        n = s.n
        if not (n.lo >= 0 and n.hi < (1 << (8 * length))):
            n = _clamp(n, 0, (1 << (8 * length)) - 1)
        items = [wrap(n_byte(n, i)) for i in range(length)]
        if byteorder == "big":
            items.reverse()
        return norm(SBytes(items))

    @staticmethod
    def var(name, lo, hi):
        return SI(new_var(name, lo, hi))


def new_var(name, lo, hi):
    """declare an integer variable (registered with the current exploration; its range constraint is asserted at once so
    that models always give in-range values, also for variables that occur in no query)"""
    n = mknode("var", (name, lo, hi), lo, hi)
    c = CTX
    if c is None:
        raise RuntimeError("symbolic variables must be created inside an exploration")
    prev = c.vars.get(name)
    if prev is None:
        c.vars[name] = n
        # range constraint, per exploration (never global: the same name may be reused with another range elsewhere)
        if c.mode == "int":
            v = lowi(n)
            c.solver.add(v >= lo, v <= hi)
        elif lo >= 0:
            w = n.U
            v = low(n, w)
            if hi != (1 << w) - 1:
                c.solver.add(z3.ULE(v, z3.BitVecVal(hi, w)))
            if lo > 0:
                c.solver.add(z3.UGE(v, z3.BitVecVal(lo, w)))
        else:
            w = n.W
            v = low(n, w)
            c.solver.add(v <= z3.BitVecVal(hi, w), v >= z3.BitVecVal(lo, w))
    elif prev is not n:
        raise RuntimeError(f"variable {name} redeclared with a different range in one exploration")
    return n


def _clamp(n, lo, hi):
    """a node equal to n on the current path where lo <= n <= hi is already established; narrows the interval.
    Implemented as mod 2^k for lo == 0 and hi == 2^k-1 (value-preserving on the path)."""
    if lo == 0 and (hi + 1) & hi == 0:
        return mknode("and", (n, const(hi)), 0, hi)
    return n


from . import fpx as _fpx  # noqa: E402


class Ratio(_fpx.FExpr):
    """result of CPython's true division / of arithmetic with a float: a lazy tree of IEEE-754 double operations over
    int / SI / float leaves, evaluated with exact round-to-nearest-even semantics on observation (comparison, int(),
    math.ceil / floor, bool()).  Ratio(num, den) is the node num / den; Ratio(a, b, op) with op in div, mul, add, sub.
    The model, its limits and the exact-rational fast path for small int / int quotients are described in symx/fpx.py."""


def _mul_float(s, f):
    """SI * concrete float: an ordinary node of the float expression tree (the int operand is converted to double with
    rounding, then the product is rounded; see symx/fpx.py)"""
    return Ratio(s, f, "mul")


def _cmp_float(s, f, op, swap, neg):
    """exact comparison of a symbolic int with a concrete float (what CPython does)"""
    import math
    if f != f:
        return neg if op == "eq" else False
    if f in (float("inf"), float("-inf")):
        big = f > 0
        if op == "eq":
            return neg
        # s < inf True; swap: inf < s False
        r = big if not swap else not big
        return r != neg if False else (r if not neg else not r)
    num, den = f.as_integer_ratio()
    a = s.n
    if op == "eq":
        if den != 1:
            return neg
        p = b_cmp("eq", a, const(num))
    else:
        fl = math.floor(f)
        ce = math.ceil(f)
        if not swap:
            # s < f  <=> s < ceil(f) ; s <= f <=> s <= floor(f)
            p = b_cmp("lt", a, const(ce)) if op == "lt" else b_cmp("le", a, const(fl))
        else:
            # f < s <=> floor(f) < s ; f <= s <=> ceil(f) <= s
            p = b_cmp("lt", const(fl), a) if op == "lt" else b_cmp("le", const(ce), a)
    if neg:
        p = b_not(p)
    return wrapb(p)


# --------------------------------------------------------------------------------------
# byte strings


def _as_item(x):
    if isinstance(x, SI):
        return x
    if isinstance(x, int):
        return x
    raise TypeError(f"byte item of type {type(x)}")


class SHex:
    """hex string of symbolic bytes (handle; only conversions back are supported)"""

    def __init__(self, b):
        self.b = b

    def __len__(self):
        return 2 * len(self.b)

    def __eq__(self, o):
        if isinstance(o, SHex):
            return self.b == o.b
        if isinstance(o, str):
            try:
                return self.b == bytes.fromhex(o)
            except ValueError:
                return False
        return False

    def __ne__(self, o):
        r = self == o
        return ~r if isinstance(r, SB) else (not r)

    def __hash__(self):
        return hash(concretize_bytes(self.b).hex())

    def __repr__(self):
        return "<sym hex>"

    __str__ = __repr__

    def __format__(self, spec):
        return "<sym hex>"


def concretize_bytes(b):
    if isinstance(b, (bytes, bytearray)):
        return bytes(b)
    return bytes(concretize(i) for i in b.items)


HASH_BY_PROVENANCE = [False]


class SBytes:
    """byte string of concrete length with symbolic (SI) or concrete (int) elements"""
    __slots__ = ("items",)

    def __init__(self, items=()):
        self.items = list(items)

    @staticmethod
    def sym(name, n):
        return SBytes([SI.var(f"{name}[{i}]", 0, 255) for i in range(n)])

    def __len__(self):
        return len(self.items)

    def __iter__(self):
        return iter(self.items)

    def __getitem__(self, k):
        if isinstance(k, slice):
            k = slice(*(concretize(v) if v is not None else None for v in (k.start, k.stop, k.step)))
            return norm(SBytes(self.items[k]))
        return self.items[concretize(k)]

    def __add__(self, o):
        if isinstance(o, (bytes, bytearray)):
            return SBytes(self.items + list(o))
        if isinstance(o, SBytes):
            return SBytes(self.items + o.items)
        return NotImplemented

    def __radd__(self, o):
        if isinstance(o, (bytes, bytearray)):
            return SBytes(list(o) + self.items)
        return NotImplemented

    def __mul__(self, n):
        return norm(SBytes(self.items * concretize(n)))

    __rmul__ = __mul__

    def _eqnode(self, o):
        if isinstance(o, SHex):
            return FALSE
        if not isinstance(o, (bytes, bytearray, SBytes)):
            return None
        o = list(o)
        if len(o) != len(self.items):
            return FALSE
        if len(o) >= 2:
            # when one side is the complete byte decomposition of an integer (provenance), compare the integers
            ca = n_cat([lift(i) for i in self.items])
            cb = n_cat([lift(i) for i in o])
            if ca.op not in ("cat", "const") or cb.op not in ("cat", "const"):
                return b_cmp("eq", ca, cb)
        conds = []
        for a, b in zip(self.items, o):
            if isinstance(a, SI) or isinstance(b, SI):
                conds.append(b_cmp("eq", lift(a), lift(b)))
            elif a != b:
                return FALSE
        return b_and(*conds)

    def __eq__(self, o):
        p = self._eqnode(o)
        if p is None:
            return False
        return wrapb(p)

    def __ne__(self, o):
        p = self._eqnode(o)
        if p is None:
            return True
        return wrapb(b_not(p))

    def _ltnode(self, a, b, strict):
        """lexicographic a < b (or <=) over item lists"""
        # result = OR_i (prefix equal ∧ a_i < b_i)  [∨ (a is proper prefix of b)]
        if len(a) == len(b) and len(a) >= 2:
            # equal lengths: lexicographic order of the bytes is the order of the big-endian integers
            ca = n_cat([lift(i) for i in a])
            cb = n_cat([lift(i) for i in b])
            return b_cmp("lt" if strict else "le", ca, cb)
        n = min(len(a), len(b))
        terms = []
        prefix = TRUE
        for i in range(n):
            ai, bi = lift(a[i]), lift(b[i])
            terms.append(b_and(prefix, b_cmp("lt", ai, bi)))
            prefix = b_and(prefix, b_cmp("eq", ai, bi))
            if prefix is FALSE:
                break
        if prefix is not FALSE:
            if len(a) < len(b) or (len(a) == len(b) and not strict):
                terms.append(prefix)
        return b_or(*terms) if terms else FALSE

    def __lt__(self, o):
        return wrapb(self._ltnode(self.items, list(o), True))

    def __le__(self, o):
        return wrapb(self._ltnode(self.items, list(o), False))

    def __gt__(self, o):
        return wrapb(self._ltnode(list(o), self.items, True))

    def __ge__(self, o):
        return wrapb(self._ltnode(list(o), self.items, False))

    def __hash__(self):
        if HASH_BY_PROVENANCE[0] and len(self.items) >= 2:
            # opt-in (harness): byte strings that are the complete decomposition of one integer node hash by that node, so that
            # dicts keyed by e.g. x-only public keys work without concretising 256-bit values.  Sound only when the harness
            # assumes that distinct nodes used as keys have distinct values (it must say so).
            c = n_cat([lift(i) for i in self.items])
            if c.op not in ("cat", "const"):
                return hash(("sbytes", c.id, len(self.items)))
        symn = [i.n for i in self.items if isinstance(i, SI) and i.n.op != "const"]
        if len(symn) >= 2 and CTX is not None and _many_values(symn):
            # too many candidate values to enumerate (see SI.__hash__): all such strings hash alike and are told apart by ==
            note = ("a byte string with two or more symbolic bytes was hashed (set/dict key): compared by equality with other "
                    "symbolic keys only; lookups against concrete keys of the same container are not modelled")
            if note not in CTX.inconclusive:
                CTX.inconclusive.append(note)
            return 0x5158
        return hash(concretize_bytes(self))

    def __bool__(self):
        return len(self.items) > 0

    def __contains__(self, x):
        if isinstance(x, (int, SI)):
            return bool(s_or(*[i == x for i in self.items]))
        raise Unsupported("subsequence test on symbolic bytes")

    def hex(self):
        return SHex(self)

    def lstrip(self, chars=None):
        if chars is None:
            chars = b" \t\n\r\x0b\x0c"  # bytes.strip() default: ASCII whitespace
        items = self.items
        i = 0
        while i < len(items) and bool(s_or(*[items[i] == c for c in chars])):
            i += 1
        return norm(SBytes(items[i:]))

    def rstrip(self, chars=None):
        return norm(SBytes(SBytes(self.items[::-1]).lstrip(chars)[::-1])) if True else None

    def strip(self, chars=None):
        r = self.lstrip(chars)
        return r.rstrip(chars) if isinstance(r, SBytes) else r.rstrip(chars)

    def startswith(self, p):
        p = list(p)
        if len(p) > len(self.items):
            return False
        return bool(SBytes(self.items[: len(p)]) == SBytes(p))

    def endswith(self, p):
        p = list(p)
        if len(p) > len(self.items):
            return False
        return bool(SBytes(self.items[len(self.items) - len(p):]) == SBytes(p))

    def join(self, parts):
        out = []
        first = True
        for p in parts:
            if not first:
                out.extend(self.items)
            out.extend(list(p))
            first = False
        return norm(SBytes(out))

    def decode(self, *a, **k):
        return concretize_bytes(self).decode(*a, **k)

    def concrete(self):
        if all(isinstance(i, int) for i in self.items):
            return bytes(self.items)
        return None

    def node(self):
        """the big-endian integer of the whole string (cat node)"""
        return n_cat([lift(i) for i in self.items])

    def __repr__(self):
        return f"<sym bytes len={len(self.items)}>"

    __str__ = __repr__

    def __format__(self, spec):
        return repr(self)


def norm(b):
    """collapse fully concrete SBytes to bytes; constant-valued SI items to ints"""
    if isinstance(b, SBytes):
        items = b.items
        for j, i in enumerate(items):
            if isinstance(i, SI) and is_const(i.n):
                items[j] = i.n.args[0]
        if all(isinstance(i, int) for i in items):
            return bytes(items)
    return b


def sbytes(x):
    if isinstance(x, SBytes):
        return x
    return SBytes(list(x))


def int_from_bytes(b, byteorder="big", *, signed=False):
    if isinstance(b, (bytes, bytearray)):
        return int.from_bytes(b, byteorder, signed=signed)
    if signed:
        u = int_from_bytes(b, byteorder)
        nb = len(b)
        if nb and u >= (1 << (8 * nb - 1)):     # one path per sign
            return u - (1 << (8 * nb))
        return u
    items = list(b)
    if byteorder == "little":
        items = items[::-1]
    return wrap(n_cat([lift(i) for i in items]))


def bytes_env(env, name, n):
    return bytes(env[f"{name}[{i}]"] for i in range(n))


class SList(list):
    """list whose indexing / pop / insert with a symbolic index splits into one path per in-range position plus one
    out-of-range path (instead of enumerating every integer value)"""

    def _pos(self, k, allow_end=False):
        if not isinstance(k, SI):
            return k
        n = len(self)
        for p in range(-n, n + (1 if allow_end else 0)):
            if k == p:
                return p
        if k < 0:
            return -n - 1
        return n + 1

    def __getitem__(self, k):
        if isinstance(k, slice):
            return SList(list.__getitem__(self, slice(*(concretize(v) if v is not None else None for v in (k.start, k.stop, k.step)))))
        return list.__getitem__(self, self._pos(k))

    def __setitem__(self, k, v):
        if isinstance(k, slice):
            return list.__setitem__(self, k, v)
        return list.__setitem__(self, self._pos(k), v)

    def pop(self, k=-1):
        return list.pop(self, self._pos(k))

    def insert(self, k, v):
        return list.insert(self, self._pos(k, allow_end=True), v)


class Out:
    """path result carrying an outcome class and the symbolic output value (for encoding self-validation)"""

    def __init__(self, cls, value=None):
        self.cls = cls
        self.value = value

    def __repr__(self):
        return repr(self.cls)


def conc_value(v, env, memo=None):
    """concrete value of a (possibly nested) symbolic result under env"""
    if memo is None:
        memo = {}
    if isinstance(v, SI):
        return evaln(v.n, env, memo)
    if isinstance(v, SB):
        return bool(evaln(v.n, env, memo))
    if isinstance(v, SBytes):
        return bytes(conc_value(i, env, memo) for i in v.items)
    if isinstance(v, SHex):
        return conc_value(v.b, env, memo).hex()
    if isinstance(v, (list, tuple)):
        return type(v)(conc_value(i, env, memo) for i in v) if not isinstance(v, SList) else [conc_value(i, env, memo) for i in v]
    if isinstance(v, dict):
        return {k: conc_value(x, env, memo) for k, x in v.items()}
    if isinstance(v, bytearray):
        return bytes(v)
    return v


def validate_paths(c, envs, native, check_lowering=True):
    """encoding self-validation.  For each concrete env (var name -> value): the env must satisfy the path condition of
    exactly one explored path (or violate a harness assumption on every path), and that path's symbolic output, evaluated
    under env, must equal native(env) computed by the real unshimmed code.  Also evaluates the *lowered* z3 path
    condition under env (substitution + simplify) so a lowering bug shows up as a mismatch.
    Returns (n_validated, errors)."""
    errors = []
    done = 0
    for env in envs:
        memo = {}
        hits = []
        for rec in c.records:
            pcn, assumed, pcz, res = rec
            ok = True
            for p in pcn:
                if not evaln(p, env, memo):
                    ok = False
                    break
            if ok:
                hits.append(rec)
        if len(hits) > 1:
            errors.append(f"env {env} satisfies {len(hits)} path conditions (paths must partition the input space)")
            continue
        if not hits:
            # acceptable only if some assumption excludes env on every path
            excl = all(any(not evaln(p, env, memo) for p in rec[1]) for rec in c.records) if c.records else False
            if not excl:
                errors.append(f"env {env} satisfies no explored path condition")
            continue
        pcn, assumed, pcz, res = hits[0]
        if check_lowering:
            subs = []
            for name, node in c.vars.items():
                if name not in env:
                    continue
                if node.isbool:
                    subs.append((z3.Bool(name), z3.BoolVal(bool(env[name]))))
                elif c.mode == "int":
                    subs.append((z3.Int(name), z3.IntVal(env[name])))
                else:
                    w = node.U if node.lo >= 0 else node.W
                    subs.append((z3.BitVec(name, w), z3.BitVecVal(env[name], w)))
            for zc in pcz:
                v = z3.simplify(z3.substitute(zc, *subs))
                if z3.is_false(v):
                    errors.append(f"lowered path condition is false under an env the DAG accepts: {zc.sexpr()[:200]}")
                    break
        if native is not None:
            want = native(env)
            got = conc_value(res.value if isinstance(res, Out) else res, env, memo)
            if want != got:
                errors.append(f"encoding disagrees with the real code on {env}: real {want!r}, encoding {got!r}")
        done += 1
    return done, errors
