"""if-conversion from source (DESIGN.md 2.2): the *current* source of a registered /repo function is fetched with
inspect, assignment-only `if` statements are rewritten into `ite` merges so that a symbolic condition does not fork the
path, and the result is compiled in the function's own (shimmed) module namespace.  Nothing is cached between runs.

Rewritten shapes (anything else is left alone, i.e. keeps forking):

    if T: X op= E                      ->  X = ite(cond(T), X op E, X)          X a name or name[simple index]
    if T: X = E1   else: X = E2        ->  X = ite(cond(T), E1, E2)
    if T: o.m(A..) else: o.m(B..)      ->  o.m(ite(cond(T), A, B)..)            same callee, same arity, no keywords

T is evaluated exactly once and before the branch expressions, as in the original.  Both branch expressions are
evaluated (they must be total: the harness re-checks agreement with the untransformed function on concrete vectors).
`convert(fn)` returns (new_function, number_of_rewrites); with 0 rewrites the caller should keep the original."""
import ast
import inspect
import textwrap

from . import core
from .core import SI, SB


def sx_cond(t):
    """truth value of t without forking"""
    if isinstance(t, SB):
        return t
    if isinstance(t, SI):
        return t != 0
    return bool(t)


def sx_ite(c, a, b):
    if isinstance(c, bool):
        return a if c else b
    ok = (int, SI, SB, bool)
    if isinstance(a, SI) and isinstance(b, (int, SI)) and not isinstance(b, bool):
        # ite(c, b | k, b) == b | ite(c, k, 0): keeps `if bit: r |= 1` chains linear instead of nesting r in both arms
        an, bn = core.lift(a), core.lift(b)
        if an.op == "or" and an.args[0] is bn and core.is_const(an.args[1]):
            return b | core.s_ite(c, an.args[1].args[0], 0)
    if isinstance(a, ok) and isinstance(b, ok):
        return core.s_ite(c, a, b)
    return a if bool(c) else b  # not mergeable: fork


_BINOP = {ast.BitOr: ast.BitOr, ast.BitAnd: ast.BitAnd, ast.BitXor: ast.BitXor, ast.Add: ast.Add, ast.Sub: ast.Sub,
          ast.LShift: ast.LShift, ast.RShift: ast.RShift, ast.Mult: ast.Mult}


def _simple_target(t):
    if isinstance(t, ast.Name):
        return True
    if isinstance(t, ast.Subscript) and isinstance(t.value, ast.Name) and isinstance(t.slice, (ast.Name, ast.Constant)):
        return True
    return False


def _load(t):
    t2 = ast.parse(ast.unparse(t), mode="eval").body
    return t2


def _call(name, args):
    return ast.Call(func=ast.Name(id=name, ctx=ast.Load()), args=args, keywords=[])


class _T(ast.NodeTransformer):
    def __init__(self):
        self.count = 0

    def visit_If(self, n):
        self.generic_visit(n)
        cond = _call("__sx_cond__", [n.test])
        # if T: X op= E
        if len(n.body) == 1 and not n.orelse and isinstance(n.body[0], ast.AugAssign):
            s = n.body[0]
            if _simple_target(s.target) and type(s.op) in _BINOP:
                new = ast.Assign(targets=[s.target],
                                 value=_call("__sx_ite__", [cond, ast.BinOp(left=_load(s.target), op=s.op, right=s.value),
                                                            _load(s.target)]))
                self.count += 1
                return ast.copy_location(new, n)
        # if T: X = E1 else: X = E2
        if len(n.body) == 1 and len(n.orelse) == 1 and isinstance(n.body[0], ast.Assign) and isinstance(n.orelse[0], ast.Assign):
            a, b = n.body[0], n.orelse[0]
            if len(a.targets) == 1 and len(b.targets) == 1 and _simple_target(a.targets[0]) and \
                    ast.dump(a.targets[0]) == ast.dump(b.targets[0]):
                new = ast.Assign(targets=[a.targets[0]], value=_call("__sx_ite__", [cond, a.value, b.value]))
                self.count += 1
                return ast.copy_location(new, n)
        # if T: o.m(A) else: o.m(B)
        if len(n.body) == 1 and len(n.orelse) == 1 and isinstance(n.body[0], ast.Expr) and isinstance(n.orelse[0], ast.Expr):
            a, b = n.body[0].value, n.orelse[0].value
            if isinstance(a, ast.Call) and isinstance(b, ast.Call) and not a.keywords and not b.keywords and \
                    ast.dump(a.func) == ast.dump(b.func) and len(a.args) == len(b.args) and len(a.args) >= 1:
                cname = "__sx_c%d__" % self.count
                pre = ast.Assign(targets=[ast.Name(id=cname, ctx=ast.Store())], value=cond)
                args = [_call("__sx_ite__", [ast.Name(id=cname, ctx=ast.Load()), x, y]) for x, y in zip(a.args, b.args)]
                new = ast.Expr(value=ast.Call(func=a.func, args=args, keywords=[]))
                self.count += 1
                return [ast.copy_location(pre, n), ast.copy_location(new, n)]
        return n


def convert(fn):
    src = textwrap.dedent(inspect.getsource(fn))
    tree = ast.parse(src)
    t = _T()
    tree = t.visit(tree)
    ast.fix_missing_locations(tree)
    # keep the original file name / line numbers: the runner's tracer attributes the code to the /repo function
    ast.increment_lineno(tree, fn.__code__.co_firstlineno - 1)
    g = fn.__globals__
    g.setdefault("__sx_cond__", sx_cond)
    g.setdefault("__sx_ite__", sx_ite)
    ns = {}
    exec(compile(tree, fn.__code__.co_filename, "exec"), g, ns)
    new = ns[fn.__name__]
    new.__sx_original__ = fn
    return new, t.count
