"""XOR-affine normal form as a value domain (DESIGN.md 2.2: "a rewriting pass in front of z3, not a decision procedure").

`AInt` is a non-negative integer every bit of which is a GF(2)-affine combination of *atoms*.  An atom is one bit of a symx
node (a 5-bit symbol such as `pos & 31`, or an opaque non-affine subterm such as `cls * 3 + (pos >> 5)`); a bit is a python
int used as a bit mask over the process-wide atom table (mask bit 0 = the constant 1).  The domain is closed under
`^`, `& const`, `<< const`, `>> const`, `|` of disjoint supports and `ite(bit, x ^ K, x)` — exactly the operations of a
CRC / BCH "polymod" — so GF(2)-linear state stays a flat xor of input bits while the *real* code runs on it, instead of
becoming a deep xor/ite DAG (CDCL cannot do parity: see the probes quoted in DESIGN.md).  `to_si()` turns a normal form back
into an ordinary symx term (per output bit: a xor of atom bits in atom order), which is what the solver is asked about.
Nothing in this module decides anything; anything outside the fragment raises `core.Unsupported` (= inconclusive).

Used with symx.ifconv: `install(namespace)` presets `__sx_cond__` / `__sx_ite__` so that an if-converted function
(`if c0 & 1: c ^= K`) works on AInt values and behaves as before on every other type."""
from . import core, ifconv
from .core import SI, SB, Unsupported

_ATOMS = {}         # (node id, bit index) -> atom index (>= 1)
_ATOM_LIST = [None]  # atom index -> (node, bit index)
_BITSI = {}         # mask -> int / SI


def _atom(node, j):
    k = (node.id, j)
    i = _ATOMS.get(k)
    if i is None:
        i = len(_ATOM_LIST)
        _ATOMS[k] = i
        _ATOM_LIST.append((node, j))
    return 1 << i


def mask_to_si(m):
    """the 0/1 value of one normal-form bit as a symx term"""
    r = _BITSI.get(m)
    if r is None:
        r = m & 1
        mm = m >> 1
        i = 1
        while mm:
            if mm & 1:
                node, j = _ATOM_LIST[i]
                r = ((SI(node) >> j) & 1) ^ r
            mm >>= 1
            i += 1
        _BITSI[m] = r
    return r


class ABit:
    """one affine bit (the truth value of `x & 2^k` for an AInt x)"""
    __slots__ = ("m",)

    def __init__(self, m):
        self.m = m

    def __bool__(self):
        if self.m in (0, 1):
            return bool(self.m)
        return bool(mask_to_si(self.m) != 0)   # forks (never needed by if-converted code)


class AInt:
    __slots__ = ("b",)

    def __init__(self, bits):
        bits = list(bits)
        while bits and bits[-1] == 0:
            bits.pop()
        self.b = bits

    @staticmethod
    def of(x):
        if isinstance(x, AInt):
            return x
        if isinstance(x, bool):
            x = int(x)
        if isinstance(x, int):
            if x < 0:
                raise Unsupported("anf: negative constant")
            return AInt([(x >> i) & 1 for i in range(x.bit_length())])
        if isinstance(x, SB):
            x = core.wrap(core.lift(x))
            return AInt.of(x)
        if isinstance(x, SI):
            n = x.n
            if n.lo < 0:
                raise Unsupported("anf: possibly negative symbolic operand")
            return AInt([_atom(n, j) for j in range(n.U)])
        raise Unsupported(f"anf: operand of type {type(x).__name__}")

    # ---- the affine fragment
    def __xor__(s, o):
        if not isinstance(o, (AInt, int, SI, SB)):
            return NotImplemented
        a, b = s.b, AInt.of(o).b
        if len(a) < len(b):
            a, b = b, a
        return AInt([x ^ y for x, y in zip(a, b)] + a[len(b):])

    __rxor__ = __xor__

    def __and__(s, o):
        if isinstance(o, bool) or not isinstance(o, int):
            if isinstance(o, (AInt, SI)):
                raise Unsupported("anf: & of two symbolic values is not affine")
            return NotImplemented
        if o < 0:
            raise Unsupported("anf: & with a negative constant")
        return AInt([m if (o >> i) & 1 else 0 for i, m in enumerate(s.b)])

    __rand__ = __and__

    def __or__(s, o):
        if not isinstance(o, (AInt, int, SI)):
            return NotImplemented
        a, b = s.b, AInt.of(o).b
        if any(x and y for x, y in zip(a, b)):
            raise Unsupported("anf: | of overlapping supports is not affine")
        return s ^ o

    __ror__ = __or__

    def __lshift__(s, k):
        if isinstance(k, bool) or not isinstance(k, int) or k < 0:
            raise Unsupported("anf: shift by a non-constant")
        return AInt([0] * k + s.b)

    def __rshift__(s, k):
        if isinstance(k, bool) or not isinstance(k, int) or k < 0:
            raise Unsupported("anf: shift by a non-constant")
        return AInt(s.b[k:])

    # ---- leaving the domain
    def is_const(s):
        return all(m in (0, 1) for m in s.b)

    def const_value(s):
        return sum(m << i for i, m in enumerate(s.b))

    def to_si(s):
        """int (when constant) or SI: or of the disjoint single-bit terms"""
        if s.is_const():
            return s.const_value()
        acc = 0
        for i, m in enumerate(s.b):
            if m:
                acc = (mask_to_si(m) << i) | acc
        return acc

    def as_bit(s):
        nzb = [m for m in s.b if m]
        if not nzb:
            return ABit(0)
        if len(nzb) == 1:
            return ABit(nzb[0])
        raise Unsupported("anf: truth value of a multi-bit affine value")

    def __index__(s):
        if s.is_const():
            return s.const_value()
        raise Unsupported("anf: symbolic affine value used as an index")

    __int__ = __index__

    def __bool__(s):
        return bool(s.as_bit())

    def __eq__(s, o):
        if isinstance(o, (AInt, int, SI)):
            return s.to_si() == (o.to_si() if isinstance(o, AInt) else o)
        return NotImplemented

    def __ne__(s, o):
        if isinstance(o, (AInt, int, SI)):
            return s.to_si() != (o.to_si() if isinstance(o, AInt) else o)
        return NotImplemented

    __hash__ = object.__hash__

    def __repr__(s):
        return f"AInt<{len(s.b)} bits>"

    def __format__(s, spec):
        return repr(s)


def gate(bit, k):
    """k if bit else 0, for a 0/1 value `bit` of any domain (int, SI, AInt) and a constant k"""
    if isinstance(bit, AInt):
        m = bit.as_bit().m
        return AInt([m if (k >> i) & 1 else 0 for i in range(k.bit_length())])
    if isinstance(bit, SI):
        return core.s_ite(bit != 0, k, 0)
    return k if bit else 0


def a_cond(t):
    if isinstance(t, AInt):
        b = t.as_bit()
        return bool(b.m) if b.m in (0, 1) else b
    return ifconv.sx_cond(t)


def a_ite(c, a, b):
    if isinstance(c, ABit):
        x, y = AInt.of(a), AInt.of(b)
        d = (x ^ y).b
        if any(m not in (0, 1) for m in d):
            raise Unsupported("anf: ite(bit, x, y) with a non-constant x ^ y is not affine")
        return y ^ AInt([c.m if m else 0 for m in d])
    if isinstance(a, AInt) or isinstance(b, AInt):
        if isinstance(c, bool):
            return a if c else b
        raise Unsupported("anf: ite over affine values on a non-affine condition")
    return ifconv.sx_ite(c, a, b)


def install(ns):
    """make the if-conversion hooks of namespace `ns` AInt-aware (call before ifconv.convert, which uses setdefault)"""
    ns["__sx_cond__"] = a_cond
    ns["__sx_ite__"] = a_ite


# =====================================================================================================================
# DAG pass (C09): the same normal form computed *after the fact* from an ordinary symx.core expression DAG
#
# The value domain above keeps affine state flat while code runs on AInt values.  The pass below instead takes the
# expression an unmodified run produced (ops const / var / xor / or, add of disjoint supports / and-with-const / shl / shr /
# byte / cat / ite whose arms differ by a constant / const * bit) and computes, for every bit of its value, the set of atoms it
# is the XOR of.  Sub-expressions outside the fragment become opaque blocks of atoms (Space(opaque=True)) or raise NotAffine
# (Space(opaque=False)).  GF(2)-affine identities (bech32 checksum round trip, polymod(a^b) = polymod(a)^polymod(b)^polymod(0))
# then are comparisons of bit sets, and the syndrome of a substitution error is read off as one column per input bit.
# Semantics preserving case by case; checks/c09.py cross-checks it on every run against z3 (an expression and its rebuilt
# normal form are equivalent, at a short length) and against the native function on random inputs.

from .core import Node, const, is_const, nz, n_bit, n_shr, n_ite, b_not, b_cmp, wrap, lift  # noqa: E402

class NotAffine(Exception):
    pass


class Space:
    """atom registry + memo.  opaque=True: a sub-expression that is not XOR-affine becomes a block of atoms (its own bits);
    opaque=False: it raises NotAffine (used where the whole expression must be affine in the declared variables)."""

    def __init__(self, opaque=True):
        self.opaque = opaque
        self.atoms = [None]      # index -> (node, bit)
        self.index = {}          # (node id, bit) -> index
        self.memo = {}           # node id -> tuple of masks at the node's full unsigned width
        self.bmemo = {}

    def atom(self, node, bit):
        k = (node.id, bit)
        i = self.index.get(k)
        if i is None:
            i = len(self.atoms)
            self.atoms.append((node, bit))
            self.index[k] = i
        return 1 << i

    def atom_index(self, node, bit):
        """index of an existing atom, or None when that bit never occurred"""
        return self.index.get((node.id, bit))


LOOSE = Space(opaque=True)
STRICT = Space(opaque=False)


def _width(n):
    if n.lo < 0:
        raise NotAffine(f"possibly negative value ({n.op})")
    return max(n.hi.bit_length(), 1)


def bits(n, k, sp=LOOSE):
    """list of k masks (LSB first) for value(n) mod 2^k, n a non-negative int node"""
    full = _full(n, sp)
    W = len(full)
    if k <= W:
        return list(full[:k])
    return list(full) + [0] * (k - W)


_FAILED = ()


def _deps(x):
    """nodes whose forms the form of x is computed from (worklist order; keeps the recursion depth constant)"""
    op, a = x.op, x.args
    if op in ("xor", "or", "add", "and", "mul", "eq", "lt", "le"):
        return [y for y in a if isinstance(y, Node)]
    if op in ("shl", "shr", "byte", "not"):
        return [a[0]]
    if op == "cat":
        return list(a)
    if op == "ite":
        return [a[0], a[1], a[2]]
    return []


def _done(x, sp):
    return (x.id in sp.bmemo) if x.isbool else (x.id in sp.memo)


def _settle(n, sp):
    stack = [n]
    while stack:
        x = stack[-1]
        if _done(x, sp):
            stack.pop()
            continue
        pend = [d for d in _deps(x) if not _done(d, sp)]
        if pend:
            stack.extend(pend)
            continue
        stack.pop()
        if x.isbool:
            try:
                _cond1(x, sp)
            except NotAffine:
                sp.bmemo[x.id] = None
        else:
            try:
                _full1(x, sp)
            except NotAffine:
                sp.memo[x.id] = _FAILED


def _full(n, sp):
    r = sp.memo.get(n.id)
    if r is None:
        _settle(n, sp)
        r = sp.memo.get(n.id)
    if r is _FAILED or r is None:
        raise NotAffine(n.op)
    return r


def _full1(n, sp):
    W = _width(n)
    try:
        r = _compute(n, W, sp)
    except NotAffine:
        if not sp.opaque or n.op == "const":
            raise
        r = [sp.atom(n, i) for i in range(W)]
    r = tuple(r)
    assert len(r) == W
    sp.memo[n.id] = r
    return r


def _compute(n, W, sp):
    op, a = n.op, n.args
    if op == "const":
        return [(a[0] >> i) & 1 for i in range(W)]
    if op == "var":
        return [sp.atom(n, i) for i in range(W)]
    if op == "xor":
        x, y = bits(a[0], W, sp), bits(a[1], W, sp)
        return [p ^ q for p, q in zip(x, y)]
    if op in ("or", "add"):
        if a[0].lo < 0 or a[1].lo < 0:
            raise NotAffine(op)
        kk = max(_width(a[0]), _width(a[1]), W)
        if nz(a[0], kk) & nz(a[1], kk):
            raise NotAffine(op + " of overlapping supports")
        x, y = bits(a[0], W, sp), bits(a[1], W, sp)
        return [p ^ q for p, q in zip(x, y)]
    if op == "and":
        c, o = (a[0], a[1]) if is_const(a[0]) else (a[1], a[0])
        if not is_const(c) or c.args[0] < 0:
            raise NotAffine("and of two non-constants")
        x = bits(o, W, sp)
        return [x[i] if (c.args[0] >> i) & 1 else 0 for i in range(W)]
    if op == "shl":
        c = a[1]
        x = bits(a[0], max(W - c, 0), sp)
        return ([0] * min(c, W) + x)[:W]
    if op == "shr":
        c = a[1]
        return bits(a[0], W + c, sp)[c:c + W]
    if op == "byte":
        x, i = a
        return bits(x, 8 * i + 8, sp)[8 * i:8 * i + W]
    if op == "cat":
        out = []
        for it in reversed(a):
            out.extend(bits(it, 8, sp))
        return (out + [0] * W)[:W]
    if op == "ite":
        cb = cond_bit(a[0], sp)
        t, e = bits(a[1], W, sp), bits(a[2], W, sp)
        d = [p ^ q for p, q in zip(t, e)]
        if any(x not in (0, 1) for x in d):
            raise NotAffine("ite whose arms differ by a non-constant")
        return [e[i] ^ (cb if d[i] else 0) for i in range(W)]
    if op == "mul":
        c, o = (a[0], a[1]) if is_const(a[0]) else (a[1], a[0])
        if is_const(c) and c.args[0] >= 0 and o.lo >= 0 and o.hi <= 1:
            xb = bits(o, 1, sp)[0]
            return [xb if (c.args[0] >> i) & 1 else 0 for i in range(W)]
        raise NotAffine("mul")
    raise NotAffine(op)


def cond_bit(p, sp=LOOSE):
    """mask of the truth value (0/1) of a boolean node"""
    if p.id not in sp.bmemo:
        _settle(p, sp)
    r = sp.bmemo.get(p.id)
    if r is None:
        raise NotAffine("condition " + p.op)
    return r


def _cond1(p, sp):
    op, a = p.op, p.args
    r = None
    try:
        if op == "bconst":
            r = 1 if a[0] else 0
        elif op == "not":
            r = 1 ^ cond_bit(a[0], sp)
        elif op == "eq":
            x, y = a
            if is_const(x):
                x, y = y, x
            if is_const(y) and x.lo >= 0 and x.hi <= 1 and y.args[0] in (0, 1):
                xb = bits(x, 1, sp)[0]
                r = xb if y.args[0] == 1 else xb ^ 1
        elif op == "lt":
            x, y = a
            if is_const(x) and x.args[0] == 0 and y.lo >= 0 and y.hi <= 1:      # 0 < y
                r = bits(y, 1, sp)[0]
            elif is_const(y) and y.args[0] == 1 and x.lo >= 0 and x.hi <= 1:    # x < 1
                r = bits(x, 1, sp)[0] ^ 1
        elif op == "le":
            x, y = a
            if is_const(x) and x.args[0] == 1 and y.lo >= 0 and y.hi <= 1:      # 1 <= y
                r = bits(y, 1, sp)[0]
            elif is_const(y) and y.args[0] == 0 and x.lo >= 0 and x.hi <= 1:    # x <= 0
                r = bits(x, 1, sp)[0] ^ 1
    except NotAffine:
        r = None
    if r is None:
        if op == "bvar" or sp.opaque:
            r = sp.atom(p, 0)
        else:
            raise NotAffine("condition " + op)
    sp.bmemo[p.id] = r
    return r


# ------------------------------------------------------------------------------------------------ back to expressions

def _atom_cond(sp, idx):
    node, bit = sp.atoms[idx]
    if node.isbool:
        return node
    bn = node if (node.lo >= 0 and node.hi <= 1) else n_bit("and", n_shr(node, bit), const(1))
    return b_not(b_cmp("eq", bn, const(0)))


def columns(masks):
    """(constant, {atom index: column}) with column = the set of output bits the atom toggles"""
    c0 = 0
    cols = {}
    for i, m in enumerate(masks):
        if m & 1:
            c0 |= 1 << i
        mm = m >> 1
        idx = 1
        while mm:
            low = (mm & -mm).bit_length() - 1
            idx += low
            mm >>= low
            cols[idx] = cols.get(idx, 0) | (1 << i)
            mm >>= 1
            idx += 1
    return c0, cols


def rebuild(masks, sp=LOOSE):
    """canonical expression node: constant ^ XOR over atoms (in index order) of ite(atom, column, 0)"""
    c0, cols = columns(masks)
    acc = const(c0)
    for idx in sorted(cols):
        acc = n_bit("xor", acc, n_ite(_atom_cond(sp, idx), const(cols[idx]), const(0)))
    return acc


def _node_width(x, k):
    if isinstance(x, int):
        if x < 0:
            raise NotAffine("negative constant")
        return const(x), max(k or 0, x.bit_length(), 1)
    n = lift(x)
    return n, max(k or 0, _width(n))


def forms(x, k=None, sp=LOOSE):
    """masks of an SI / int at k bits (default: its unsigned width)"""
    n, w = _node_width(x, k)
    return bits(n, k if k is not None else w, sp)


def normalize(x, k=None, sp=LOOSE):
    """x (SI or int) rewritten into its normal form: a Python int when every bit is constant, else an SI over the canonical
    node.  Values the pass cannot treat (possibly negative) are returned unchanged."""
    if isinstance(x, int):
        return x
    try:
        m = forms(x, k, sp)
    except NotAffine:
        return x
    return wrap(rebuild(m, sp))


def diff(a, b, sp=LOOSE):
    """normal form of a ^ b: the int 0 exactly when the two normal forms coincide (a == b identically), a non-zero int when
    they differ by a constant (a != b for every input), else an SI whose non-zero-ness is the difference"""
    na, wa = _node_width(a, None)
    nb, wb = _node_width(b, None)
    k = max(wa, wb)
    ma, mb = bits(na, k, sp), bits(nb, k, sp)
    d = [p ^ q for p, q in zip(ma, mb)]
    return wrap(rebuild(d, sp))


def equal(a, b, sp=LOOSE):
    """True / False when decided by the normal forms (identical / differing by a constant in some bit); else an SB"""
    try:
        d = diff(a, b, sp)
    except NotAffine:
        return a == b
    if isinstance(d, int):
        return d == 0
    return d == 0


def evaluate(masks, assignment, sp=LOOSE):
    """concrete value of a list of masks under assignment: callable(node, bit) -> 0/1 (self-validation)"""
    val = {}
    out = 0
    for i, m in enumerate(masks):
        b = m & 1
        mm = m >> 1
        idx = 1
        while mm:
            if mm & 1:
                v = val.get(idx)
                if v is None:
                    node, bit = sp.atoms[idx]
                    v = val[idx] = assignment(node, bit) & 1
                b ^= v
            mm >>= 1
            idx += 1
        out |= b << i
    return out
