"""XOR-affine normal form as a value domain (DESIGN.md 2.2: "a rewriting pass in front of z3, not a decision procedure").

`AInt` is a non-negative integer every bit of which is a GF(2)-affine combination of *atoms*.  An atom is one bit of a symx
node (a 5-bit symbol such as `pos & 31`, or an opaque non-affine subterm such as `cls * 3 + (pos >> 5)`); a bit is a python
int used as a bit mask over the process-wide atom table (mask bit 0 = the constant 1).  The domain is closed under
`^`, `& const`, `<< const`, `>> const`, `|` of disjoint supports and `ite(bit, x ^ K, x)` — exactly the operations of a
CRC / BCH "polymod" — so GF(2)-linear state stays a flat xor of input bits while the *real* code runs on it, instead of
becoming a deep xor/ite DAG (CDCL cannot do parity: see the probes quoted in DESIGN.md).  `to_si()` turns a normal form back
into an ordinary symx term (per output bit: a xor of atom bits in atom order), which is what the solver is asked about.
Nothing in this module decides anything; anything outside the fragment raises `core.Unsupported` (= inconclusive).

Used with symx.ifconv: `install(namespace)` presets `__sx_cond__` / `__sx_ite__` so that an if-converted function
(`if c0 & 1: c ^= K`) works on AInt values and behaves as before on every other type."""
from . import core, ifconv
from .core import SI, SB, Unsupported

_ATOMS = {}         # (node id, bit index) -> atom index (>= 1)
_ATOM_LIST = [None]  # atom index -> (node, bit index)
_BITSI = {}         # mask -> int / SI


def _atom(node, j):
    k = (node.id, j)
    i = _ATOMS.get(k)
    if i is None:
        i = len(_ATOM_LIST)
        _ATOMS[k] = i
        _ATOM_LIST.append((node, j))
    return 1 << i


def mask_to_si(m):
    """the 0/1 value of one normal-form bit as a symx term"""
    r = _BITSI.get(m)
    if r is None:
        r = m & 1
        mm = m >> 1
        i = 1
        while mm:
            if mm & 1:
                node, j = _ATOM_LIST[i]
                r = ((SI(node) >> j) & 1) ^ r
            mm >>= 1
            i += 1
        _BITSI[m] = r
    return r


class ABit:
    """one affine bit (the truth value of `x & 2^k` for an AInt x)"""
    __slots__ = ("m",)

    def __init__(self, m):
        self.m = m

    def __bool__(self):
        if self.m in (0, 1):
            return bool(self.m)
        return bool(mask_to_si(self.m) != 0)   # forks (never needed by if-converted code)


class AInt:
    __slots__ = ("b",)

    def __init__(self, bits):
        bits = list(bits)
        while bits and bits[-1] == 0:
            bits.pop()
        self.b = bits

    @staticmethod
    def of(x):
        if isinstance(x, AInt):
            return x
        if isinstance(x, bool):
            x = int(x)
        if isinstance(x, int):
            if x < 0:
                raise Unsupported("anf: negative constant")
            return AInt([(x >> i) & 1 for i in range(x.bit_length())])
        if isinstance(x, SB):
            x = core.wrap(core.lift(x))
            return AInt.of(x)
        if isinstance(x, SI):
            n = x.n
            if n.lo < 0:
                raise Unsupported("anf: possibly negative symbolic operand")
            return AInt([_atom(n, j) for j in range(n.U)])
        raise Unsupported(f"anf: operand of type {type(x).__name__}")

    # ---- the affine fragment
    def __xor__(s, o):
        if not isinstance(o, (AInt, int, SI, SB)):
            return NotImplemented
        a, b = s.b, AInt.of(o).b
        if len(a) < len(b):
            a, b = b, a
        return AInt([x ^ y for x, y in zip(a, b)] + a[len(b):])

    __rxor__ = __xor__

    def __and__(s, o):
        if isinstance(o, bool) or not isinstance(o, int):
            if isinstance(o, (AInt, SI)):
                raise Unsupported("anf: & of two symbolic values is not affine")
            return NotImplemented
        if o < 0:
            raise Unsupported("anf: & with a negative constant")
        return AInt([m if (o >> i) & 1 else 0 for i, m in enumerate(s.b)])

    __rand__ = __and__

    def __or__(s, o):
        if not isinstance(o, (AInt, int, SI)):
            return NotImplemented
        a, b = s.b, AInt.of(o).b
        if any(x and y for x, y in zip(a, b)):
            raise Unsupported("anf: | of overlapping supports is not affine")
        return s ^ o

    __ror__ = __or__

    def __lshift__(s, k):
        if isinstance(k, bool) or not isinstance(k, int) or k < 0:
            raise Unsupported("anf: shift by a non-constant")
        return AInt([0] * k + s.b)

    def __rshift__(s, k):
        if isinstance(k, bool) or not isinstance(k, int) or k < 0:
            raise Unsupported("anf: shift by a non-constant")
        return AInt(s.b[k:])

    # ---- leaving the domain
    def is_const(s):
        return all(m in (0, 1) for m in s.b)

    def const_value(s):
        return sum(m << i for i, m in enumerate(s.b))

    def to_si(s):
        """int (when constant) or SI: or of the disjoint single-bit terms"""
        if s.is_const():
            return s.const_value()
        acc = 0
        for i, m in enumerate(s.b):
            if m:
                acc = (mask_to_si(m) << i) | acc
        return acc

    def as_bit(s):
        nzb = [m for m in s.b if m]
        if not nzb:
            return ABit(0)
        if len(nzb) == 1:
            return ABit(nzb[0])
        raise Unsupported("anf: truth value of a multi-bit affine value")

    def __index__(s):
        if s.is_const():
            return s.const_value()
        raise Unsupported("anf: symbolic affine value used as an index")

    __int__ = __index__

    def __bool__(s):
        return bool(s.as_bit())

    def __eq__(s, o):
        if isinstance(o, (AInt, int, SI)):
            return s.to_si() == (o.to_si() if isinstance(o, AInt) else o)
        return NotImplemented

    def __ne__(s, o):
        if isinstance(o, (AInt, int, SI)):
            return s.to_si() != (o.to_si() if isinstance(o, AInt) else o)
        return NotImplemented

    __hash__ = object.__hash__

    def __repr__(s):
        return f"AInt<{len(s.b)} bits>"

    def __format__(s, spec):
        return repr(s)


def gate(bit, k):
    """k if bit else 0, for a 0/1 value `bit` of any domain (int, SI, AInt) and a constant k"""
    if isinstance(bit, AInt):
        m = bit.as_bit().m
        return AInt([m if (k >> i) & 1 else 0 for i in range(k.bit_length())])
    if isinstance(bit, SI):
        return core.s_ite(bit != 0, k, 0)
    return k if bit else 0


def a_cond(t):
    if isinstance(t, AInt):
        b = t.as_bit()
        return bool(b.m) if b.m in (0, 1) else b
    return ifconv.sx_cond(t)


def a_ite(c, a, b):
    if isinstance(c, ABit):
        x, y = AInt.of(a), AInt.of(b)
        d = (x ^ y).b
        if any(m not in (0, 1) for m in d):
            raise Unsupported("anf: ite(bit, x, y) with a non-constant x ^ y is not affine")
        return y ^ AInt([c.m if m else 0 for m in d])
    if isinstance(a, AInt) or isinstance(b, AInt):
        if isinstance(c, bool):
            return a if c else b
        raise Unsupported("anf: ite over affine values on a non-affine condition")
    return ifconv.sx_ite(c, a, b)


def install(ns):
    """make the if-conversion hooks of namespace `ns` AInt-aware (call before ifconv.convert, which uses setdefault)"""
    ns["__sx_cond__"] = a_cond
    ns["__sx_ite__"] = a_ite
