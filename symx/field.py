"""scalar-field canonical form and abstract prime-order group (DESIGN.md 2.1).

Field: while a Field(N) is active, `x % N` and `pow(x, N-2, N)` / `pow(x, -1, N)` computed by the real code on
symbolic integers are kept as rational functions over GF(N) in named atoms; each distinct canonical form is
represented to the solver by ONE opaque integer variable in [0, N-1] (so range tests and comparisons are ordinary
arithmetic, and equal forms are the same variable).  Identities such as (z + r d) k^-1 * ((z + r d) k^-1)^-1 == 1 are
decided by polynomial arithmetic, not by z3 (which cannot: DESIGN probes).

Group: AbstractGroup builds a subclass of the real (shimmed) S256Point in which a point is d*G for a scalar d in
canonical form; x-coordinate and parity are uninterpreted functions of the canonical form with X(-d) = X(d),
par(-d) = 1 - par(d).
"""
from . import core
from .core import SI, SB, Node, const, mknode, wrap, wrapb, lift, b_cmp, b_not, b_and, b_or, b_var, TRUE, FALSE, branch, concretize


class Poly:
    __slots__ = ("t", "N")

    def __init__(self, t, N):
        self.N = N
        self.t = {m: c % N for m, c in t.items() if c % N}

    @staticmethod
    def const(c, N):
        return Poly({(): c}, N)

    @staticmethod
    def atom(a, N):
        return Poly({((a, 1),): 1}, N)

    def __add__(s, o):
        t = dict(s.t)
        for m, c in o.t.items():
            t[m] = t.get(m, 0) + c
        return Poly(t, s.N)

    def __neg__(s):
        return Poly({m: -c for m, c in s.t.items()}, s.N)

    def __sub__(s, o):
        return s + (-o)

    def __mul__(s, o):
        t = {}
        for m1, c1 in s.t.items():
            for m2, c2 in o.t.items():
                d = dict(m1)
                for a, e in m2:
                    d[a] = d.get(a, 0) + e
                m = tuple(sorted(d.items()))
                t[m] = (t.get(m, 0) + c1 * c2) % s.N
        return Poly(t, s.N)

    def is_zero(s):
        return not s.t

    def is_const(s):
        return all(m == () for m in s.t)

    def const_value(s):
        return s.t.get((), 0)

    def atoms(s):
        return {a for m in s.t for a, _ in m}

    def single_atom(s):
        """(coef, atom) when the polynomial is coef * atom"""
        if len(s.t) == 1:
            (m, c), = s.t.items()
            if len(m) == 1 and m[0][1] == 1:
                return c, m[0][0]
        return None

    def lead(s):
        """leading (monomial, coef) in a fixed total order"""
        m = max(s.t, key=lambda mm: (sum(e for _, e in mm), mm))
        return m, s.t[m]

    def divide_exact(s, o):
        """q with s == q * o, or None (multivariate division with a graded-lex order; o != 0)"""
        N = s.N
        if o.is_const():
            ci = pow(o.const_value(), N - 2, N)
            return Poly({m: c * ci for m, c in s.t.items()}, N)
        q = Poly({}, N)
        r = Poly(dict(s.t), N)
        om, oc = o.lead()
        oci = pow(oc, N - 2, N)
        od = dict(om)
        steps = 0
        while r.t:
            steps += 1
            if steps > 400:
                return None
            rm, rc = r.lead()
            rd = dict(rm)
            # rm must be divisible by om
            qd = {}
            ok = True
            for a, e in od.items():
                if rd.get(a, 0) < e:
                    ok = False
                    break
            if not ok:
                return None
            for a, e in rd.items():
                ee = e - od.get(a, 0)
                if ee:
                    qd[a] = ee
            qt = Poly({tuple(sorted(qd.items())): rc * oci}, N)
            q = q + qt
            r = r - qt * o
        return q

    def eval(s, val):
        r = 0
        for m, c in s.t.items():
            v = c
            for a, e in m:
                v = v * pow(val(a), e, s.N) % s.N
            r = (r + v) % s.N
        return r


class RF:
    """num/den over GF(N); den is non-zero on the current path (side conditions are taken when inverses are formed)"""
    __slots__ = ("num", "den")

    def __init__(s, num, den=None):
        s.num = num
        s.den = den if den is not None else Poly.const(1, num.N)

    def __add__(s, o):
        if s.den.t == o.den.t:
            return RF(s.num + o.num, s.den)
        return RF(s.num * o.den + o.num * s.den, s.den * o.den)

    def __sub__(s, o):
        return s + (-o)

    def __neg__(s):
        return RF(-s.num, s.den)

    def __mul__(s, o):
        return RF(s.num * o.num, s.den * o.den)

    def inv(s):
        return RF(s.den, s.num)

    def is_zero(s):
        return s.num.is_zero()

    def equals(s, o):
        return (s.num * o.den - o.num * s.den).is_zero()

    def eval(s, val):
        N = s.num.N
        return s.num.eval(val) * pow(s.den.eval(val), N - 2, N) % N


class Field:
    def __init__(self, N, name="F"):
        self.N = N
        self.name = name
        self.forms = []  # (RF, node) : opaque variable per canonical form
        self.form_of = {}  # node id -> RF
        self.atoms = {}  # atom id -> node
        self.cnt = 0
        self.link_differences = False

    # ---- node -> RF (valid modulo N)
    def rf(self, n):
        N = self.N
        f = self.form_of.get(n.id)
        if f is not None:
            return f
        op, a = n.op, n.args
        if op == "const":
            return RF(Poly.const(a[0], N))
        if op == "add":
            return self.rf(a[0]) + self.rf(a[1])
        if op == "sub":
            return self.rf(a[0]) - self.rf(a[1])
        if op == "neg":
            return -self.rf(a[0])
        if op == "mul":
            return self.rf(a[0]) * self.rf(a[1])
        if op == "shl":
            return self.rf(a[0]) * RF(Poly.const(1 << a[1], N))
        if op == "mod" and a[1] == N:
            return self.rf(a[0])
        self.atoms[n.id] = n
        return RF(Poly.atom(n.id, N))

    def canon(self, f):
        """the integer in [0, N-1] congruent to form f: a constant, an atom already in range, or the opaque variable of f"""
        N = self.N
        if f.num.is_zero():
            return 0
        if not f.den.is_const():
            # cancel when the denominator divides the numerator (or vice versa)
            q = f.num.divide_exact(f.den)
            if q is not None:
                f = RF(q)
            else:
                q = f.den.divide_exact(f.num)
                if q is not None:
                    f = RF(Poly.const(1, N), q)
        if f.den.is_const() and f.num.is_const():
            return f.num.const_value() * pow(f.den.const_value(), N - 2, N) % N
        if f.den.is_const() and f.den.const_value() == 1:
            sa = f.num.single_atom()
            if sa is not None and sa[0] == 1:
                n = self.atoms[sa[1]]
                if n.lo >= 0 and n.hi < N:
                    return wrap(n)
        for g, node in self.forms:
            if g.equals(f):
                return SI(node)
        self.cnt += 1
        node = core.new_var(f"{self.name}{self.cnt}", 0, N - 1)
        # definitional facts linking the new opaque variable to what is already known (path-local)
        zero = b_cmp("eq", node, const(0))
        nf = -f
        linked = False
        for g, gn in self.forms:
            if g.equals(nf):
                self.axiom(b_cmp("eq", node, core.n_ite(b_cmp("eq", gn, const(0)), const(0), core.n_sub(const(N), gn))))
                linked = True
                break
        if not linked and nf.den.is_const() and nf.den.const_value() == 1:
            sa = nf.num.single_atom()
            if sa is not None and sa[0] == 1:
                an = self.atoms[sa[1]]
                if an.lo >= 0 and an.hi < N:
                    self.axiom(b_cmp("eq", node, core.n_ite(b_cmp("eq", an, const(0)), const(0), core.n_sub(const(N), an))))
                    linked = True
        if not linked and len(f.num.t) == 1:
            # numerator is a single monomial: zero exactly when one of its atoms is zero mod N
            (m, c), = f.num.t.items()
            conds = [self.is_zero_cond(SI(self.atoms[a])) for a, e in m]
            self.axiom(b_or(b_and(zero, b_or(*conds) if conds else FALSE), b_and(b_not(zero), b_not(b_or(*conds)) if conds else TRUE)))
        if self.link_differences:
            # additive structure: if f - g is (the form of) something that already has an integer value h, then
            # V_f = V_g + V_h (mod N).  Gives z3 the relations between opaque variables that the polynomial identities imply.
            links = 0
            cands = list(self.forms) + [(RF(Poly.atom(aid, N)), an) for aid, an in self.atoms.items() if an.lo >= 0 and an.hi < N]
            for g, gn in cands:
                if links >= 6:
                    break
                for sg in (1, -1):
                    diff = (f - g) if sg == 1 else (f + g)
                    hv, sh = self.lookup(diff), 1
                    if hv is None:
                        hv, sh = self.lookup(-diff), -1
                    if hv is None:
                        continue
                    # V_f = sg*V_g + sh*V_h  (mod N), every V in [0, N-1]
                    hn = lift(hv)
                    tot = core.n_add(gn if sg == 1 else core.n_neg(gn), hn if sh == 1 else core.n_neg(hn))
                    opts = [b_cmp("eq", node, core.n_add(tot, const(q * N))) for q in (-1, 0, 1, 2)]
                    self.axiom(b_or(*opts))
                    links += 1
                    break
        self.forms.append((f, node))
        self.form_of[node.id] = f
        return SI(node)

    def lookup(self, f):
        """the existing integer value (const / in-range atom / opaque variable) of form f, or None -- never creates"""
        N = self.N
        if f.num.is_zero():
            return None
        if not f.den.is_const():
            q = f.num.divide_exact(f.den)
            if q is None:
                return None
            f = RF(q)
        if f.num.is_const():
            return f.num.const_value() * pow(f.den.const_value(), N - 2, N) % N
        if f.den.const_value() == 1:
            sa = f.num.single_atom()
            if sa is not None and sa[0] == 1:
                n = self.atoms[sa[1]]
                if n.lo >= 0 and n.hi < N:
                    return wrap(n)
        for g, node in self.forms:
            if g.equals(f):
                return SI(node)
        return None

    def axiom(self, p):
        c = core.CTX
        if c is None or p is TRUE:
            return
        c.pc.append(c.lower(p))
        c.pcn.append(p)

    def reduce(self, x):
        """x % N for SI x"""
        if isinstance(x, int):
            return x % self.N
        return self.canon(self.rf(x.n))

    def is_zero_cond(self, x):
        """bool node: x ≡ 0 (mod N), x an SI/int already canonical (result of reduce) or any node"""
        if isinstance(x, int):
            return TRUE if x % self.N == 0 else FALSE
        n = x.n
        if n.lo >= 0 and n.hi < self.N:
            return b_cmp("eq", n, const(0))
        if n.lo > -self.N and n.hi < 2 * self.N and n.lo >= 0:
            return b_or(b_cmp("eq", n, const(0)), b_cmp("eq", n, const(self.N)))
        return b_cmp("eq", core.n_mod(n, self.N), const(0))

    def inverse(self, x):
        """pow(x, N-2, N): 0 when x ≡ 0, else the field inverse (forks on x ≡ 0 when undecided)"""
        if isinstance(x, int):
            return pow(x, self.N - 2, self.N)
        r = self.reduce(x)
        if isinstance(r, int):
            return pow(r, self.N - 2, self.N)
        if branch(self.is_zero_cond(r)):
            return 0
        return self.canon(self.rf(r.n).inv())

    def same(self, x, y):
        """are SI/int x, y congruent mod N identically (as rational functions)?"""
        fx = self.rf(lift(x))
        fy = self.rf(lift(y))
        return fx.equals(fy)

    def value(self, x, env):
        """concrete value mod N of SI/int x under env (var name -> int), atoms evaluated through the DAG"""
        memo = {}

        def val(aid):
            return core.evaln(self.atoms[aid], env, memo) % self.N
        f = self.rf(lift(x))
        return f.eval(val)


FIELD = [None]


def active():
    return FIELD[0]


class use_field:
    def __init__(self, N, name="F"):
        self.f = Field(N, name)

    def __enter__(self):
        self.prev = FIELD[0]
        FIELD[0] = self.f
        return self.f

    def __exit__(self, *a):
        FIELD[0] = self.prev


# hook SI.__mod__ / SI.__pow__ ------------------------------------------------------------------------------

_orig_mod = SI.__mod__
_orig_pow = SI.__pow__
_orig_rpow = SI.__rpow__


def _mod(s, m):
    F = FIELD[0]
    if F is not None and isinstance(m, int) and m == F.N:
        return F.reduce(s)
    return _orig_mod(s, m)


def _pow(s, e, mod=None):
    F = FIELD[0]
    if F is not None and mod is not None and isinstance(mod, int) and mod == F.N and isinstance(e, int):
        if e == F.N - 2 or e == -1:
            if e == -1:
                r = F.reduce(s)
                if not isinstance(r, int) and branch(F.is_zero_cond(r)):
                    raise ValueError("base is not invertible for the given modulus")
            return F.inverse(s)
    return _orig_pow(s, e, mod)


SI.__mod__ = _mod
SI.__pow__ = _pow


# ------------------------------------------------------------------------------------------------ abstract group


class AbstractGroup:
    """discrete-log model of a prime-order group of order N with generator G = 1*G.

    make_point_class(S256Point) returns a subclass overriding only the group-law mechanisms (constructor, addition,
    scalar multiplication, coordinate access); every other method (verify, verify_schnorr, sec, xonly, tweak, ...) is the
    inherited real code."""

    def __init__(self, field, P):
        self.F = field
        self.P = P
        self.xs = []  # (RF, X node, parity bool node)
        self.cnt = 0
        self.lifted = {}  # id of x node -> point scalar (for parse_xonly)
        self.injective_x = False  # add X(f)==X(g) -> f == +-g instances (needed for "altered signature is rejected" claims)

    def coords(self, d):
        """(X node, parity node) for the non-zero scalar d (SI/int canonical mod N)"""
        F = self.F
        f = F.rf(lift(d))
        for g, xn, pn in self.xs:
            if g.equals(f):
                return xn, pn
            if g.equals(-f):
                return xn, b_not(pn)
        self.cnt += 1
        # x coordinates: 1 <= X < N.  (No curve point has x = 0 because 7 is a quadratic non-residue mod P -- checked
        # concretely by the harnesses; x in [N, P-1] happens with probability 2^-128 and no such point can be exhibited:
        # stated assumption.)
        xn = core.new_var(f"X{self.cnt}", 1, self.F.N - 1)
        pn = b_var(f"par{self.cnt}")
        if core.CTX is not None:
            core.CTX.vars[pn.args[0]] = pn
        if self.injective_x:
            # the x coordinate determines the point up to sign: X(f) == X(g) implies f == g or f == -g (mod N)
            dn = lift(self.F.canon(f))
            for g, xg, pg in self.xs:
                dg = lift(self.F.canon(g))
                same = b_cmp("eq", dn, dg)
                opp = b_cmp("eq", core.n_add(dn, dg), const(self.F.N))
                xeq = b_cmp("eq", xn, xg)
                peq = b_or(b_and(pn, pg), b_and(b_not(pn), b_not(pg)))
                self.F.axiom(b_or(b_not(xeq), same, opp))
                self.F.axiom(b_or(b_not(same), b_and(xeq, peq)))
                self.F.axiom(b_or(b_not(opp), b_and(xeq, b_not(peq))))
        self.xs.append((f, xn, pn))
        return xn, pn

    def fresh_point_from_x(self, n):
        """an arbitrary point whose X equals the symbolic integer n (even y), or ValueError when n is not an abscissa"""
        self.cnt += 1
        k = self.cnt
        oncurve = b_var(f"oncurve{k}")
        if core.CTX is not None:
            core.CTX.vars[oncurve.args[0]] = oncurve
        if branch(b_cmp("eq", n.n, const(0))):
            return self.Point(d=0)
        if not branch(b_and(oncurve, b_cmp("lt", n.n, const(self.F.N)))):
            raise ValueError("not the x coordinate of a curve point")
        dn = core.new_var(f"L{k}", 1, self.F.N - 1)
        f = self.F.rf(dn)
        self.xs.append((f, n.n, FALSE))  # even y by construction
        return self.Point(d=SI(dn))

    def make_point_class(self, S256Point, S256Field):
        grp = self
        F = self.F

        class _Coord:
            """stands for an S256Field coordinate: only .num is used by the inherited code"""
            __slots__ = ("num", "prime")

            def __init__(self, num):
                self.num = num
                self.prime = grp.P

            def __eq__(self, o):
                if o is None:
                    return False
                return self.num == o.num

            def __ne__(self, o):
                r = self.__eq__(o)
                return core.s_not(r)

            def hex(self):
                raise core.Unsupported("hex of abstract coordinate")

        # the one value of the real constructor that has no discrete-log reading: probe it on the real class of this run
        INF_PARITY = []
        try:
            INF_PARITY.append(S256Point(None, None).parity)
        except AttributeError:
            pass

        class AbstractPoint(S256Point):
            def __init__(self, x=None, y=None, a=None, b=None, d=None):
                if d is None:
                    if x is None and y is None:
                        d = 0
                    else:
                        raise core.Unsupported("abstract point from coordinates")
                self.d = d  # scalar: int or SI, canonical in [0, N-1]
                self.a = 0
                self.b = 7

            @property
            def is_inf(self):
                return F.is_zero_cond(self.d) if not isinstance(self.d, int) else (TRUE if self.d % F.N == 0 else FALSE)

            @property
            def x(self):
                if branch(self.is_inf):
                    return None
                xn, pn = grp.coords(self.d)
                return _Coord(wrap(xn))

            @x.setter
            def x(self, v):
                pass

            @property
            def y(self):
                if branch(self.is_inf):
                    return None
                xn, pn = grp.coords(self.d)
                # only the parity of y is modelled: an opaque value whose low bit is the parity
                return _Coord(_ParityInt(pn))

            @y.setter
            def y(self, v):
                pass

            @property
            def parity(self):
                if branch(self.is_inf):
                    # what the real constructor (current source) leaves on the point at infinity: no attribute at all, or a value
                    if INF_PARITY:
                        return INF_PARITY[0]
                    raise AttributeError("parity")
                xn, pn = grp.coords(self.d)
                return 1 if branch(pn) else 0

            @parity.setter
            def parity(self, v):
                pass

            def __eq__(self, o):
                return wrapb(F.is_zero_cond(F.reduce(lift_si(self.d) - lift_si(o.d)))) if not F.same(self.d, o.d) else True

            def __ne__(self, o):
                return core.s_not(self.__eq__(o))

            def __add__(self, o):
                if isinstance(o, (int, SI)) and not isinstance(o, bool):
                    o = o * G_holder[0]
                return AbstractPoint(d=F.reduce(lift_si(self.d) + lift_si(o.d)))

            def __radd__(self, o):
                return self.__add__(o)

            def __rmul__(self, c):
                cm = c % F.N if isinstance(c, int) else F.reduce(c)
                return AbstractPoint(d=F.reduce(lift_si(cm) * lift_si(self.d)))

            def __repr__(self):
                return "<abstract point>"

            @classmethod
            def parse_xonly(cls, xonly_bin):
                """x-only lift in the abstract group: bytes that are the encoding of a known point's X give that point's
                even-y representative; 32 zero bytes give infinity (library convention); anything else is a fresh point"""
                n = core.int_from_bytes(xonly_bin, "big")
                if isinstance(n, int):
                    if n == 0:
                        return AbstractPoint(d=0)
                    raise core.Unsupported("concrete x-only key in the abstract group")
                for f, xn, pn in grp.xs:
                    if n.n is xn:
                        d = F.canon(f)
                        if branch(pn):
                            d = F.reduce(-lift_si(d))
                        return AbstractPoint(d=d)
                return grp.fresh_point_from_x(n)

            @classmethod
            def parse(cls, binary):
                if len(binary) == 32:
                    return cls.parse_xonly(binary)
                if len(binary) == 33:
                    return cls.parse_sec(binary)
                raise core.Unsupported("uncompressed SEC parsing in the abstract group")

            @classmethod
            def parse_sec(cls, sec_bin):
                """compressed SEC of a known point: prefix 02/03 selects the representative with that parity"""
                if len(sec_bin) != 33:
                    raise core.Unsupported("uncompressed SEC parsing in the abstract group")
                pre = concretize(sec_bin[0])
                if pre not in (2, 3):
                    raise ValueError("Unknown SEC prefix")
                n = core.int_from_bytes(sec_bin[1:], "big")
                if isinstance(n, int):
                    raise core.Unsupported("concrete SEC key in the abstract group")
                for f, xn, pn in grp.xs:
                    if n.n is xn:
                        d = F.canon(f)
                        odd = branch(pn)
                        if odd != (pre == 3):
                            d = F.reduce(-lift_si(d))
                        return AbstractPoint(d=d)
                raise core.Unsupported("SEC bytes that are not the encoding of a known abstract point")

        G_holder = [None]
        G = AbstractPoint(d=1)
        G_holder[0] = G
        self.Point = AbstractPoint
        self.G = G
        return AbstractPoint, G


class _ParityInt:
    """integer stand-in whose only observable is its parity (y % 2)"""

    def __init__(self, pn):
        self.pn = pn

    def __mod__(self, m):
        if m == 2:
            return core.s_ite(wrapb(self.pn), 1, 0)
        raise core.Unsupported("abstract y coordinate")

    def __and__(self, m):
        if m == 1:
            return core.s_ite(wrapb(self.pn), 1, 0)
        raise core.Unsupported("abstract y coordinate")


def lift_si(x):
    return x if isinstance(x, SI) else SI(const(x))
