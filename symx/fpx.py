"""fpx: an exact model of IEEE-754 binary64 arithmetic expressed over integers (no SMT floating-point theory).

CPython's `/` on ints and every arithmetic operation that involves a float yields a double.  `FExpr` (core.Ratio subclasses
it, so `isinstance(x, core.Ratio)` keeps working) is a *lazy expression tree* of such operations:

    leaves       Python int / bool, core.SI, core.SB, concrete Python float
    inner nodes  div, mul, add, sub, neg, abs   (whatever `/ * + -` between FExpr / int / SI / float create)

Nothing forks and nothing is sent to the solver when a node is built.  On *observation* (int(), math.floor / ceil / trunc,
comparison with int / SI / float / FExpr, bool()) the tree is evaluated bottom-up to a value

    sgn * m * 2**e        sgn in {+1, -1} concrete, m an int or SI with 0 <= m < 2**53, e a concrete Python int

(`FV`).  The sign of a symbolic operand and the binade of a result (e must be concrete) are decided by forking the path
(`if <SB>` -> core.branch) when the intervals of the operands do not decide them; the significand stays symbolic.  Every
operation computes the exact real result as a quotient of integers and rounds it once, to nearest / ties to even, with `_rnd`.
Observations are then exact integer facts about (sgn, m, e).

What is modelled (and cross-checked against the real interpreter by probes/fpx_selftest.py):
  int / int       CPython's long_true_divide: the *exact* quotient correctly rounded (no prior conversion of the operands),
                  ZeroDivisionError for a zero divisor, OverflowError when the rounded quotient is >= 2**1024
  int -> float    (an int operand of `float op int`, `int op float`, or of an operation with an FExpr) round to nearest even,
                  OverflowError when the result is >= 2**1024
  float op float  div (ZeroDivisionError for a zero divisor), mul, add, sub, neg, abs: exact result, one rounding
Results outside the *normal* double range (0 < |v| < 2**-1022: subnormal / underflow; |v| >= 2**1024 for float-float operations,
where Python gives inf) raise core.Unsupported: the obligation is inconclusive there, never silently wrong.  Non-finite
concrete floats (inf, nan) meeting a symbolic operand are Unsupported as well.  Operations whose operands are all concrete
are executed with real Python floats.

FAST PATH (kept from the exact-rational model so that existing checks do not fork more): a node that is a single int / int
division n / d with 0 <= n, 0 < d and n.hi + d.hi < 2**52 answers floor / ceil / int / comparison-with-an-integer from the
exact rational n/d.  Argument: let k be an integer with k != n/d.  Then |n/d - k| = |n - k*d| / d >= 1/d.  The correctly
rounded quotient fl(n/d) can reach or cross k only if |n/d - k| is at most half a unit in the last place at k, which is
<= k * 2**-53.  For 0 < k <= n/d + 1 we have k*d <= n + d < 2**53, hence k * 2**-53 < 1/d: fl(n/d) lies strictly on the same
side of k as n/d.  For k = 0, n > 0 gives n/d >= 1/d >= 2**-52 > 0, which does not underflow; for k > n/d + 1 and k < 0 the
claim follows from the monotonicity of rounding and the exact representability of the integers floor(n/d) + 1 and 0 (< 2**53).
If n/d = k the division is exact.  So floor(fl(n/d)) = n // d, ceil(fl(n/d)) = -(-n // d), and fl(n/d) < k, <= k, == k iff
n < k*d, n <= k*d, n == k*d.  Comparisons with floats / other FExpr and everything else go through the rounding model.

round(x, ndigits), format(), str(), repr() stay opaque / display-only (psbt.py only prints round(fee / total * 100, 2)); they
do not evaluate and do not fork.

Limits:
  * laziness: ZeroDivisionError / OverflowError surface when a tree is *observed*; a quotient that is only printed never raises
    (CPython raises at the division).  The exact-rational model before had the same gap.
  * solver side: the model is exact, deciding it is a different matter.  mode="int" (LIA) decides everything that is linear --
    division / multiplication by constants, e.g. int(td / K * 4), x * 0.1 -- in fractions of a second, but a product of two
    *symbolic* significands is non-linear: `_fmul` refuses it there (Unsupported -> inconclusive) unless NIA_PRODUCTS is set.
    mode="bv" handles such products (24 x 53 bits) and finds counterexamples, preferably with check(..., fresh=True); it does
    not prove identities between a rounded product and an integer quotient (multiplier equivalence), and a symbolic divisor
    (`divs` node, bvudiv) is slow there -- use mode="int" for those.
  * -0.0, inf, nan, subnormals, math functions other than floor / ceil / trunc are outside the model (Unsupported).
"""
import math

core = None  # bound at the bottom of the file (core imports this module to subclass FExpr)

P52 = 1 << 52
P53 = 1 << 53
E_MAX = 971      # largest exponent of a normalised significand (2**52 <= m < 2**53): m * 2**971 < 2**1024
E_MIN = -1074    # smallest exponent of a normal double with normalised significand: 2**52 * 2**-1074 = 2**-1022

NIA_PRODUCTS = [False]  # allow products of two symbolic significands in mode="int" (z3's non-linear integer solver rarely decides them)
FORCE = [False]  # self-test switch: push concrete operands through the symbolic rounding code instead of Python floats
STATS = {"rnd": 0, "eval": 0}  # calls of the rounding core / evaluations of a tree node (a check can tell that floats were involved)

_OPS = ("div", "mul", "add", "sub", "neg", "abs")
_SYM = {"div": "/", "mul": "*", "add": "+", "sub": "-"}


class FV:
    """a finite double: s * m * 2**e, s = +1 / -1, 0 <= m < 2**53 (int or SI; not necessarily normalised; zero is m == 0)"""
    __slots__ = ("s", "m", "e")

    def __init__(self, s, m, e):
        self.s = s
        self.m = m
        self.e = e

    def __repr__(self):
        return f"FV({'+' if self.s > 0 else '-'}{self.m!r}*2^{self.e})"


ZERO = FV(1, 0, 0)


# ------------------------------------------------------------------------------------------------ small helpers

def _is_intlike(x):
    return isinstance(x, (int, core.SI, core.SB))


def _is_operand(x):
    return isinstance(x, (int, float, core.SI, core.SB, FExpr))


def _as_int(x):
    """int / SI for an int-like operand"""
    if isinstance(x, bool):
        return int(x)
    if isinstance(x, core.SB):
        return core.s_ite(x, 1, 0)
    return x


def _iv(x):
    """(lo, hi) of an int or SI"""
    if isinstance(x, int):
        return x, x
    return x.n.lo, x.n.hi


def _ilog(n, d):
    """floor(log2(n / d)) for positive ints (shifts and comparisons only)"""
    t = n.bit_length() - d.bit_length()
    if (d << t) > n if t >= 0 else d > (n << -t):
        t -= 1
    return t


def _shl(x, k):
    """x * 2**k for k >= 0 (int or SI)"""
    return x << k if k else x


def _tz(x):
    """(y, k) with x == y * 2**k: concrete trailing zero bits that are visible in the term (int: all of them; SI: an outer
    left shift or an even constant factor).  x is non-negative."""
    if isinstance(x, int):
        if x == 0:
            return 0, 0
        k = (x & -x).bit_length() - 1
        return x >> k, k
    n = x.n
    if n.op == "shl":
        return core.wrap(n.args[0]), n.args[1]
    if n.op == "mul" and core.is_const(n.args[1]):
        c = n.args[1].args[0]
        if c > 0 and c % 2 == 0:
            k = (c & -c).bit_length() - 1
            return core.wrap(core.n_mul(n.args[0], core.const(c >> k))), k
    return x, 0


def _sdiv(N, D):
    """N // D for N >= 0, D > 0 (a symbolic divisor becomes a `divs` node: no concretisation)"""
    if isinstance(D, int):
        return N // D
    return core.wrap(core.n_divs(core.lift(N), D.n))


def _norm53(m):
    """m itself on a path where 2**52 <= m < 2**53 is established, written so that the interval of the term says so
    (2**52 + (m mod 2**52) is in [2**52, 2**53) for every m, so the narrowed interval is valid on every path)"""
    if isinstance(m, int):
        return m
    if m.n.lo >= P52 and m.n.hi < P53:
        return m
    return P52 + (m & (P52 - 1))


def _sign_abs(x):
    """(sgn, |x|) of an int / SI; forks when the interval does not decide the sign.  Zero gets sgn = +1."""
    lo, hi = _iv(x)
    if lo >= 0:
        return 1, x
    if hi < 0:
        return -1, -x
    # |x| as a term whose interval is non-negative on every path (ite(x < 0, -x, x) with the tight interval)
    n = x.n
    ax = core.SI(core.mknode("ite", (core.b_cmp("lt", n, core.const(0)), core.n_neg(n), n), 0, max(-lo, hi)))
    return (-1 if x < 0 else 1), ax


def _maybe_zero(x):
    """decide x == 0 for a non-negative int / SI (fork only if the interval allows zero)"""
    lo, hi = _iv(x)
    if lo > 0:
        return False
    if hi == 0:
        return True
    return bool(x == 0)


# ------------------------------------------------------------------------------------------------ the rounding core

def _binade(x):
    """j with 2**j <= x < 2**(j+1) for an int / SI x > 0 on the current path: binary search with comparisons against constants
    (forks; the queries are trivial for the solver)"""
    lo, hi = _iv(x)
    lo, hi = max(lo, 1).bit_length() - 1, max(hi, 1).bit_length() - 1
    while lo < hi:
        mid = (lo + hi + 1) // 2
        if x < (1 << mid):      # low side first: the exploration visits the binades in ascending order
            hi = mid - 1
        else:
            lo = mid
    return lo


def _rnd(num, den, tlo=None, thi=None):
    """(m, e) with m * 2**e == num / den rounded to 53 significant bits, to nearest, ties to even, unbounded exponent.
    num, den: ints or SI, num > 0 and den > 0 on the current path.  2**52 <= m < 2**53 (the interval of m says so), e concrete.

    (1) binade: t with den * 2**t <= num < den * 2**(t+1), by binary search over the t values that the intervals of num and den
        allow; every test is a comparison of shifted integers (an `if` on a symbolic comparison forks the path);
    (2) e = t - 52; N / D = num / (den * 2**e) (e >= 0) or (num * 2**-e) / den; q = N // D in [2**52, 2**53), r = N - q*D;
        round up iff 2r > D or (2r == D and q odd) -- a symbolic 0/1 term, no fork;
    (3) m = q + up; m == 2**53 (fork) renormalises to (2**52, e + 1).
    tlo / thi: bounds for t that the caller has established on the path (tighter than what the intervals say).
    Works on plain ints as well (the self-test runs it against the real interpreter)."""
    STATS["rnd"] += 1
    nlo, nhi = _iv(num)
    dlo, dhi = _iv(den)
    lo = _ilog(max(nlo, 1), max(dhi, 1))
    hi = _ilog(max(nhi, 1), max(dlo, 1))
    if tlo is not None:
        lo, hi = max(lo, tlo), min(hi, thi)
    while lo < hi:
        mid = (lo + hi + 1) // 2
        if (num < _shl(den, mid)) if mid >= 0 else (_shl(num, -mid) < den):
            hi = mid - 1
        else:
            lo = mid
    t = lo
    e = t - 52
    if e >= 0:
        N, D = num, _shl(den, e)
    else:
        N, D = _shl(num, -e), den
    if isinstance(D, int) and D == 1:
        return _norm53(N), e
    q = _sdiv(N, D)
    r = (N & (D - 1)) if (isinstance(D, int) and D & (D - 1) == 0) else N - q * D
    r2 = 2 * r
    if isinstance(D, int) and D % 2 == 1:
        up = core.s_ite(r2 > D, 1, 0)       # an odd divisor has no ties
    else:
        up = core.s_ite(core.s_or(r2 > D, core.s_and(r2 == D, (q & 1) == 1)), 1, 0)
    m = q + up
    if m == P53:
        return P52, e + 1
    return _norm53(m), e


def _finish(s, m, e, what, overflow=None):
    """range check of a rounded, normalised result"""
    if e > E_MAX:
        if overflow is not None:
            raise overflow
        raise core.Unsupported(f"float {what}: result >= 2**1024 (inf in Python)")
    if e < E_MIN:
        raise core.Unsupported(f"float {what}: result below 2**-1022 (subnormal / underflow is not modelled)")
    return FV(s, m, e)


def _exact_ok(mhi, e):
    """m * 2**e with 0 <= m <= mhi < 2**53 is a double (exactly representable, no rounding)"""
    return mhi < P53 and e >= E_MIN and mhi.bit_length() + e <= 1024


# ------------------------------------------------------------------------------------------------ conversions

def _to_fv(f):
    """a concrete Python float as FV"""
    if isinstance(f, FV):
        return f
    if f != f or f in (math.inf, -math.inf):
        raise core.Unsupported("non-finite float meets a symbolic operand")
    if f == 0:
        return ZERO
    s = -1 if f < 0 else 1
    n, d = abs(f).as_integer_ratio()
    if d == 1:
        n, k = _tz(n)
        return FV(s, n, k)
    return FV(s, n, -(d.bit_length() - 1))


def _from_int(x):
    """int -> double (what CPython does with the int operand of a mixed operation): round to nearest even, OverflowError
    at >= 2**1024.  No rounding (and no fork besides the sign) when the interval shows |x| < 2**53, also after taking out
    trailing zero bits that are visible in the term."""
    if isinstance(x, int) and not FORCE[0]:
        return _to_fv(float(x))
    s, ax = _sign_abs(x)
    lo, hi = _iv(ax)
    if _exact_ok(hi, 0):
        return FV(s, ax, 0)
    y, k = _tz(ax)
    if k and _exact_ok(_iv(y)[1], k):
        return FV(s, y, k)
    if _maybe_zero(ax):
        return ZERO
    m, e = _rnd(y, 1)
    return _finish(s, m, e + k, "int -> float", OverflowError("int too large to convert to float"))


# ------------------------------------------------------------------------------------------------ operations

def _div_int(a, b):
    """int / int: the exact quotient, correctly rounded (Objects/longobject.c long_true_divide)"""
    blo, bhi = _iv(b)
    if blo <= 0 <= bhi and (blo == bhi or bool(b == 0)):
        raise ZeroDivisionError("division by zero")
    sb, ab = _sign_abs(b)
    sa, aa = _sign_abs(a)
    if _maybe_zero(aa):
        return ZERO
    ya, ka = _tz(aa)
    yb, kb = _tz(ab)
    m, e = _rnd(ya, yb)
    return _finish(sa * sb, m, e + ka - kb, "int / int", OverflowError("integer division result too large for a float"))


def _fdiv(A, B):
    if _maybe_zero(B.m):
        raise ZeroDivisionError("float division by zero")
    if _maybe_zero(A.m):
        return ZERO
    m, e = _rnd(A.m, B.m)
    return _finish(A.s * B.s, m, e + A.e - B.e, "division")


def _fmul(A, B):
    P = A.m * B.m
    e = A.e + B.e
    s = A.s * B.s
    if _exact_ok(_iv(P)[1], e):
        return FV(s, P, e)
    if _maybe_zero(A.m) or _maybe_zero(B.m):
        return ZERO
    if isinstance(A.m, int) or isinstance(B.m, int):
        y, k = _tz(P)
        m, e2 = _rnd(y, 1)
        return _finish(s, m, e2 + e + k, "multiplication")
    # symbolic * symbolic: settle the binade of each factor first (comparisons with constants), which leaves two candidates
    # for the binade of the product and a single comparison that involves the multiplication
    if core.ctx() is not None and core.ctx().mode == "int" and not NIA_PRODUCTS[0]:
        raise core.Unsupported("float product of two symbolic significands in LIA mode (non-linear; explore with mode='bv')")
    ja, jb = _binade(A.m), _binade(B.m)
    m, e2 = _rnd(P, 1, ja + jb, ja + jb + 1)
    return _finish(s, m, e2 + e, "multiplication")


def _fadd(A, B):
    if isinstance(A.m, int) and A.m == 0:
        return B
    if isinstance(B.m, int) and B.m == 0:
        return A
    e0 = min(A.e, B.e)
    X = _shl(A.m, A.e - e0)
    Y = _shl(B.m, B.e - e0)
    S = (X if A.s > 0 else -X) + (Y if B.s > 0 else -Y)
    s, M = _sign_abs(S)
    if _exact_ok(_iv(M)[1], e0):
        return FV(s, M, e0)
    if _maybe_zero(M):
        return ZERO
    m, e = _rnd(M, 1)
    return _finish(s, m, e + e0, "addition")


def _fsub(A, B):
    return _fadd(A, FV(-B.s, B.m, B.e))


_FOPS = {"div": _fdiv, "mul": _fmul, "add": _fadd, "sub": _fsub}
_PYOPS = {"div": lambda a, b: a / b, "mul": lambda a, b: a * b, "add": lambda a, b: a + b, "sub": lambda a, b: a - b}


def _operand(x):
    """('i', int | SI) or ('f', float | FV)"""
    if isinstance(x, FExpr):
        return "f", x._fv()
    if isinstance(x, float):
        return "f", x
    return "i", _as_int(x)


def _evaluate(x):
    """value of an FExpr node: a Python float when everything below is concrete, else an FV"""
    op = x.op
    STATS["eval"] += 1
    if op in ("neg", "abs"):
        v = x.a._fv()
        if isinstance(v, float):
            return -v if op == "neg" else abs(v)
        return FV(-v.s if op == "neg" else 1, v.m, v.e)
    ka, va = _operand(x.a)
    kb, vb = _operand(x.b)
    if not FORCE[0] and isinstance(va, (int, float)) and isinstance(vb, (int, float)):
        return float(_PYOPS[op](va, vb))
    if op == "div" and ka == "i" and kb == "i":
        return _div_int(va, vb)
    A = _from_int(va) if ka == "i" else _to_fv(va)
    B = _from_int(vb) if kb == "i" else _to_fv(vb)
    return _FOPS[op](A, B)


# ------------------------------------------------------------------------------------------------ observations

def _trunc(v):
    if isinstance(v, float):
        return int(v)
    r = _shl(v.m, v.e) if v.e >= 0 else v.m >> -v.e
    return r if v.s > 0 else -r


def _ceil_mag(v):
    """ceil(m * 2**e)"""
    if v.e >= 0:
        return _shl(v.m, v.e)
    k = -v.e
    return (v.m + ((1 << k) - 1)) >> k


def _floor(v):
    if isinstance(v, float):
        return math.floor(v)
    return _trunc(v) if v.s > 0 else -_ceil_mag(v)


def _ceil(v):
    if isinstance(v, float):
        return math.ceil(v)
    return _ceil_mag(v) if v.s > 0 else _trunc(v)


def _scaled(v):
    """(signed integer S, e) with value == S * 2**e for an int / SI / finite float / FV"""
    if isinstance(v, FV):
        return (v.m if v.s > 0 else -v.m), v.e
    if isinstance(v, float):
        f = _to_fv(v)
        return (f.m if f.s > 0 else -f.m), f.e
    return v, 0


def _value(x):
    if isinstance(x, FExpr):
        return x._fv()
    if isinstance(x, float):
        return x
    return _as_int(x)


_INTCMP = {"lt": lambda a, b: a < b, "le": lambda a, b: a <= b, "eq": lambda a, b: a == b}


def compare(x, y, op):
    """x op y (op in lt / le / eq) where at least one side is an FExpr and the other an FExpr / int / SI / float.
    Exact (CPython compares an int with a float exactly, too).  Returns a bool or an SB; the evaluation of the operands may fork."""
    if isinstance(x, FExpr) and x._fast() and _is_intlike(y):
        return _INTCMP[op](_as_int(x.a), _as_int(y) * _as_int(x.b))
    if isinstance(y, FExpr) and y._fast() and _is_intlike(x):
        return _INTCMP[op](_as_int(x) * _as_int(y.b), _as_int(y.a))
    vx, vy = _value(x), _value(y)
    if isinstance(vx, (int, float)) and isinstance(vy, (int, float)):
        return _INTCMP[op](vx, vy)
    for v, is_y in ((vx, False), (vy, True)):
        if isinstance(v, float) and (v != v or v in (math.inf, -math.inf)):
            if v != v or op == "eq":
                return False
            return (v > 0) if is_y else (v < 0)     # finite < +inf, -inf < finite
    (sx, ex), (sy, ey) = _scaled(vx), _scaled(vy)
    e0 = min(ex, ey)
    return _INTCMP[op](_shl(sx, ex - e0), _shl(sy, ey - e0))


def binop(op, a, b):
    """the lazy node for `a op b` (NotImplemented for operand types outside int / SI / SB / float / FExpr)"""
    if not (_is_operand(a) and _is_operand(b)):
        return NotImplemented
    return core.Ratio(a, b, op)


class FExpr:
    """lazy tree of double-precision operations (see the module docstring).  Ratio(num, den) is the division node."""

    def __init__(self, a, b=1, op="div"):
        assert op in _OPS
        self.a = a
        self.b = b
        self.op = op
        self._v = None

    # the exact-rational view of a single division (checks/c20.py reads .num / .den of ceil(len / size) arguments)
    @property
    def num(self):
        if self.op != "div":
            raise core.Unsupported("numerator of a float expression that is not a single division")
        return self.a

    @property
    def den(self):
        if self.op != "div":
            raise core.Unsupported("denominator of a float expression that is not a single division")
        return self.b

    def _fv(self):
        if self._v is None:
            self._v = _evaluate(self)
        return self._v

    def _fast(self):
        """single int / int division whose floor / ceil / comparison with integers is that of the exact rational"""
        if self.op != "div" or FORCE[0] or not (_is_intlike(self.a) and _is_intlike(self.b)):
            return False
        (alo, ahi), (blo, bhi) = _iv(_as_int(self.a)), _iv(_as_int(self.b))
        return alo >= 0 and blo > 0 and ahi + bhi < P52

    # ---- arithmetic: build nodes, never evaluate
    def __truediv__(self, o):
        return binop("div", self, o)

    def __rtruediv__(self, o):
        return binop("div", o, self)

    def __mul__(self, o):
        return binop("mul", self, o)

    def __rmul__(self, o):
        return binop("mul", o, self)

    def __add__(self, o):
        return binop("add", self, o)

    def __radd__(self, o):
        return binop("add", o, self)

    def __sub__(self, o):
        return binop("sub", self, o)

    def __rsub__(self, o):
        return binop("sub", o, self)

    def __neg__(self):
        return core.Ratio(self, None, "neg")

    def __pos__(self):
        return self

    def __abs__(self):
        return core.Ratio(self, None, "abs")

    # ---- observations
    def __floor__(self):
        if self._fast():
            return _as_int(self.a) // _as_int(self.b)
        return _floor(self._fv())

    def __ceil__(self):
        if self._fast():
            return -((-_as_int(self.a)) // _as_int(self.b))
        return _ceil(self._fv())

    def __trunc__(self):
        if self._fast():
            return _as_int(self.a) // _as_int(self.b)
        return _trunc(self._fv())

    __int__ = __trunc__

    def __bool__(self):
        v = self._fv()
        if isinstance(v, float):
            return v != 0
        return bool(v.m != 0)

    def _cmp(self, o, op, swap=False, neg=False):
        if not _is_operand(o):
            return NotImplemented
        r = compare(o, self, op) if swap else compare(self, o, op)
        return core.s_not(r) if neg else r

    def __lt__(self, o):
        return self._cmp(o, "lt")

    def __le__(self, o):
        return self._cmp(o, "le")

    def __gt__(self, o):
        return self._cmp(o, "lt", swap=True)

    def __ge__(self, o):
        return self._cmp(o, "le", swap=True)

    def __eq__(self, o):
        r = self._cmp(o, "eq")
        return False if r is NotImplemented else r

    def __ne__(self, o):
        r = self._cmp(o, "eq", neg=True)
        return True if r is NotImplemented else r

    __hash__ = None

    # ---- not modelled: inconclusive, never a TypeError that could pass for an outcome of the code under test
    def _unsupported(self, *a, **k):
        raise core.Unsupported("float operation outside the model (** // % divmod float() on a symbolic double)")

    __pow__ = __rpow__ = __floordiv__ = __rfloordiv__ = __mod__ = __rmod__ = __divmod__ = __rdivmod__ = __float__ = _unsupported

    # ---- display only: opaque, no evaluation, no fork
    def __round__(self, ndigits=None):
        return self

    def __format__(self, spec):
        return "<sym ratio>"

    def __repr__(self):
        return "<sym ratio>"

    __str__ = __repr__


def describe(x):
    """debug rendering of a tree"""
    if isinstance(x, FExpr):
        if x.op in ("neg", "abs"):
            return f"{x.op}({describe(x.a)})"
        return f"({describe(x.a)} {_SYM[x.op]} {describe(x.b)})"
    return repr(x)


from . import core  # noqa: E402  (bottom import: core.py imports this module while it is being initialised)
