"""load /repo's buidl package a second time, from the current working tree's source, as package `sbuidl`:
each module is executed with a shadowed builtins namespace (int/bytes/type/__import__ ... shims) so that the
real code runs on symbolic proxies.  The native package `buidl` (imported normally from /repo) is untouched
and is what replays and self-validation compare against."""
import ast
import hashlib
import importlib.abc
import importlib.util
import os
import sys

from . import shims

REPO = os.environ.get("VERIF_REPO", "/repo")
ALIAS = "sbuidl"
SOURCES = {}  # module name -> (path, sha1)
PATCHES = {}  # module name -> callable(tree) -> tree (per-harness source-level transforms, e.g. if-conversion)


class _Rewrite(ast.NodeTransformer):
    def visit_ImportFrom(self, node):
        if node.level == 0 and node.module and (node.module == "buidl" or node.module.startswith("buidl.")):
            node.module = ALIAS + node.module[5:]
        return node

    def visit_Import(self, node):
        for a in node.names:
            if a.name == "buidl" or a.name.startswith("buidl."):
                a.name = ALIAS + a.name[5:]
        return node

    def visit_Call(self, node):
        self.generic_visit(node)
        f = node.func
        # b"".join(x)  ->  __sx_bjoin__(b"", x)   (a method of a bytes literal cannot be shadowed)
        if isinstance(f, ast.Attribute) and f.attr == "join" and isinstance(f.value, ast.Constant) and isinstance(
                f.value.value, bytes):
            return ast.copy_location(
                ast.Call(func=ast.Name(id="__sx_bjoin__", ctx=ast.Load()), args=[f.value] + node.args, keywords=[]), node)
        return node


class Finder(importlib.abc.MetaPathFinder, importlib.abc.Loader):
    def find_spec(self, name, path, target=None):
        if name == ALIAS or name.startswith(ALIAS + "."):
            rel = "buidl" + name[len(ALIAS):].replace(".", "/")
            for cand, pkg in ((f"{REPO}/{rel}/__init__.py", True), (f"{REPO}/{rel}.py", False)):
                if os.path.exists(cand):
                    return importlib.util.spec_from_file_location(
                        name, cand, loader=self, submodule_search_locations=[os.path.dirname(cand)] if pkg else None)
        return None

    def create_module(self, spec):
        return None

    def exec_module(self, module):
        path = module.__spec__.origin
        src = open(path).read()
        SOURCES[module.__name__] = (path, hashlib.sha1(src.encode()).hexdigest())
        if module.__name__ == ALIAS:
            src = ""  # the package __init__ star-imports everything; submodules are imported on demand
        tree = ast.parse(src, path)
        tree = _Rewrite().visit(tree)
        p = PATCHES.get(module.__name__)
        if p is not None:
            tree = p(tree)
        ast.fix_missing_locations(tree)
        module.__dict__["__builtins__"] = shims.SHIM_BUILTINS
        exec(compile(tree, path, "exec"), module.__dict__)


_installed = False


def install():
    global _installed
    if not _installed:
        sys.meta_path.insert(0, Finder())
        if REPO not in sys.path:
            sys.path.insert(0, REPO)
        _installed = True


def load(modname):
    """import sbuidl.<modname>"""
    install()
    import importlib
    return importlib.import_module(f"{ALIAS}.{modname}")


def native(modname):
    install()
    import importlib
    return importlib.import_module(f"buidl.{modname}")
