"""load /repo's buidl package a second time, from the current working tree's source, as package `sbuidl`:
each module is executed with a shadowed builtins namespace (int/bytes/type/__import__ ... shims) so that the
real code runs on symbolic proxies.  The native package `buidl` (imported normally from /repo) is untouched
and is what replays and self-validation compare against."""
import ast
import hashlib
import importlib.abc
import importlib.util
import os
import sys

from . import shims

REPO = os.environ.get("VERIF_REPO", "/repo")
ALIAS = "sbuidl"
SOURCES = {}  # module name -> (path, sha1)
PATCHES = {}  # module name -> callable(tree) -> tree (per-harness source-level transforms, e.g. if-conversion)


class _Rewrite(ast.NodeTransformer):
    def visit_ImportFrom(self, node):
        if node.level == 0 and node.module and (node.module == "buidl" or node.module.startswith("buidl.")):
            node.module = ALIAS + node.module[5:]
        return node

    def visit_Import(self, node):
        for a in node.names:
            if a.name == "buidl" or a.name.startswith("buidl."):
                a.name = ALIAS + a.name[5:]
        return node

    def visit_Call(self, node):
        self.generic_visit(node)
        f = node.func
        # b"".join(x)  ->  __sx_bjoin__(b"", x)   (a method of a bytes literal cannot be shadowed)
        if isinstance(f, ast.Attribute) and f.attr == "join" and isinstance(f.value, ast.Constant) and isinstance(
                f.value.value, bytes):
            return ast.copy_location(
                ast.Call(func=ast.Name(id="__sx_bjoin__", ctx=ast.Load()), args=[f.value] + node.args, keywords=[]), node)
        return node


class Finder(importlib.abc.MetaPathFinder, importlib.abc.Loader):
    def find_spec(self, name, path, target=None):
        if name == ALIAS or name.startswith(ALIAS + "."):
            rel = "buidl" + name[len(ALIAS):].replace(".", "/")
            for cand, pkg in ((f"{REPO}/{rel}/__init__.py", True), (f"{REPO}/{rel}.py", False)):
                if os.path.exists(cand):
                    return importlib.util.spec_from_file_location(
                        name, cand, loader=self, submodule_search_locations=[os.path.dirname(cand)] if pkg else None)
        return None

    def create_module(self, spec):
        return None

    def exec_module(self, module):
        path = module.__spec__.origin
        src = open(path).read()
        SOURCES[module.__name__] = (path, hashlib.sha1(src.encode()).hexdigest())
        if module.__name__ == ALIAS:
            src = ""  # the package __init__ star-imports everything; submodules are imported on demand
        tree = ast.parse(src, path)
        tree = _Rewrite().visit(tree)
        p = PATCHES.get(module.__name__)
        if p is not None:
            tree = p(tree)
        ast.fix_missing_locations(tree)
        module.__dict__["__builtins__"] = shims.SHIM_BUILTINS
        exec(compile(tree, path, "exec"), module.__dict__)
        _snapshot_module(module)


# ---- per-path reset of module- and class-level mutable state of the library -------------------------------------------------
# Every explored path stands for a run in a fresh process.  The shimmed modules are loaded once per worker, so a container the
# library keeps at module or class level (TxFetcher.cache, a tag-hash memo, or a memo table added by a change under test) would
# carry entries - with symbolic values of *another* path - from one path into the next.  The containers that exist right after a
# module body ran are snapshotted, and their contents are restored in place at the start of every path (core.PATH_START_HOOKS).
_BASE = []      # (container, snapshot of its contents)
_BASE_IDS = set()


def _copy1(obj):
    if type(obj) is dict:
        return {k: (_copy1(v) if type(v) in (dict, set, list) else v) for k, v in obj.items()}
    if type(obj) is list:
        return [(_copy1(v) if type(v) in (dict, set, list) else v) for v in obj]
    return set(obj)


def _snap(obj):
    if type(obj) in (dict, set, list) and id(obj) not in _BASE_IDS:
        _BASE_IDS.add(id(obj))
        _BASE.append((obj, _copy1(obj)))


def _snapshot_module(module):
    for k, v in list(module.__dict__.items()):
        if k.startswith("__"):
            continue
        _snap(v)
        if isinstance(v, type) and getattr(v, "__module__", None) == module.__name__:
            for kk, vv in list(vars(v).items()):
                if not kk.startswith("__"):
                    _snap(vv)


def rebaseline():
    """a harness that deliberately edits such a container once per process calls this afterwards"""
    for i, (obj, _) in enumerate(_BASE):
        _BASE[i] = (obj, _copy1(obj))


def reset_state():
    for obj, base in _BASE:
        if type(obj) is dict:
            if len(obj) != len(base) or any(obj.get(k, _BASE) is not v and type(v) not in (dict, set, list) for k, v in base.items()):
                obj.clear()
                obj.update(_copy1(base))
        elif type(obj) is list:
            if len(obj) != len(base) or any(a is not b and type(b) not in (dict, set, list) for a, b in zip(obj, base)):
                obj[:] = _copy1(base)
        else:
            if len(obj) != len(base):
                obj.clear()
                obj.update(base)
            else:
                try:
                    same = all(x in obj for x in base)
                except Exception:
                    same = False
                if not same:
                    obj.clear()
                    obj.update(base)


_installed = False


def install():
    global _installed
    if not _installed:
        sys.meta_path.insert(0, Finder())
        if REPO not in sys.path:
            sys.path.insert(0, REPO)
        _installed = True
        from . import core
        if reset_state not in core.PATH_START_HOOKS:
            core.PATH_START_HOOKS.append(reset_state)


def load(modname):
    """import sbuidl.<modname>"""
    install()
    import importlib
    return importlib.import_module(f"{ALIAS}.{modname}")


def native(modname):
    install()
    import importlib
    return importlib.import_module(f"buidl.{modname}")
