"""builtin / stdlib stand-ins seen only by the shimmed copy of buidl (package name `sbuidl`).
Every shim falls through to the real thing on concrete input."""
import builtins
import hashlib as _hashlib
import hmac as _hmac
import math as _math
import struct as _struct
import types

from . import core
from .core import (SI, SB, SBytes, SHex, Ratio, Unsupported, concretize, norm, wrap, lift, n_uf, n_byte, n_cat,
                   const, int_from_bytes, concretize_bytes, mknode)


# ---------------------------------------------------------------- int


class _IntMeta(type):
    def __instancecheck__(cls, x):
        if cls is IntShim:
            return isinstance(x, (builtins.int, SI)) and not isinstance(x, SB)
        return type.__instancecheck__(cls, x)

    def __subclasscheck__(cls, sub):
        if cls is IntShim:
            return sub is IntShim or issubclass(sub, builtins.int) or issubclass(sub, SI)
        return type.__subclasscheck__(cls, sub)


class IntShim(SI, metaclass=_IntMeta):
    """stands for `int` inside sbuidl modules; usable as a base class (Locktime, Sequence)"""
    __slots__ = ()

    def __new__(cls, x=0, base=None):
        if cls is IntShim:
            if isinstance(x, SHex):
                if base != 16:
                    raise Unsupported("int(hex, base != 16)")
                return int_from_bytes(x.b, "big")
            if isinstance(x, SI):
                return wrap(x.n)
            if isinstance(x, SB):
                return core.s_ite(x, 1, 0)
            if isinstance(x, Ratio):
                return x.__int__()
            return builtins.int(x) if base is None else builtins.int(x, base)
        obj = object.__new__(cls)
        obj.n = lift(x)
        return obj

    def __init__(self, *a, **k):
        pass

    from_bytes = staticmethod(int_from_bytes)

    def __repr__(s):
        return str(s.n.args[0]) if s.n.op == "const" else SI.__repr__(s)

    __str__ = __repr__

    def __format__(s, spec):
        return format(s.n.args[0], spec) if s.n.op == "const" else "<sym>"

    def __hash__(s):
        return hash(s.n.args[0]) if s.n.op == "const" else SI.__hash__(s)

    def __index__(s):
        return s.n.args[0] if s.n.op == "const" else SI.__index__(s)

    def __int__(s):
        return s.__index__()

    # a concrete instance must behave like the int it stands for in dict keys / equality with ints
    def __eq__(s, o):
        return SI.__eq__(s, o)

    def __ne__(s, o):
        return SI.__ne__(s, o)

    def to_bytes(s, length=1, byteorder="big", *, signed=False):
        if s.n.op == "const":
            return s.n.args[0].to_bytes(length, byteorder, signed=signed)
        return SI.to_bytes(s, length, byteorder, signed=signed)


def type_shim(*a):
    if len(a) != 1:
        return builtins.type(*a)
    t = builtins.type(a[0])
    if t is builtins.int or t is SI:
        return IntShim
    if t is builtins.bytes or t is SBytes:
        return BytesShim
    if t is SB:
        return builtins.bool
    if t is SHex:
        return builtins.str
    return t


# ---------------------------------------------------------------- bytes


class _BytesMeta(type):
    def __instancecheck__(cls, x):
        return isinstance(x, (builtins.bytes, SBytes))


class BytesShim(metaclass=_BytesMeta):
    def __new__(cls, x=b"", *a):
        if isinstance(x, builtins.bool):
            return builtins.bytes(x)
        if isinstance(x, builtins.int):
            return builtins.bytes(x)
        if isinstance(x, SI):
            return builtins.bytes(concretize(x))
        if isinstance(x, (builtins.bytes, builtins.bytearray)):
            return builtins.bytes(x)
        if isinstance(x, builtins.str):
            return builtins.bytes(x, *a)
        if isinstance(x, SBytes):
            return norm(SBytes(x.items))
        items = list(x)
        for i in items:
            if isinstance(i, SI):
                if i < 0 or i > 255:
                    raise ValueError("bytes must be in range(0, 256)")
            elif isinstance(i, builtins.int):
                if not 0 <= i <= 255:
                    raise ValueError("bytes must be in range(0, 256)")
            else:
                raise TypeError(f"'{type(i).__name__}' object cannot be interpreted as an integer")
        return norm(SBytes(items))

    @staticmethod
    def fromhex(h):
        if isinstance(h, SHex):
            return norm(SBytes(h.b.items)) if isinstance(h.b, SBytes) else h.b
        return builtins.bytes.fromhex(h)

    @staticmethod
    def join(sep, parts):
        return bjoin(sep, parts)


def bjoin(sep, parts):
    parts = list(parts)
    if all(isinstance(p, (builtins.bytes, builtins.bytearray)) for p in parts) and not isinstance(sep, SBytes):
        return sep.join(parts)
    return core.sbytes(sep).join(parts)


class SByteArray(SBytes):
    """bytearray stand-in: mutable"""
    __slots__ = ()

    def append(self, x):
        self.items.append(x)

    def extend(self, xs):
        self.items.extend(list(xs))

    def __setitem__(self, k, v):
        self.items[concretize(k)] = v

    def __iadd__(self, o):
        self.items.extend(list(o))
        return self


class _BAMeta(type):
    def __instancecheck__(cls, x):
        return isinstance(x, (builtins.bytearray, SByteArray))


class ByteArrayShim(metaclass=_BAMeta):
    def __new__(cls, x=b""):
        if isinstance(x, builtins.int):
            return SByteArray([0] * x)
        if isinstance(x, SI):
            return SByteArray([0] * concretize(x))
        return SByteArray(list(x))


# ---------------------------------------------------------------- io


class BytesIOShim:
    """pure-Python read-only stream over bytes / SBytes"""

    def __init__(self, initial=b""):
        self._b = initial
        self._p = 0

    def read(self, n=-1):
        if n is None or (not isinstance(n, SI) and n < 0):
            r = self._b[self._p:]
            self._p = len(self._b)
            return r
        if isinstance(n, SI):
            # a symbolic size read from content: beyond the end of the buffer every value behaves the same
            remaining = len(self._b) - self._p
            if n > remaining:
                n = remaining + 1
            else:
                n = concretize(n)
        r = self._b[self._p:self._p + n]
        self._p += len(r)
        return r

    def seek(self, off, whence=0):
        off = concretize(off)
        if whence == 0:
            self._p = off
        elif whence == 1:
            self._p += off
        else:
            self._p = len(self._b) + off
        return self._p

    def tell(self):
        return self._p

    def getvalue(self):
        return self._b


# ---------------------------------------------------------------- hashing (uninterpreted on symbolic input)

HASH_CALLS = []  # (name, input SBytes) per path, for injectivity instances


def _uf_bytes(name, outlen, parts):
    """parts: list of byte strings (bytes or SBytes). Returns SBytes of outlen bytes = UF_name(parts...)"""
    args = []
    widths = []
    for p in parts:
        args.append(n_cat([lift(i) for i in p]))
        widths.append(max(8 * len(p), 1))
    fname = name + "_" + "_".join(str(len(p)) for p in parts)
    node = mknode("uf", (fname, 8 * outlen, tuple(widths)) + tuple(args), 0, (1 << (8 * outlen)) - 1)
    HASH_CALLS.append((fname, node))
    return SBytes([wrap(n_byte(node, outlen - 1 - i)) for i in range(outlen)])


def _is_concrete(b):
    return isinstance(b, (builtins.bytes, builtins.bytearray))


def _register_hash_impl(algo, outlen):
    def impl_factory(lens):
        def impl(*vals):
            data = b"".join(v.to_bytes(l, "big") for v, l in zip(vals, lens))
            return int.from_bytes(_hashlib.new(algo, data).digest(), "big")
        return impl
    return impl_factory


class _UFImplDict(dict):
    """resolves 'sha256_33' style names to real implementations for concrete evaluation"""

    def __missing__(self, name):
        parts = name.split("_")
        if parts[0] == "hmac":
            algo = parts[1]
            lens = [int(x) for x in parts[2:]]

            def impl(k, m):
                return int.from_bytes(_hmac.new(k.to_bytes(lens[0], "big"), m.to_bytes(lens[1], "big"), algo).digest(), "big")
            self[name] = impl
            return impl
        if parts[0] == "pbkdf2":
            algo, rounds, dklen = parts[1], int(parts[2]), int(parts[3])
            lens = [int(x) for x in parts[4:]]

            def impl(p, s):
                return int.from_bytes(_hashlib.pbkdf2_hmac(algo, p.to_bytes(lens[0], "big"), s.to_bytes(lens[1], "big"), rounds, dklen), "big")
            self[name] = impl
            return impl
        algo = parts[0]
        lens = [int(x) for x in parts[1:]]
        if algo in ("sha256", "sha1", "sha512", "ripemd160"):
            def impl(*vals):
                data = b"".join(v.to_bytes(l, "big") for v, l in zip(vals, lens))
                return int.from_bytes(_hashlib.new(algo, data).digest(), "big")
            self[name] = impl
            return impl
        raise KeyError(name)


core.UF_IMPL = _UFImplDict(core.UF_IMPL)
_core_evaln = core.evaln


class _H:
    def __init__(self, algo, data=b""):
        self.algo = algo
        self.data = data
        self.digest_size = _hashlib.new(algo).digest_size
        self.block_size = _hashlib.new(algo).block_size
        self.name = algo

    def update(self, d):
        self.data = self.data + d

    def copy(self):
        return _H(self.algo, self.data)

    def digest(self):
        d = norm(self.data) if isinstance(self.data, SBytes) else self.data
        if _is_concrete(d):
            return _hashlib.new(self.algo, d).digest()
        return _uf_bytes(self.algo, self.digest_size, [d])

    def hexdigest(self):
        r = self.digest()
        return r.hex()


def _mk_hash(algo):
    def ctor(data=b""):
        return _H(algo, data)
    ctor.__name__ = algo
    ctor._algo = algo
    return ctor


def _algo_name(digestmod):
    if isinstance(digestmod, str):
        return digestmod
    if hasattr(digestmod, "_algo"):
        return digestmod._algo
    if hasattr(digestmod, "__name__"):
        return digestmod.__name__.replace("openssl_", "")
    raise Unsupported("digestmod")


class _HMAC:
    def __init__(self, key, msg=None, digestmod=None):
        self.algo = _algo_name(digestmod)
        self.key = key
        self.msg = msg if msg is not None else b""
        self.digest_size = _hashlib.new(self.algo).digest_size
        self.block_size = _hashlib.new(self.algo).block_size

    def update(self, d):
        self.msg = self.msg + d

    def copy(self):
        return _HMAC(self.key, self.msg, self.algo)

    def digest(self):
        k = norm(self.key) if isinstance(self.key, SBytes) else self.key
        m = norm(self.msg) if isinstance(self.msg, SBytes) else self.msg
        if _is_concrete(k) and _is_concrete(m):
            return _hmac.new(k, m, self.algo).digest()
        return _uf_bytes("hmac_" + self.algo, self.digest_size, [k, m])

    def hexdigest(self):
        return self.digest().hex()


def _pbkdf2_hmac(algo, password, salt, rounds, dklen=None):
    p = norm(password) if isinstance(password, SBytes) else password
    s = norm(salt) if isinstance(salt, SBytes) else salt
    if _is_concrete(p) and _is_concrete(s):
        return _hashlib.pbkdf2_hmac(algo, p, s, rounds, dklen)
    if dklen is None:
        dklen = _hashlib.new(algo).digest_size
    return _uf_bytes(f"pbkdf2_{algo}_{rounds}_{dklen}", dklen, [p, s])


def make_modules():
    m = {}
    io = types.ModuleType("io")
    io.BytesIO = BytesIOShim
    m["io"] = io

    h = types.ModuleType("hashlib")
    for a in ("sha256", "sha1", "sha512"):
        setattr(h, a, _mk_hash(a))
    h.new = lambda name, data=b"": _H(name, data)
    h.pbkdf2_hmac = _pbkdf2_hmac
    m["hashlib"] = h

    hm = types.ModuleType("hmac")
    hm.new = lambda key, msg=None, digestmod=None: _HMAC(key, msg, digestmod)
    hm.HMAC = _HMAC
    hm.compare_digest = lambda a, b: bool(a == b)
    m["hmac"] = hm

    mt = types.ModuleType("math")
    mt.__dict__.update({k: v for k, v in _math.__dict__.items() if not k.startswith("__")})

    def ceil(x):
        if isinstance(x, Ratio):
            return x.__ceil__()
        if isinstance(x, SI):
            return x
        return _math.ceil(x)

    def floor(x):
        if isinstance(x, Ratio):
            return x.__floor__()
        if isinstance(x, SI):
            return x
        return _math.floor(x)

    def log(x, *a):
        return _math.log(concretize(x), *a)

    def trunc(x):
        if isinstance(x, Ratio):
            return x.__trunc__()
        if isinstance(x, SI):
            return x
        return _math.trunc(x)

    mt.ceil = ceil
    mt.floor = floor
    mt.trunc = trunc
    mt.log = log
    m["math"] = mt

    st = types.ModuleType("struct")

    class Struct:
        def __init__(self, fmt):
            self.fmt = fmt
            self._s = _struct.Struct(fmt)
            self.size = self._s.size
            assert fmt[0] in "<>!" and all(ch in "QILHB" for ch in fmt[1:]), fmt  # "!" = network (big-endian), standard sizes
            self.order = "little" if fmt[0] == "<" else "big"
            self.sizes = [{"Q": 8, "I": 4, "L": 4, "H": 2, "B": 1}[ch] for ch in fmt[1:]]

        def pack(self, *vals):
            if all(isinstance(v, builtins.int) for v in vals):
                return self._s.pack(*vals)
            out = b""
            for v, sz in zip(vals, self.sizes):
                if v < 0 or v >= (1 << (8 * sz)):
                    raise _struct.error("argument out of range")
                out = out + (v.to_bytes(sz, self.order))
            return out

        def unpack(self, b):
            if _is_concrete(b):
                return self._s.unpack(b)
            if len(b) != self.size:
                raise _struct.error("unpack requires a buffer of %d bytes" % self.size)
            out = []
            p = 0
            for sz in self.sizes:
                out.append(int_from_bytes(b[p:p + sz], self.order))
                p += sz
            return tuple(out)

        def unpack_from(self, b, offset=0):
            return self.unpack(b[offset:offset + self.size])

    st.Struct = Struct
    st.pack = lambda fmt, *v: (_struct.pack(fmt, *v) if fmt[0] == "@" else Struct(fmt).pack(*v))
    st.unpack = lambda fmt, b: Struct(fmt).unpack(b)
    st.error = _struct.error
    m["struct"] = st
    return m


SHIM_MODULES = make_modules()

# environment stubs replaced per harness (randomness / time / network are arbitrary values of their type)
ENV = {}


def set_env(**kw):
    ENV.update(kw)


def _secrets_module():
    s = types.ModuleType("secrets")
    s.randbits = lambda k: ENV["randbits"](k)
    s.randbelow = lambda n: ENV["randbelow"](n)
    s.token_bytes = lambda n=32: ENV["token_bytes"](n)
    return s


def _random_module():
    s = types.ModuleType("random")
    s.randint = lambda a, b: ENV["randint"](a, b)
    return s


def _time_module():
    import time as _t
    s = types.ModuleType("time")
    s.time = lambda: ENV["time"]() if "time" in ENV else _t.time()
    s.sleep = lambda x: None
    return s


def _urllib_request_module():
    s = types.ModuleType("urllib.request")

    class Request:
        def __init__(self, url, *a, **k):
            self.url = url
            self.full_url = url
    s.Request = Request
    s.urlopen = lambda req, *a, **k: ENV["urlopen"](req)
    return s


SHIM_MODULES["secrets"] = _secrets_module()
SHIM_MODULES["random"] = _random_module()
SHIM_MODULES["time"] = _time_module()
SHIM_MODULES["urllib.request"] = _urllib_request_module()


def shim_import(name, globals=None, locals=None, fromlist=(), level=0):
    if level == 0 and name in SHIM_MODULES:
        return SHIM_MODULES[name]
    if level == 0 and name == "urllib" and fromlist:
        pass
    return builtins.__import__(name, globals, locals, fromlist, level)


def noop_print(*a, **k):
    pass


def len_shim(x):
    return builtins.len(x)


def isinstance_shim(x, t):
    return builtins.isinstance(x, t)


def bool_shim(x=False):
    if isinstance(x, SB):
        return x
    if isinstance(x, SI):
        return x != 0
    return builtins.bool(x)


def hex_shim(x):
    if isinstance(x, SI):
        raise Unsupported("hex() of symbolic int")
    return builtins.hex(x)


def divmod_shim(a, b):
    if isinstance(a, SI) or isinstance(b, SI):
        return (a // b, a % b)
    return builtins.divmod(a, b)


def round_shim(x, *a):
    return builtins.round(x, *a)


SHIM_BUILTINS = dict(builtins.__dict__)
SHIM_BUILTINS.update(int=IntShim, bytes=BytesShim, bytearray=ByteArrayShim, type=type_shim, print=noop_print,
                     __import__=shim_import, divmod=divmod_shim, __sx_bjoin__=bjoin)
