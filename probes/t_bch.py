import sys, time, itertools
sys.path.insert(0, "/repo")
import z3, symx2 as symx
from symx2 import SI, Node
import ifconv
import buidl.bech32 as b32
polymod = ifconv.convert(b32.bech32_polymod)
# sanity: concrete agreement
import random
for _ in range(50):
    v = [random.randrange(32) for _ in range(random.randrange(1, 40))]
    assert polymod(v) == b32.bech32_polymod(v)
L = int(sys.argv[1])
t0 = time.time(); nq = 0; worst = 0
hrp = b32.bech32_hrp_expand("bc")
# direct formulation: data symbolic, data2 differs in exactly positions i,j (values symbolic, !=)
ds = [z3.BitVec(f"d{i}", 5) for i in range(L)]
e1, e2 = z3.BitVec("e1", 5), z3.BitVec("e2", 5)
def mk(bvs): return [SI(Node("var", (b, 5), 0, 31)) for b in bvs]
symx.CTX = symx.Ctx()
p1 = polymod(hrp + mk(ds))
res = []
for i, j in itertools.combinations(range(L), 2):
    d2 = list(ds); d2[i] = ds[i] ^ e1; d2[j] = ds[j] ^ e2
    vs = [SI(Node("var", (b, 5), 0, 31)) if True else None for b in d2]
    # lowering of xor'd bv: wrap as var node with the expr
    p2 = polymod(hrp + vs)
    s = z3.Solver(); s.set("timeout", 60000)
    s.add(z3.Or(e1 != 0, e2 != 0))
    c1 = z3.If(ds[0] == 0, z3.BitVecVal(1, 30), z3.BitVecVal(0x2bc830a3, 30))
    c2 = z3.If(d2[0] == 0, z3.BitVecVal(1, 30), z3.BitVecVal(0x2bc830a3, 30))
    s.add(p1.bv(30) == c1, p2.bv(30) == c2)
    tq = time.time(); r = s.check(); dt = time.time() - tq; worst = max(worst, dt); nq += 1
    if str(r) != "unsat":
        m = s.model() if str(r) == "sat" else None
        res.append((i, j, str(r), [m.eval(x).as_long() for x in ds] if m else None, (m.eval(e1).as_long(), m.eval(e2).as_long()) if m else None))
        if len(res) > 3: break
print("L", L, "queries", nq, "worst", f"{worst:.2f}s", "total", f"{time.time()-t0:.1f}s", "non-unsat", res[:3])
