import sys, time, itertools
sys.path.insert(0, "/tmp/probe")
import z3, symx2 as symx, symx3, loader
from symx2 import SI, Node
from symx3 import SBytes, norm
loader.install()
import buidl.shamir as sh
class SymTable(list):
    def __getitem__(self, k):
        if isinstance(k, SI):
            w = 8
            idx = symx.low(k.n, 9)
            if not hasattr(self, "_arr"):
                a = z3.K(z3.BitVecSort(9), z3.BitVecVal(0, 8))
                for i in range(len(self)): a = z3.Store(a, z3.BitVecVal(i, 9), z3.BitVecVal(list.__getitem__(self, i), 8))
                self._arr = a
            return SI(Node("var", (z3.Select(self._arr, idx), 8), 0, 255))
        return list.__getitem__(self, k)
sh.ShareSet.exp = SymTable(sh.ShareSet.exp); sh.ShareSet.log2 = SymTable(sh.ShareSet.log2)
def run_case(k, n, subset):
    nb = 1
    secret = SBytes.sym("s", nb); digest = SBytes.sym("g", nb)
    rnd = [SBytes.sym(f"r{i}_", nb) for i in range(k - 2)]
    def run():
        share_data = [(i, rnd[i]) for i in range(k - 2)] + [(254, digest), (255, secret)]
        shares = [(i, rnd[i]) for i in range(k - 2)] + [(i, sh.ShareSet.interpolate(i, share_data)) for i in range(k - 2, n)]
        sub = [shares[i] for i in subset]
        rec = sh.ShareSet.interpolate(255, sub)
        recd = sh.ShareSet.interpolate(254, sub)
        return (rec, recd)
    t0 = time.time()
    paths = symx.explore(run)
    res = []
    for pc, r in paths:
        assert r[0] == "ok", r
        rec, recd = r[1]
        s = z3.Solver(); s.set("timeout", 60000); s.add(*pc)
        s.add(z3.Or(z3.Not((rec == secret).e) if not isinstance(rec == secret, bool) else z3.BoolVal(not (rec == secret)),
                    z3.Not((recd == digest).e) if not isinstance(recd == digest, bool) else z3.BoolVal(not (recd == digest))))
        res.append(str(s.check()))
    from collections import Counter
    print(f"k={k} n={n} subset={subset}: paths={len(paths)} {dict(Counter(res))} {time.time()-t0:.1f}s", flush=True)
run_case(2, 3, (1, 2))
run_case(3, 4, (1, 2, 3))
