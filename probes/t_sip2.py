import sys, time
sys.path.insert(0, "/repo")
import z3, symx2 as symx
from symx2 import SI, Node
import buidl.siphash as sh
from t_sip import sipround
t0 = time.time()
vs = [z3.BitVec(f"v{i}", 64) for i in range(4)]; m = z3.BitVec("m", 64)
sv = tuple(SI(Node("var", (b, 64), 0, 2**64 - 1)) for b in vs); sm = SI(Node("var", (m, 64), 0, 2**64 - 1))
paths = symx.explore(lambda: sh._doublesipround(sv, sm))
assert len(paths) == 1
out = paths[0][1][1]
v0, v1, v2, v3 = vs
v3 = v3 ^ m
v0, v1, v2, v3 = sipround(v0, v1, v2, v3); v0, v1, v2, v3 = sipround(v0, v1, v2, v3)
v0 = v0 ^ m
ref = (v0, v1, v2, v3)
for i in range(4):
    assert out[i].lo >= 0 and out[i].hi < 2**64, (i, out[i].lo, out[i].hi)
    s = z3.Solver(); s.set("timeout", 120000)
    s.add(out[i].bv(64) != ref[i])
    print(i, s.check(), f"{time.time()-t0:.2f}s", flush=True)
