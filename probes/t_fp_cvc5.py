import time, sys
from cvc5.pythonic import *
A = int(sys.argv[1]); B = int(sys.argv[2])
a = BitVec("a", 32); b = BitVec("b", 32)
rm = RNE()
fa = fpSignedToFP(rm, a, Float64()); fb = fpSignedToFP(rm, b, Float64())
q = fpDiv(rm, fa, fb)
c = fpRoundToIntegral(RTP(), q)
ci = fpToSBV(RTZ(), c, BitVecSort(32))
ceil_int = UDiv(a + b - 1, b)
s = Solver()
s.add(ULT(a, 1 << A), UGE(b, 1), ULT(b, 1 << B), ci != ceil_int)
t0 = time.time(); print("cvc5 FP lemma", A, B, s.check(), f"{time.time()-t0:.1f}s")
