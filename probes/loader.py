"""prototype: load /repo's buidl package from unmodified source with a shadowed builtins namespace"""
import sys, builtins, types, importlib.abc, importlib.util, os, io as _io, hashlib as _hashlib, hmac as _hmac
import z3
import symx2 as symx, symx3
from symx2 import SI, Node, SB
from symx3 import SBytes, norm, BytesIOShim, HashlibShim, IntShim as _IntShimOld, BytesShim, concretize, SHex

REPO = "/repo"

class _IntMeta(type):
    def __instancecheck__(cls, x):
        if cls is IntShim: return isinstance(x, (builtins.int, SI))
        return type.__instancecheck__(cls, x)
class IntShim(SI, metaclass=_IntMeta):
    """stands for `int` inside buidl modules; usable as a base class (Locktime, Sequence)"""
    __slots__ = ()
    def __new__(cls, x=0, base=None):
        if cls is IntShim:
            if isinstance(x, SHex):
                assert base == 16; return IntShim.from_bytes(x.b, "big")
            if isinstance(x, SI): return SI(x.n) if type(x) is not SI else x
            return builtins.int(x) if base is None else builtins.int(x, base)
        obj = object.__new__(cls)
        obj.n = SI.lift(x) if not isinstance(x, SI) else x.n
        return obj
    def __init__(self, *a, **k): pass
    from_bytes = staticmethod(_IntShimOld.from_bytes)
    def __repr__(s):
        return str(s.n.args[0]) if s.n.op == "const" else SI.__repr__(s)
    def __hash__(s): return hash(s.n.args[0]) if s.n.op == "const" else id(s)

def type_shim(*a):
    if len(a) != 1: return builtins.type(*a)
    t = builtins.type(a[0])
    if t is builtins.int or t is SI: return IntShim
    if t is builtins.bytes or t is SBytes: return BytesShim
    return t

def noop_print(*a, **k): pass

class ShimModule(types.ModuleType):
    pass
def make_shim_modules():
    m = {}
    io = ShimModule("io"); io.BytesIO = BytesIOShim; m["io"] = io
    h = ShimModule("hashlib"); h.sha256 = HashlibShim.sha256; h.sha1 = HashlibShim.sha1; h.sha512 = HashlibShim.sha512; h.new = HashlibShim.new
    h.pbkdf2_hmac = _hashlib.pbkdf2_hmac; m["hashlib"] = h
    return m
SHIM_MODULES = make_shim_modules()

def shim_import(name, globals=None, locals=None, fromlist=(), level=0):
    if level == 0 and name in SHIM_MODULES: return SHIM_MODULES[name]
    return builtins.__import__(name, globals, locals, fromlist, level)

SHIM_BUILTINS = dict(builtins.__dict__)
SHIM_BUILTINS.update(int=IntShim, bytes=BytesShim, type=type_shim, print=noop_print, __import__=shim_import)

class Finder(importlib.abc.MetaPathFinder, importlib.abc.Loader):
    def find_spec(self, name, path, target=None):
        if name == "buidl" or name.startswith("buidl."):
            rel = name.replace(".", "/")
            for cand, pkg in ((f"{REPO}/{rel}/__init__.py", True), (f"{REPO}/{rel}.py", False)):
                if os.path.exists(cand):
                    return importlib.util.spec_from_file_location(name, cand, loader=self, submodule_search_locations=[os.path.dirname(cand)] if pkg else None)
        return None
    def create_module(self, spec): return None
    def exec_module(self, module):
        src = open(module.__spec__.origin).read()
        if module.__name__ == "buidl": src = ""      # do not star-import everything
        module.__dict__["__builtins__"] = SHIM_BUILTINS
        exec(compile(src, module.__spec__.origin, "exec"), module.__dict__)
def install():
    sys.meta_path.insert(0, Finder())
