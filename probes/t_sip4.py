import sys, time
sys.path.insert(0, "/repo")
import z3, symx2 as symx
from symx2 import SI, Node
from t_sip import *
for n in [0, 3, 8, 9, 17]:
    t0 = time.time()
    kb = [z3.BitVec(f"k{i}", 8) for i in range(16)]
    mb = [z3.BitVec(f"m{i}", 8) for i in range(n)]
    key = SBytes([SI(Node("var", (b, 8), 0, 255)) for b in kb])
    msg = SBytes([SI(Node("var", (b, 8), 0, 255)) for b in mb])
    def run():
        s = sh.SipHash_2_4(key); s.s = SBytes([]); s.update(msg); return s.hash()
    paths = symx.explore(run)
    res = paths[0][1][1]
    k0 = z3.Concat(*reversed(kb[:8])); k1 = z3.Concat(*reversed(kb[8:]))
    ref = ref_sip24(k0, k1, mb)
    g = z3.Goal(); g.add(res.bv(64) != ref)
    t = z3.Then('simplify', 'bit-blast', 'aig', 'sat')
    s = t.solver(); s.set("timeout", 120000); s.add(res.bv(64) != ref)
    print(n, s.check(), f"{time.time()-t0:.2f}s", flush=True)
