import sys, time
sys.path.insert(0, "/repo")
import z3, symx2 as symx, symx3
from symx3 import SBytes, SI, install
import buidl.helper, buidl.script, buidl.op, buidl.timelock
for m in (buidl.helper, buidl.script, buidl.op): install(m)
from buidl.script import Script

# A: parse(serialize(cmds)) for push lengths
t0 = time.time(); bad = []
for L in list(range(0, 82)) + [255, 256, 519, 520]:
    data = SBytes.sym("d", L) if L else b""
    def run():
        s = Script([data, 0x76])
        raw = s.raw_serialize()
        back = Script.parse(raw=raw)
        ok = (len(back.commands) == 2) and bool(back.commands[0] == data) and back.commands[1] == 0x76
        return ok
    paths = symx.explore(run)
    for pc, res in paths:
        if res != ("ok", True): bad.append((L, res[0], repr(res[1])[:60]))
print("A push-length sweep", f"{time.time()-t0:.1f}s", "bad:", bad)

# B: serialize(parse(raw)) == raw for arbitrary raw of len<=4 : count paths / counterexamples
for L in range(0, 5):
    t0 = time.time()
    raw = SBytes.sym("r", L) if L else b""
    import io, contextlib
    def run():
        with contextlib.redirect_stdout(io.StringIO()):
            s = Script.parse(raw=raw)
            out = s.raw_serialize()
        return bool(out == raw)
    paths = symx.explore(run)
    from collections import Counter
    c = Counter((r[0], r[1] if r[0] == "ok" else type(r[1]).__name__) for _, r in paths)
    wit = None
    for pc, r in paths:
        if r == ("ok", False):
            s = z3.Solver(); s.add(*pc); s.check(); m = s.model()
            wit = bytes(m.eval(symx.low(b.n, 8), model_completion=True).as_long() for b in raw); break
    print("B len", L, "paths", len(paths), dict(c), "witness", wit, "queries", symx.CTX.queries, f"{time.time()-t0:.1f}s")
