import sys, time
sys.path.insert(0, "/repo")
import z3, symx2 as symx
from symx2 import SI, Node
import buidl.siphash as sh

def rotl(x, r): return z3.RotateLeft(x, r)
def sipround(v0, v1, v2, v3):
    v0 = v0 + v1; v1 = rotl(v1, 13); v1 ^= v0; v0 = rotl(v0, 32)
    v2 = v2 + v3; v3 = rotl(v3, 16); v3 ^= v2
    v0 = v0 + v3; v3 = rotl(v3, 21); v3 ^= v0
    v2 = v2 + v1; v1 = rotl(v1, 17); v1 ^= v2; v2 = rotl(v2, 32)
    return v0, v1, v2, v3
def ref_sip24(k0, k1, msg):  # msg: list of 8-bit BVs
    C = lambda c: z3.BitVecVal(c, 64)
    v0 = k0 ^ C(0x736f6d6570736575); v1 = k1 ^ C(0x646f72616e646f6d)
    v2 = k0 ^ C(0x6c7967656e657261); v3 = k1 ^ C(0x7465646279746573)
    n = len(msg)
    def word(bs):
        w = C(0)
        for i, b in enumerate(bs): w = w | (z3.ZeroExt(56, b) << (8 * i))
        return w
    for off in range(0, n - n % 8, 8):
        m = word(msg[off:off+8]); v3 ^= m
        v0, v1, v2, v3 = sipround(v0, v1, v2, v3); v0, v1, v2, v3 = sipround(v0, v1, v2, v3)
        v0 ^= m
    b = word(msg[n - n % 8:]) | C((n & 0xff) << 56)
    v3 ^= b
    v0, v1, v2, v3 = sipround(v0, v1, v2, v3); v0, v1, v2, v3 = sipround(v0, v1, v2, v3)
    v0 ^= b; v2 ^= C(0xff)
    for _ in range(4): v0, v1, v2, v3 = sipround(v0, v1, v2, v3)
    return v0 ^ v1 ^ v2 ^ v3

class SBytes:
    def __init__(self, items): self.items = list(items)
    def __len__(self): return len(self.items)
    def __add__(self, o):
        if isinstance(o, (bytes, bytearray)): o = SBytes(list(o))
        return SBytes(self.items + o.items)
    def __radd__(self, o): return SBytes(list(o) + self.items)
    def __getitem__(self, k):
        if isinstance(k, slice): return SBytes(self.items[k])
        return self.items[k]
    def __iter__(self): return iter(self.items)

class StructShim:
    def __init__(self, n): self.n = n
    def _w(self, bs):
        w = 0
        for i, b in enumerate(bs): w = w | (b << (8 * i))
        return w
    def unpack(self, s):
        assert len(s) == 8 * self.n
        return tuple(self._w(s[8*i:8*i+8]) for i in range(self.n))
    def unpack_from(self, s, off=0):
        return tuple(self._w(s[off+8*i:off+8*i+8]) for i in range(self.n))
sh._oneQ = StructShim(1); sh._twoQ = StructShim(2)
sh._zeroes = SBytes([0]*8)

for n in (range(0, int(sys.argv[1]) + 1) if __name__ == "__main__" else []):
    t0 = time.time()
    kb = [z3.BitVec(f"k{i}", 8) for i in range(16)]
    mb = [z3.BitVec(f"m{i}", 8) for i in range(n)]
    key = SBytes([SI(Node("var", (b, 8), 0, 255)) for b in kb])
    msg = SBytes([SI(Node("var", (b, 8), 0, 255)) for b in mb])
    def run():
        s = sh.SipHash_2_4(key)
        s.s = SBytes([])
        s.update(msg)
        return s.hash()
    paths = symx.explore(run)
    assert len(paths) == 1 and paths[0][1][0] == "ok", paths
    res = paths[0][1][1]
    k0 = z3.Concat(*reversed(kb[:8])); k1 = z3.Concat(*reversed(kb[8:]))
    ref = ref_sip24(k0, k1, mb)
    s = z3.Solver(); s.set("timeout", 60000)
    assert res.lo >= 0 and res.hi < 2**64, (res.lo, res.hi)
    s.add(res.bv(64) != ref)
    print(n, s.check(), f"{time.time()-t0:.2f}s", flush=True)
