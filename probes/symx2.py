"""prototype 2: mathematical-integer expression DAG + interval tracking + demand-driven BV lowering"""
import z3

def bits_for(lo, hi):
    w = 1
    while not (-(1 << (w - 1)) <= lo and hi < (1 << (w - 1))):
        w += 1
    return w

class Ctx:
    def __init__(self):
        self.solver = z3.Solver()
        self.decisions = []; self.pos = 0; self.pc = []; self.queries = 0
CTX = Ctx()

class Node:
    __slots__ = ("op", "args", "lo", "hi", "_low", "_hash")
    def __init__(self, op, args, lo, hi):
        self.op = op; self.args = args; self.lo = lo; self.hi = hi; self._low = {}
    @property
    def W(self): return bits_for(self.lo, self.hi)

def const(c): return Node("const", (c,), c, c)

def nz(n, k):
    """mask (k bits) of bit positions that may be non-zero in value(n) mod 2^k"""
    full = (1 << k) - 1
    op, a = n.op, n.args
    if op == "const": return a[0] & full
    m = full
    if n.lo >= 0: m &= (1 << n.hi.bit_length()) - 1
    if op == "var": m &= (1 << a[1]) - 1
    elif op == "shl": m &= (nz(a[0], max(k - a[1], 1)) << a[1]) if a[1] < k else 0
    elif op == "shr": m &= nz(a[0], k + a[1]) >> a[1]
    elif op == "and": m &= nz(a[0], k) & nz(a[1], k)
    elif op in ("or", "xor"): m &= nz(a[0], k) | nz(a[1], k)
    return m & full

def _splice(x, mx, y, my, k):
    """x,y BV(k) with disjoint supports mx,my: build concat of slices"""
    segs = []; i = 0
    while i < k:
        src = "x" if (mx >> i) & 1 else ("y" if (my >> i) & 1 else "0")
        j = i
        while j + 1 < k and (("x" if (mx >> (j+1)) & 1 else ("y" if (my >> (j+1)) & 1 else "0")) == src): j += 1
        if src == "0": segs.append(z3.BitVecVal(0, j - i + 1))
        else: segs.append(z3.Extract(j, i, x if src == "x" else y))
        i = j + 1
    segs.reverse()
    return segs[0] if len(segs) == 1 else z3.Concat(*segs)

def low(n, k):
    """BV(k) equal to value(n) mod 2^k"""
    r = n._low.get(k)
    if r is not None: return r
    W = n.W
    op, a = n.op, n.args
    if op == "const":
        r = z3.BitVecVal(a[0] % (1 << k), k)
    elif n.lo >= 0 and k > max(n.hi.bit_length(), 1):
        u = max(n.hi.bit_length(), 1)
        r = z3.ZeroExt(k - u, low(n, u))
    elif k > W:
        r = z3.SignExt(k - W, low(n, W))
    elif op == "var":
        v, w = a  # unsigned var of width w
        r = z3.Extract(k - 1, 0, v) if k <= w else z3.ZeroExt(k - w, v)
    elif op in ("or", "xor", "add") and nz(a[0], k) & nz(a[1], k) == 0:
        r = _splice(low(a[0], k), nz(a[0], k), low(a[1], k), nz(a[1], k), k)
    elif op in ("add", "sub", "mul", "and", "or", "xor"):
        x, y = low(a[0], k), low(a[1], k)
        r = {"add": x + y, "sub": x - y, "mul": x * y, "and": x & y, "or": x | y, "xor": x ^ y}[op]
    elif op == "neg":
        r = -low(a[0], k)
    elif op == "shl":
        c = a[1]
        r = z3.BitVecVal(0, k) if c >= k else z3.Concat(low(a[0], k - c), z3.BitVecVal(0, c))
    elif op == "shr":
        c = a[1]
        r = z3.Extract(k + c - 1, c, low(a[0], k + c))
    elif op == "mod":
        m = a[1]; x = a[0]
        Wx = max(x.W, bits_for(m, m)) + 1
        xx = low(x, Wx); mm = z3.BitVecVal(m, Wx)
        rr = z3.SRem(xx, mm); rr = z3.If(rr < 0, rr + mm, rr)
        r = z3.Extract(k - 1, 0, rr) if k <= Wx else z3.SignExt(k - Wx, rr)
    elif op == "div":
        m = a[1]; x = a[0]
        assert x.lo >= 0
        Wx = max(x.W, bits_for(m, m))
        rr = z3.UDiv(low(x, Wx), z3.BitVecVal(m, Wx))
        r = z3.Extract(k - 1, 0, rr) if k <= Wx else z3.ZeroExt(k - Wx, rr)
    elif op == "ite":
        r = z3.If(a[0], low(a[1], k), low(a[2], k))
    else:
        raise NotImplementedError(op)
    n._low[k] = r
    return r

def full(n, W=None):
    return low(n, W or n.W)

class SI:
    __slots__ = ("n",)
    def __init__(self, n): self.n = n
    @staticmethod
    def var(name, width):
        return SI(Node("var", (z3.BitVec(name, width), width), 0, (1 << width) - 1))
    @staticmethod
    def lift(x):
        if isinstance(x, SI): return x.n
        if isinstance(x, bool): x = int(x)
        if isinstance(x, int): return const(x)
        raise TypeError(type(x))
    @staticmethod
    def mk(op, args, lo, hi):
        if lo == hi: return lo
        if all((not isinstance(a, Node)) or a.op == "const" for a in args):
            v = [a.args[0] if isinstance(a, Node) else a for a in args]
            f = {"add": lambda x, y: x + y, "sub": lambda x, y: x - y, "mul": lambda x, y: x * y, "neg": lambda x: -x,
                 "and": lambda x, y: x & y, "or": lambda x, y: x | y, "xor": lambda x, y: x ^ y,
                 "shl": lambda x, c: x << c, "shr": lambda x, c: x >> c, "mod": lambda x, m: x % m, "div": lambda x, m: x // m}.get(op)
            if f is not None: return f(*v)
        return SI(Node(op, args, lo, hi))
    lo = property(lambda s: s.n.lo); hi = property(lambda s: s.n.hi)
    def __add__(s, o):
        a, b = s.n, SI.lift(o); return SI.mk("add", (a, b), a.lo + b.lo, a.hi + b.hi)
    __radd__ = __add__
    def __sub__(s, o):
        a, b = s.n, SI.lift(o); return SI.mk("sub", (a, b), a.lo - b.hi, a.hi - b.lo)
    def __rsub__(s, o):
        b, a = s.n, SI.lift(o); return SI.mk("sub", (a, b), a.lo - b.hi, a.hi - b.lo)
    def __neg__(s): return SI.mk("neg", (s.n,), -s.n.hi, -s.n.lo)
    def __mul__(s, o):
        a, b = s.n, SI.lift(o)
        if b.op == "const" and b.args[0] > 0 and b.args[0] & (b.args[0] - 1) == 0:
            return s << (b.args[0].bit_length() - 1)
        c = [a.lo * b.lo, a.lo * b.hi, a.hi * b.lo, a.hi * b.hi]
        return SI.mk("mul", (a, b), min(c), max(c))
    __rmul__ = __mul__
    def __lshift__(s, c):
        assert isinstance(c, int) and c >= 0
        if c == 0: return s
        return SI.mk("shl", (s.n, c), s.n.lo << c, s.n.hi << c)
    def __rshift__(s, c):
        assert isinstance(c, int) and c >= 0
        if c == 0: return s
        return SI.mk("shr", (s.n, c), s.n.lo >> c, s.n.hi >> c)
    def _bit(s, o, op):
        a, b = s.n, SI.lift(o)
        if a.lo >= 0 and b.lo >= 0:
            if op == "and": lo, hi = 0, min(a.hi, b.hi)
            else: lo, hi = 0, (1 << max(a.hi, b.hi).bit_length()) - 1
        elif op == "and" and (a.lo >= 0 or b.lo >= 0):
            lo, hi = 0, (a.hi if a.lo >= 0 else b.hi)
        else:
            w = max(a.W, b.W); lo, hi = -(1 << (w - 1)), (1 << (w - 1)) - 1
        return SI.mk(op, (a, b), lo, hi)
    def __and__(s, o): return s._bit(o, "and")
    __rand__ = __and__
    def __or__(s, o): return s._bit(o, "or")
    __ror__ = __or__
    def __xor__(s, o): return s._bit(o, "xor")
    __rxor__ = __xor__
    def __mod__(s, m):
        assert isinstance(m, int) and m > 0
        if s.n.lo >= 0 and s.n.hi < m: return s
        if m & (m - 1) == 0: return s & (m - 1)
        return SI.mk("mod", (s.n, m), 0, m - 1)
    def __floordiv__(s, m):
        assert isinstance(m, int) and m > 0
        if m & (m - 1) == 0: return s >> (m.bit_length() - 1)
        return SI.mk("div", (s.n, m), s.n.lo // m, s.n.hi // m)
    def _cmp(s, o, f):
        a, b = s.n, SI.lift(o); w = max(a.W, b.W)
        if a.op == "const" and b.op == "const":
            return bool(z3.is_true(z3.simplify(f(z3.BitVecVal(a.args[0], w), z3.BitVecVal(b.args[0], w)))))
        return SB(f(low(a, w), low(b, w)))
    def __eq__(s, o):
        if not isinstance(o, (SI, int)): return False
        return s._cmp(o, lambda a, b: a == b)
    def __ne__(s, o):
        if not isinstance(o, (SI, int)): return True
        return s._cmp(o, lambda a, b: a != b)
    def __lt__(s, o): return s._cmp(o, lambda a, b: a < b)
    def __le__(s, o): return s._cmp(o, lambda a, b: a <= b)
    def __gt__(s, o): return s._cmp(o, lambda a, b: a > b)
    def __ge__(s, o): return s._cmp(o, lambda a, b: a >= b)
    def __bool__(s): return bool(s != 0)
    def __hash__(s): return id(s)
    def __index__(s): raise TypeError("symbolic int used where a concrete index is required")
    def __repr__(s): return f"SI<{s.n.op}>[{s.n.lo},{s.n.hi}]"
    def bv(s, k): return low(s.n, k)

class SB:
    def __init__(s, e): s.e = e
    def __bool__(s): return branch(s.e)

def branch(cond):
    c = CTX
    cond = z3.simplify(cond)
    if z3.is_true(cond): return True
    if z3.is_false(cond): return False
    if c.pos < len(c.decisions):
        taken = c.decisions[c.pos]
    else:
        c.queries += 1
        c.solver.set("timeout", 5000)
        c.solver.push(); c.solver.add(*c.pc, cond); r = c.solver.check(); c.solver.pop()
        if r == z3.unknown: c.unknown = getattr(c, "unknown", 0) + 1
        taken = (r != z3.unsat)
        if not taken:
            pass
        c.decisions.append(taken)
    c.pos += 1
    c.pc.append(cond if taken else z3.Not(cond))
    return taken

def explore(fn, max_paths=100000, pre=()):
    global CTX
    CTX = Ctx()
    CTX.solver.add(*pre)
    out = []
    while True:
        CTX.pos = 0; CTX.pc = []
        try:
            res = ("ok", fn())
        except Exception as e:   # noqa
            res = ("exc", e)
        out.append((list(CTX.pc), res))
        d = CTX.decisions[:CTX.pos]
        pcs = CTX.pc
        while d:
            last = d.pop()
            if last:
                CTX.queries += 1
                CTX.solver.push(); CTX.solver.add(*pcs[:len(d)], z3.Not(pcs[len(d)]))
                r = CTX.solver.check(); CTX.solver.pop()
                if r == z3.unknown: CTX.unknown = getattr(CTX, "unknown", 0) + 1
                if r != z3.unsat:
                    d.append(False); break
        else:
            return out
        CTX.decisions = d
        if hasattr(CTX, "cand"): CTX.cand = {k: v for k, v in CTX.cand.items() if k < len(d) - 1 or (k == len(d) - 1 and False)}
        if len(out) > max_paths: raise RuntimeError("too many paths")

def _si_pow(s, n, mod=None):
    assert isinstance(n, int) and n >= 0
    result = 1; base = s
    if mod is not None: base = base % mod
    while n:
        if n & 1:
            result = result * base
            if mod is not None: result = result % mod
        n >>= 1
        if n:
            base = base * base
            if mod is not None: base = base % mod
    return result
SI.__pow__ = _si_pow
