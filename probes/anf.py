"""XOR-affine normal form over the symx2 Node DAG: each bit -> python int bitmask over atoms (atom 0 = constant 1)"""
import z3, symx2 as symx
from symx2 import Node, SI, nz
class NotAffine(Exception): pass
ATOMS = {}      # (var ast id, bit) -> index
ATOM_LIST = [None]
def atom(v, i):
    k = (v.get_id(), i)
    if k not in ATOMS:
        ATOMS[k] = len(ATOM_LIST); ATOM_LIST.append((v, i))
    return 1 << ATOMS[k]
def anf(n, k, memo=None):
    """list of k bitmasks (LSB first) for value(n) mod 2^k"""
    if memo is None: memo = {}
    key = (id(n), k)
    if key in memo: return memo[key]
    op, a = n.op, n.args
    if op == "const":
        r = [((a[0] >> i) & 1) for i in range(k)]
    elif op == "var":
        v, w = a
        r = [atom(v, i) if i < w else 0 for i in range(k)]
    elif op == "xor":
        x, y = anf(a[0], k, memo), anf(a[1], k, memo); r = [p ^ q for p, q in zip(x, y)]
    elif op in ("or", "add") :
        if nz(a[0], k) & nz(a[1], k): raise NotAffine(op)
        x, y = anf(a[0], k, memo), anf(a[1], k, memo); r = [p ^ q for p, q in zip(x, y)]
    elif op == "and":
        c, o = (a[0], a[1]) if a[0].op == "const" else (a[1], a[0])
        if c.op != "const": raise NotAffine("and")
        x = anf(o, k, memo); r = [x[i] if (c.args[0] >> i) & 1 else 0 for i in range(k)]
    elif op == "shl":
        c = a[1]; x = anf(a[0], max(k - c, 0), memo) if c < k else []
        r = ([0] * min(c, k) + x)[:k]
    elif op == "shr":
        c = a[1]; x = anf(a[0], k + c, memo); r = x[c:c + k]
    elif op == "ite":
        cond, t, e = a
        tb, eb = anf(t, k, memo), anf(e, k, memo)
        cb = cond_bit(cond)
        # affine only if t,e are constants (masks 0/1)
        if any(x not in (0, 1) for x in tb + eb): raise NotAffine("ite non-const")
        r = [ (eb[i]) ^ (cb if (tb[i] ^ eb[i]) else 0) for i in range(k)]
    else:
        raise NotAffine(op)
    memo[key] = r
    return r
COND = {}
def cond_bit(c):
    r = COND.get(c.get_id())
    if r is None: raise NotAffine("cond")
    return r
