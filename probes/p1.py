from io import BytesIO
from buidl.helper import encode_varint, read_varint
from buidl.op import encode_num, decode_num

def varint_rt(i: int) -> int:
    """
    pre: 0 <= i < 2**64
    post: _ == i
    """
    return read_varint(BytesIO(encode_varint(i)))

def num_rt(n: int) -> int:
    """
    pre: -2**31 < n < 2**31
    post: _ == n
    """
    return decode_num(encode_num(n))

def num_minimal(n: int) -> bytes:
    """
    pre: -2**31 < n < 2**31
    post: len(_) <= 4 and (len(_) == 0 or (_[-1] & 0x7f) != 0 or (len(_) > 1 and (_[-2] & 0x80) != 0))
    """
    return encode_num(n)
