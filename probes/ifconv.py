"""AST if-conversion: rewrite IfExp and simple assignment-only If statements so symbolic conditions merge instead of fork"""
import ast, inspect, textwrap, types
import symx2 as symx
from symx2 import SI, SB, Node, low
import z3

def _ite(c, fa, fb):
    _src = c if isinstance(c, SI) else None
    if isinstance(c, SI): c = (c != 0)
    if not isinstance(c, SB):
        return fa() if c else fb()
    ce = z3.simplify(c.e)
    if z3.is_true(ce): return fa()
    if z3.is_false(ce): return fb()
    a, b = fa(), fb()
    if not isinstance(a, (SI, int)) or not isinstance(b, (SI, int)):
        return a if symx.branch(ce) else b
    na, nb = SI.lift(a), SI.lift(b)
    if _src is not None and _src.lo >= 0 and _src.hi <= 1:
        try:
            import anf
            anf.COND[ce.get_id()] = anf.anf(_src.n, 1)[0]
        except Exception: pass
    return SI.mk("ite", (ce, na, nb), min(na.lo, nb.lo), max(na.hi, nb.hi))

class T(ast.NodeTransformer):
    def visit_IfExp(self, n):
        self.generic_visit(n)
        lam = lambda e: ast.Lambda(args=ast.arguments(posonlyargs=[], args=[], kwonlyargs=[], kw_defaults=[], defaults=[]), body=e)
        return ast.copy_location(ast.Call(func=ast.Name("__ite__", ast.Load()), args=[n.test, lam(n.body), lam(n.orelse)], keywords=[]), n)
    def visit_If(self, n):
        self.generic_visit(n)
        def simple(stmts):
            return all(isinstance(s, (ast.Assign, ast.AugAssign)) and (isinstance(s.targets[0] if isinstance(s, ast.Assign) else s.target, ast.Name)) and (not isinstance(s, ast.Assign) or len(s.targets) == 1) for s in stmts)
        if not (simple(n.body) and simple(n.orelse)):
            return n
        # cond evaluated once; each assigned name v: v = __ite__(c, lambda: then_v, lambda: else_v) using sequential temp evaluation
        out = []
        c = ast.Name("__c%d" % id(n), ast.Store())
        out.append(ast.Assign(targets=[c], value=n.test))
        cl = ast.Name(c.id, ast.Load())
        def names(stmts):
            r = []
            for s in stmts:
                t = s.targets[0] if isinstance(s, ast.Assign) else s.target
                if t.id not in r: r.append(t.id)
            return r
        allnames = names(n.body) + [x for x in names(n.orelse) if x not in names(n.body)]
        # build two closures returning tuple of final values
        def mkfn(fname, stmts):
            body = list(stmts) + [ast.Return(ast.Tuple([ast.Name(v, ast.Load()) for v in allnames], ast.Load()))]
            args = ast.arguments(posonlyargs=[], args=[ast.arg(v) for v in allnames], kwonlyargs=[], kw_defaults=[], defaults=[])
            return ast.FunctionDef(name=fname, args=args, body=body, decorator_list=[], type_params=[])
        fa, fb = "__then%d" % id(n), "__else%d" % id(n)
        out.append(mkfn(fa, n.body)); out.append(mkfn(fb, n.orelse or [ast.Pass()]))
        call = ast.Call(func=ast.Name("__ite_multi__", ast.Load()), args=[cl, ast.Name(fa, ast.Load()), ast.Name(fb, ast.Load()),
                    ast.Tuple([ast.Call(func=ast.Name("__getlocal__", ast.Load()), args=[ast.Call(func=ast.Name("locals", ast.Load()), args=[], keywords=[]), ast.Constant(v)], keywords=[]) for v in allnames], ast.Load())], keywords=[])
        out.append(ast.Assign(targets=[ast.Tuple([ast.Name(v, ast.Store()) for v in allnames], ast.Store())], value=call))
        return [ast.copy_location(s, n) for s in out]

_MISSING = object()
def _getlocal(d, k): return d.get(k, _MISSING)
def _ite_multi(c, fa, fb, cur):
    if isinstance(c, SI): c = (c != 0)
    if not isinstance(c, SB):
        return fa(*cur) if c else fb(*cur)
    ce = z3.simplify(c.e)
    if z3.is_true(ce): return fa(*cur)
    if z3.is_false(ce): return fb(*cur)
    a, b = fa(*cur), fb(*cur)
    if all(isinstance(x, (SI, int)) and not isinstance(x, bool) or isinstance(x, bool) for x in a + b):
        return tuple(_ite(SB(ce), (lambda x=x: x), (lambda y=y: y)) for x, y in zip(a, b))
    return a if symx.branch(ce) else b

def convert(fn):
    src = textwrap.dedent(inspect.getsource(fn))
    tree = ast.parse(src)
    tree = T().visit(tree); ast.fix_missing_locations(tree)
    g = fn.__globals__
    ns = {}
    g2 = dict(g); g2.update(__ite__=_ite, __ite_multi__=_ite_multi, __getlocal__=_getlocal)
    exec(compile(tree, f"<ifconv {fn.__name__}>", "exec"), g2, ns)
    return ns[fn.__name__]
