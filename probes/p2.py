from shim import PyBytesIO
import buidl.script, buidl.helper, buidl.bech32, buidl.pecc
from buidl.helper import encode_varint, read_varint, encode_varstr, read_varstr
from buidl.op import encode_num, decode_num
from buidl.script import Script
from buidl.bech32 import cbor_encode, cbor_decode
buidl.script.BytesIO = PyBytesIO
buidl.bech32.BytesIO = PyBytesIO
buidl.pecc.BytesIO = PyBytesIO

def varint_rt(i: int) -> int:
    """
    pre: 0 <= i < 2**64
    post: _ == i
    """
    return read_varint(PyBytesIO(encode_varint(i)))

def varint_width(i: int) -> bytes:
    """
    pre: 0 <= i < 2**64
    post: len(_) == (1 if i < 0xfd else 3 if i <= 0xffff else 5 if i <= 0xffffffff else 9)
    """
    return encode_varint(i)

def num_rt(n: int) -> int:
    """
    pre: -2**31 < n < 2**31
    post: _ == n
    """
    return decode_num(encode_num(n))

def script_rt(raw: bytes) -> bytes:
    """
    pre: len(raw) <= 5
    post: _ == raw
    """
    return Script.parse(raw=raw).raw_serialize()

def cbor_rt(data: bytes) -> bytes:
    """
    pre: len(data) <= 30
    post: _ == data
    """
    return cbor_decode(cbor_encode(data))
