import sys, time
sys.path.insert(0, "/tmp/probe")
import z3, symx2 as symx, symx3, loader
from symx2 import SI, Node
from symx3 import SBytes
loader.install()
from buidl.timelock import Locktime, Sequence
from buidl.tx import Tx, TxIn, TxOut
from buidl.script import P2WPKHScriptPubKey, P2PKHScriptPubKey, Script
from buidl.helper import int_to_little_endian, hash256, encode_varint
print("Locktime class bases:", Locktime.__mro__[:3])
symx.CTX = symx.Ctx()
lt = Locktime(SI.var("lt", 32)); print("sym locktime ser:", lt.serialize(), "concrete:", Locktime(5).serialize(), Locktime(5) < 7)
# concrete agreement: real-loaded module vs shim-loaded on a concrete tx
def build(n_in, n_out, sym=True, tag=""):
    ins = []
    for i in range(n_in):
        ti = TxIn(SBytes.sym(f"{tag}ptx{i}_", 32), SI.var(f"{tag}pidx{i}", 32), sequence=SI.var(f"{tag}seq{i}", 32))
        ti._value = SI.var(f"{tag}val{i}", 63); ti._script_pubkey = P2WPKHScriptPubKey(SBytes.sym(f"{tag}h{i}_", 20))
        ins.append(ti)
    outs = [TxOut(SI.var(f"{tag}amt{j}", 63), P2PKHScriptPubKey(SBytes.sym(f"{tag}oh{j}_", 20))) for j in range(n_out)]
    return Tx(SI.var(f"{tag}ver", 32), ins, outs, SI.var(f"{tag}lock", 32), segwit=True)

def cat(parts):
    r = b""
    for p in parts: r = r + p
    return r

def spec_bip143(tx, idx, ht):
    ZERO = b"\x00" * 32
    ti = tx.tx_ins[idx]
    acp = ht & 0x80; base = ht & 0x1f
    def ser_out(o): return int_to_little_endian(o.amount, 8) + o.script_pubkey.serialize()
    if not acp:
        hp = hash256(cat(t.prev_tx[::-1] + int_to_little_endian(t.prev_index, 4) for t in tx.tx_ins))
    else: hp = ZERO
    if not acp and base not in (2, 3):
        hs = hash256(cat(int_to_little_endian(t.sequence, 4) for t in tx.tx_ins))
    else: hs = ZERO
    if base not in (2, 3): ho = hash256(cat(ser_out(o) for o in tx.tx_outs))
    elif base == 3 and idx < len(tx.tx_outs): ho = hash256(ser_out(tx.tx_outs[idx]))
    else: ho = ZERO
    sc = b"\x19\x76\xa9\x14" + ti._script_pubkey.commands[1] + b"\x88\xac"
    pre = (int_to_little_endian(tx.version, 4) + hp + hs + ti.prev_tx[::-1] + int_to_little_endian(ti.prev_index, 4) + sc
           + int_to_little_endian(ti._value, 8) + int_to_little_endian(ti.sequence, 4) + ho + int_to_little_endian(tx.locktime, 4) + int_to_little_endian(ht, 4))
    return hash256(pre)

from symx3 import HashShim
for (ni, no) in [(1, 1), (2, 2)]:
    for ht in (1, 2, 3, 0x81, 0x83):
        for idx in range(ni):
            t0 = time.time()
            tx = build(ni, no)
            def run(): return tx.sig_hash_bip143(idx, hash_type=ht)
            paths = symx.explore(run)
            out = []
            for pc, res in paths:
                if res[0] != "ok": out.append(("exc", type(res[1]).__name__, str(res[1])[:50])); continue
                got = res[1]
                exp = symx3.IntShim.from_bytes(spec_bip143(tx, idx, ht), "big") if False else loader.IntShim.from_bytes(spec_bip143(tx, idx, ht), "big")
                s = z3.Solver(); s.set("timeout", 30000); s.add(*pc)
                s.add(got.bv(256) != exp.bv(256))
                out.append(str(s.check()))
            print(f"in={ni} out={no} ht={ht:#x} idx={idx}: paths={len(paths)} -> {out} {time.time()-t0:.2f}s", flush=True)
