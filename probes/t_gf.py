import sys, time
sys.path.insert(0, "/repo")
import z3
from buidl.shamir import ShareSet
exp, log2 = ShareSet.exp, ShareSet.log2
def tab(t, idx, w):
    e = z3.BitVecVal(0, 8)
    for i in range(len(t) - 1, -1, -1): e = z3.If(idx == i, z3.BitVecVal(t[i], 8), e)
    return e
def gfmul(a, c):   # a: BV8 symbolic, c: python int ; AES/SLIP39 polynomial 0x11B
    r = z3.BitVecVal(0, 8); x = a
    for i in range(8):
        if (c >> i) & 1: r = r ^ x
        hi = z3.Extract(7, 7, x)
        x = (x << 1) ^ z3.If(hi == 1, z3.BitVecVal(0x1B, 8), z3.BitVecVal(0, 8))
    return r
y = z3.BitVec("y", 8)
t0 = time.time(); worst = 0
for L in range(0, 255, 1):
    idx = z3.URem(z3.ZeroExt(2, tab(log2, y, 8)) + L, z3.BitVecVal(255, 10))
    impl = z3.If(y == 0, z3.BitVecVal(0, 8), tab(exp, idx, 10))
    s = z3.Solver(); s.add(impl != gfmul(y, exp[L % 255]))
    tq = time.time(); r = s.check(); worst = max(worst, time.time() - tq)
    assert str(r) == "unsat", (L, r)
print("255 per-constant lemmas unsat; worst", f"{worst:.2f}s total {time.time()-t0:.1f}s")
