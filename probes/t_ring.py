import sys; sys.path.insert(0, "/tmp/probe")
from ring import RF, Poly
N = 0xFFFFFFFFFFFFFFFFFFFFFFFFFFFFFFFEBAAEDCE6AF48A03BBFD25E8CD0364141
A = lambda n: RF.atom(n, N)
z, r, d, k = A("z"), A("r"), A("d"), A("k")
# ECDSA: s = (z + r d)/k ; verify: u = z/s, v = r/s ; u + v d == k ?
s = (z + r * d) * k.inv()
u = z * s.inv(); v = r * s.inv()
print("ecdsa completeness (real N, rational-function identity):", (u + v * d) == k)
print("low-s variant: N - s:", ((z * (-s).inv()) + (r * (-s).inv()) * d) == -k, "(verifies with -k: X(-k)=X(k))")
# schnorr: s = k + e d ; s - e d == k
e = A("e"); ss = k + e * d
print("schnorr:", (ss - e * d) == k, " mutant s=k-e*d:", ((k - e * d) - e * d) == k)
# musig 2 keys: P = a1 d1 + d2 ; s1 = k1 + c a1 d1 ; s2 = k2 + c d2 ; s1+s2 - c P == k1+k2
a1, d1, d2, k1, k2, c = A("a1"), A("d1"), A("d2"), A("k1"), A("k2"), A("c")
P = a1 * d1 + d2
print("musig2:", ((k1 + c * a1 * d1) + (k2 + c * d2) - c * P) == (k1 + k2))
