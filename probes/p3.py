from typing import List
from buidl.helper import murmur3, bits_to_target, target_to_bits
from buidl.bech32 import bech32_polymod, convertbits, group_32
from buidl.compactfilter import hash_to_range

def ref_murmur(data: bytes, seed: int) -> int:
    M = 0xFFFFFFFF
    def rotl(x, r): return ((x << r) | (x >> (32 - r))) & M
    h = seed & M
    n = len(data)
    for i in range(0, n - n % 4, 4):
        k = data[i] | data[i+1] << 8 | data[i+2] << 16 | data[i+3] << 24
        k = (k * 0xCC9E2D51) & M; k = rotl(k, 15); k = (k * 0x1B873593) & M
        h ^= k; h = rotl(h, 13); h = (h * 5 + 0xE6546B64) & M
    k = 0; t = n - n % 4; r = n % 4
    if r == 3: k ^= data[t+2] << 16
    if r >= 2: k ^= data[t+1] << 8
    if r >= 1:
        k ^= data[t]; k = (k * 0xCC9E2D51) & M; k = rotl(k, 15); k = (k * 0x1B873593) & M; h ^= k
    h ^= n
    h ^= h >> 16; h = (h * 0x85EBCA6B) & M; h ^= h >> 13; h = (h * 0xC2B2AE35) & M; h ^= h >> 16
    return h

def murmur_eq(data: bytes, seed: int) -> bool:
    """
    pre: len(data) <= 5 and 0 <= seed < 2**32
    post: _
    """
    return murmur3(data, seed) == ref_murmur(data, seed)

def polymod_2err(e1: int, e2: int, i: int, j: int) -> int:
    """
    pre: 0 <= e1 < 32 and 0 <= e2 < 32 and (e1 != 0 or e2 != 0) and 0 <= i < j < 20
    post: _ != 1
    """
    v = [0]*20
    v[i] = e1; v[j] = e2
    return bech32_polymod(v) ^ bech32_polymod([0]*20) ^ 1

def convertbits_rt(data: bytes) -> bool:
    """
    pre: len(data) <= 4
    post: _
    """
    d5 = convertbits(data, 8, 5)
    back = convertbits(d5, 5, 8, False)
    return back is not None and bytes(back) == data

def h2r(h: int, f: int) -> int:
    """
    pre: 0 <= h < 2**64 and 0 < f < 2**40
    post: 0 <= _ < f
    """
    return h * f >> 64
