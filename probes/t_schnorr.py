import sys, time
sys.path.insert(0, "/tmp/probe")
import z3, symx2 as symx, symx3, loader, symint
from symx2 import SI, Node, SB
from symx3 import SBytes, norm
from symint import to_int, ivar, uf_val
loader.install()
symint.enable_int_mode()
import buidl.pecc as pecc
import buidl.phash as phash
N = pecc.N
PRE = []
Xf = z3.Function("X", z3.IntSort(), z3.IntSort()); PARf = z3.Function("par", z3.IntSort(), z3.IntSort())
class FNum:
    def __init__(self, num): self.num = num
class AP(pecc.S256Point):
    """abstract point d*G; only the group-law mechanisms are replaced"""
    def __init__(self, d):
        self.d = d % N if isinstance(d, (int, SI)) else d
        dd = to_int(SI.lift(self.d))
        nd = (N - dd) % N
        PRE.append(z3.And(Xf(dd) >= 1, Xf(dd) < pecc.P, Xf(nd) == Xf(dd), PARf(dd) >= 0, PARf(dd) <= 1,
                          z3.Implies(dd != 0, PARf(nd) == 1 - PARf(dd))))
        symx.CTX.solver.add(PRE[-1])
    def is_inf(self): return bool(self.d == 0)
    @property
    def x(self): return None if self.is_inf() else FNum(SI(Node("uf", (Xf(to_int(SI.lift(self.d))),), 1, pecc.P - 1)))
    @property
    def parity(self):
        if self.is_inf(): raise AttributeError("parity")
        return SI(Node("uf", (PARf(to_int(SI.lift(self.d))),), 0, 1))
    def __rmul__(self, c): return AP((c % N) * self.d)
    def __add__(self, o):
        if isinstance(o, (int, SI)): o = o * pecc.G
        return AP(self.d + o.d)
    def __eq__(self, o): return self.d == o.d
pecc.G = AP(1)

def run_case(name, fn):
    t0 = time.time()
    paths = symx.explore(fn, pre=PRE_BASE)
    res = []
    for pc, r in paths:
        res.append(r if r[0] == "ok" else ("exc", type(r[1]).__name__, str(r[1])[:80]))
    print(name, "paths", len(paths), res, "queries", symx.CTX.queries, "unknown-feasibility", getattr(symx.CTX,"unknown",0), f"{time.time()-t0:.2f}s", flush=True)

# ---- O2: verify_schnorr == BIP340 verify (sig.s in [0,N), R abstract point (non-inf), P abstract point)
PRE_BASE = []
p = ivar("p", 1, N - 1, PRE_BASE); r = ivar("r", 1, N - 1, PRE_BASE); s = ivar("s", 0, N - 1, PRE_BASE)
msg = SBytes.sym("m", 32)
def lift_even(d):
    P = AP(d)
    return AP(N - P.d) if P.parity else P        # forks on parity, shared with the impl's path
def verify_case():
    symx.CTX.solver.add(*PRE)
    P = AP(p); R = AP(r)
    sig = pecc.SchnorrSignature(R, s)
    n0 = len(symint.HASH_LOG)
    got = P.verify_schnorr(msg, sig)
    gotb = got if isinstance(got, bool) else bool(got)
    # ---- BIP340 verify, written independently, run in the same path
    Pe = lift_even(p)
    want_in = R.xonly() + Pe.xonly() + msg
    calls = symint.HASH_LOG[n0:]
    same_input = len(calls) == 1 and bool(calls[0][1] == (phash.TAG_HASH_CACHE[b"BIP0340/challenge"] + want_in))
    e = calls[0][2] % N
    Rp = AP(s - e * Pe.d)
    spec = (not Rp.is_inf()) and (not bool(Rp.parity)) and bool(Rp.x.num == R.x.num)
    return (gotb, spec, same_input)
run_case("verify_schnorr==spec", verify_case)
