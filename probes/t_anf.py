import sys, time, itertools
sys.path.insert(0, "/repo")
import z3, symx2 as symx, anf
from symx2 import SI, Node
import ifconv
import buidl.bech32 as b32
polymod = ifconv.convert(b32.bech32_polymod)
L = int(sys.argv[1])
symx.CTX = symx.Ctx()
def mk(bvs): return [SI(Node("var", (b, 5), 0, 31)) for b in bvs]
a = [z3.BitVec(f"a{i}", 5) for i in range(L)]; b = [z3.BitVec(f"b{i}", 5) for i in range(L)]
t0 = time.time()
A, B = mk(a), mk(b)
pa = anf.anf(polymod(A).n, 30); pb = anf.anf(polymod(B).n, 30)
pab = anf.anf(polymod([x ^ y for x, y in zip(A, B)]).n, 30)
p0 = polymod([0] * L)
lhs = [x ^ y ^ z ^ ((p0 >> i) & 1) for i, (x, y, z) in enumerate(zip(pa, pb, pab))]
print("affine lemma L", L, "all-zero ANF:", all(v == 0 for v in lhs), f"{time.time()-t0:.2f}s")
# single-position syndromes as ANF in 5 bits each
t0 = time.time()
e = [z3.BitVec(f"e", 5)]
E = SI(Node("var", (e[0], 5), 0, 31))
syn = []
for i in range(L):
    v = [0] * L; v[i] = E
    s = anf.anf(polymod(v).n, 30)
    syn.append([x ^ ((p0 >> j) & 1) for j, x in enumerate(s)])
print("syndrome forms", f"{time.time()-t0:.2f}s")
# pair queries in z3: syn_i(e1) ^ syn_j(e2) in {0, C}
def to_z3(mask, ev):
    bits = []
    for idx in range(1, len(anf.ATOM_LIST)):
        if (mask >> idx) & 1:
            v, bi = anf.ATOM_LIST[idx]
            if v.get_id() == e[0].get_id(): bits.append(z3.Extract(bi, bi, ev))
            else: raise RuntimeError("foreign atom")
    r = z3.BitVecVal(mask & 1, 1)
    for bbit in bits: r = r ^ bbit
    return r
e1, e2 = z3.BitVec("e1", 5), z3.BitVec("e2", 5)
C = 1 ^ 0x2bc830a3
t0 = time.time(); bad = []; nq = 0
S1 = [z3.Concat(*reversed([to_z3(m, e1) for m in syn[i]])) for i in range(L)]
S2 = [z3.Concat(*reversed([to_z3(m, e2) for m in syn[i]])) for i in range(L)]
s = z3.Solver()
for i, j in itertools.combinations(range(L), 2):
    s.push(); x = S1[i] ^ S2[j]
    s.add(z3.Or(e1 != 0, e2 != 0), z3.Or(x == 0, x == C)); nq += 1
    r = s.check()
    if str(r) != "unsat": bad.append((i, j, str(r), s.model()))
    s.pop()
print("pair queries", nq, f"{time.time()-t0:.1f}s", "bad", bad[:3])
