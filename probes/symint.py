"""prototype: Int (LIA) lowering for symx2 nodes + abstract prime-order group over the real S256Point"""
import z3, symx2 as symx
from symx2 import SI, SB, Node, const
XOR = z3.Function("xor_int", z3.IntSort(), z3.IntSort(), z3.IntSort())
def to_int(n, memo=None):
    if memo is None: memo = TOINT
    r = memo.get(id(n))
    if r is not None: return r
    op, a = n.op, n.args
    if op == "const": r = z3.IntVal(a[0])
    elif op == "ivar": r = a[0]
    elif op == "var": r = z3.BV2Int(a[0], is_signed=False)
    elif op == "add": r = to_int(a[0]) + to_int(a[1])
    elif op == "sub": r = to_int(a[0]) - to_int(a[1])
    elif op == "neg": r = -to_int(a[0])
    elif op == "mul": r = to_int(a[0]) * to_int(a[1])
    elif op == "shl": r = to_int(a[0]) * (1 << a[1])
    elif op == "shr": r = to_int(a[0]) / (1 << a[1])          # z3 Int div = floor for positive divisor
    elif op == "mod": r = to_int(a[0]) % a[1]
    elif op == "div": r = to_int(a[0]) / a[1]
    elif op == "and":
        c, o = (a[0], a[1]) if a[0].op == "const" else (a[1], a[0])
        assert c.op == "const" and c.args[0] >= 0 and (c.args[0] & (c.args[0] + 1)) == 0, "and with non-mask"
        r = to_int(o) % (c.args[0] + 1)
    elif op == "xor": r = XOR(to_int(a[0]), to_int(a[1]))
    elif op == "or":
        assert symx.nz(a[0], 600) & symx.nz(a[1], 600) == 0, "or with overlapping support"
        r = to_int(a[0]) + to_int(a[1])
    elif op == "ite": r = z3.If(a[0], to_int(a[1]), to_int(a[2]))
    elif op == "uf": r = a[0]
    else: raise NotImplementedError(op)
    memo[id(n)] = r
    KEEP.append(n)
    return r
TOINT = {}; KEEP = []
def ivar(name, lo, hi, pre):
    v = z3.Int(name); pre.append(z3.And(v >= lo, v <= hi))
    return SI(Node("ivar", (v,), lo, hi))
def uf_val(expr, lo, hi, pre):
    pre.append(z3.And(expr >= lo, expr <= hi))
    return SI(Node("uf", (expr,), lo, hi))
# switch comparisons to Int lowering
def _cmp_int(s, o, f):
    a, b = s.n, SI.lift(o)
    if a.op == "const" and b.op == "const":
        return {"lt": a.args[0] < b.args[0], "le": a.args[0] <= b.args[0], "eq": a.args[0] == b.args[0], "ne": a.args[0] != b.args[0], "gt": a.args[0] > b.args[0], "ge": a.args[0] >= b.args[0]}[f]
    x, y = to_int(a), to_int(b)
    return SB({"lt": x < y, "le": x <= y, "eq": x == y, "ne": x != y, "gt": x > y, "ge": x >= y}[f])
def enable_int_mode():
    SI.__eq__ = lambda s, o: _cmp_int(s, o, "eq") if isinstance(o, (SI, int)) else False
    SI.__ne__ = lambda s, o: _cmp_int(s, o, "ne") if isinstance(o, (SI, int)) else True
    SI.__lt__ = lambda s, o: _cmp_int(s, o, "lt"); SI.__le__ = lambda s, o: _cmp_int(s, o, "le")
    SI.__gt__ = lambda s, o: _cmp_int(s, o, "gt"); SI.__ge__ = lambda s, o: _cmp_int(s, o, "ge")
    SI.__hash__ = lambda s: id(s)
    _mul = SI.__mul__
    def mul(s, o):
        if not isinstance(o, (SI, int)): return NotImplemented
        return _mul(s, o)
    SI.__mul__ = mul; SI.__rmul__ = mul
    _mod = SI.__mod__
    def mod(s, m):
        if s.n.lo >= 0 and s.n.hi < m: return s
        return SI.mk("mod", (s.n, m), 0, m - 1)
    SI.__mod__ = mod
    SI.__rmod__ = lambda s, o: NotImplemented

import symx3
from symx3 import SBytes, norm
import hashlib as _hashlib
_UFI = {}
def _digest_int(self):
    d = norm(self.data) if isinstance(self.data, SBytes) else self.data
    if isinstance(d, (bytes, bytearray)):
        return _hashlib.new(self.h.name, d).digest()
    n = len(d); L = self.h.outlen
    args = [to_int(SI.lift(x)) for x in d]
    key0 = (self.h.name, n)
    if key0 not in _UFI:
        _UFI[key0] = [z3.Function(f"{self.h.name}_{n}_{j}", *([z3.IntSort()] * n), z3.IntSort()) for j in range(L)]
    out = []
    for j in range(L):
        e = _UFI[key0][j](*args)
        symx.CTX.solver.add(z3.And(e >= 0, e <= 255)); HASH_RANGE.append(z3.And(e >= 0, e <= 255))
        out.append(SI(Node("uf", (e,), 0, 255)))
    return SBytes(out)
HASH_RANGE = []
symx3._H.digest = _digest_int

# --- provenance-carrying bytes: hash outputs are slices of one fresh Int; from_bytes(to_bytes(x)) == x peephole
PROV = {}      # id(SI byte) -> (source SI, index from LSB, total)
HASH_LOG = []  # (name, input SBytes, output int SI)
_cnt = [0]
def _digest_prov(self):
    d = norm(self.data) if isinstance(self.data, SBytes) else self.data
    if isinstance(d, (bytes, bytearray)):
        return _hashlib.new(self.h.name, d).digest()
    L = self.h.outlen
    # hash-consing on structurally equal inputs (checked by solver-free syntactic compare of z3 terms)
    sig = (self.h.name, tuple(to_int(SI.lift(x)).get_id() for x in d))
    for s0, out, src0 in _CONS:
        if s0 == sig:
            HASH_LOG.append((self.h.name, d, src0)); return out
    _cnt[0] += 1
    E = z3.Int(f"H{_cnt[0]}_{self.h.name}")
    symx.CTX.solver.add(z3.And(E >= 0, E < (1 << (8 * L)))); HASH_RANGE.append(z3.And(E >= 0, E < (1 << (8 * L))))
    src = SI(Node("ivar", (E,), 0, (1 << (8 * L)) - 1))
    items = []
    for i in range(L):           # big-endian output bytes
        b = (src >> (8 * (L - 1 - i))) & 0xFF
        PROV[id(b)] = (src, L - 1 - i, L); KEEPB.append(b)
        items.append(b)
    out = SBytes(items)
    HASH_LOG.append((self.h.name, d, src)); _CONS.append((sig, out, src))
    return out
_CONS = []; KEEPB = []
symx3._H.digest = _digest_prov
_fb = symx3.IntShim.from_bytes
def _from_bytes(b, order="big", signed=False):
    items = list(b)
    if items and all(id(x) in PROV for x in items):
        src, _, tot = PROV[id(items[0])]
        idxs = [PROV[id(x)][1] for x in items]
        want = list(range(tot - 1, -1, -1)) if order == "big" else list(range(tot))
        if all(PROV[id(x)][0] is src for x in items) and idxs == want: return src
    return _fb(b, order, signed)
import loader as _loader
_loader.IntShim.from_bytes = staticmethod(_from_bytes)
_tb = SI.to_bytes
def _to_bytes_prov(s, length, order="big", signed=False):
    r = _tb(s, length, order, signed)
    if isinstance(r, SBytes) and isinstance(s, SI):
        its = r.items if order == "little" else r.items[::-1]
        for i, b in enumerate(its):
            if isinstance(b, SI): PROV[id(b)] = (s, i, length); KEEPB.append(b)
    return r
SI.to_bytes = _to_bytes_prov
