import sys, time
sys.path.insert(0, "/repo")
import z3
import symx2 as symx
from symx2 import SI
from buidl.helper import murmur3

M = 0xFFFFFFFF
def ref_murmur_bv(data, seed):
    # data: list of 8-bit BV exprs, seed: 32-bit BV; canonical MurmurHash3_x86_32
    def rotl(x, r): return z3.RotateLeft(x, r)
    def b32(b): return z3.ZeroExt(24, b)
    h = seed
    n = len(data)
    c1 = z3.BitVecVal(0xCC9E2D51, 32); c2 = z3.BitVecVal(0x1B873593, 32)
    for i in range(0, n - n % 4, 4):
        k = b32(data[i]) | (b32(data[i+1]) << 8) | (b32(data[i+2]) << 16) | (b32(data[i+3]) << 24)
        k = k * c1; k = rotl(k, 15); k = k * c2
        h = h ^ k; h = rotl(h, 13); h = h * 5 + z3.BitVecVal(0xE6546B64, 32)
    k = z3.BitVecVal(0, 32); t = n - n % 4; r = n % 4
    if r == 3: k = k ^ (b32(data[t+2]) << 16)
    if r >= 2: k = k ^ (b32(data[t+1]) << 8)
    if r >= 1:
        k = k ^ b32(data[t]); k = k * c1; k = rotl(k, 15); k = k * c2; h = h ^ k
    h = h ^ z3.BitVecVal(n, 32)
    h = h ^ z3.LShR(h, 16); h = h * z3.BitVecVal(0x85EBCA6B, 32); h = h ^ z3.LShR(h, 13); h = h * z3.BitVecVal(0xC2B2AE35, 32); h = h ^ z3.LShR(h, 16)
    return h

for n in range(0, int(sys.argv[1]) + 1):
    t0 = time.time()
    bvs = [z3.BitVec(f"d{i}", 8) for i in range(n)]
    sbv = z3.BitVec("seed", 32)
    data = [SI(symx.Node("var", (b, 8), 0, 255)) for b in bvs]
    seed = SI(symx.Node("var", (sbv, 32), 0, M))
    paths = symx.explore(lambda: murmur3(data, seed))
    assert len(paths) == 1
    pc, res = paths[0]
    ref = ref_murmur_bv(bvs, sbv)
    s = z3.Solver()
    assert res[0] == "ok", res
    res = res[1]
    assert res.lo >= 0 and res.hi <= M, (res.lo, res.hi)
    s.add(res.bv(32) != ref)
    r = s.check()
    print(n, r,  f"{time.time()-t0:.2f}s")
