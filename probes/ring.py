"""prototype: canonical rational functions over GF(N) (N prime) for discrete-log scalars"""
class Poly:
    __slots__ = ("t", "N")
    def __init__(self, t, N):
        self.N = N; self.t = {m: c % N for m, c in t.items() if c % N}
    @staticmethod
    def const(c, N): return Poly({(): c}, N)
    @staticmethod
    def atom(a, N): return Poly({((a, 1),): 1}, N)
    def __add__(s, o):
        t = dict(s.t)
        for m, c in o.t.items(): t[m] = t.get(m, 0) + c
        return Poly(t, s.N)
    def __neg__(s): return Poly({m: -c for m, c in s.t.items()}, s.N)
    def __sub__(s, o): return s + (-o)
    def __mul__(s, o):
        t = {}
        for m1, c1 in s.t.items():
            for m2, c2 in o.t.items():
                d = dict(m1)
                for a, e in m2: d[a] = d.get(a, 0) + e
                m = tuple(sorted(d.items()))
                t[m] = (t.get(m, 0) + c1 * c2) % s.N
        return Poly(t, s.N)
    def is_zero(s): return not s.t
    def is_const(s): return all(m == () for m in s.t)
    def key(s): return tuple(sorted(s.t.items()))
    def atoms(s): return {a for m in s.t for a, _ in m}
    def eval(s, env):
        r = 0
        for m, c in s.t.items():
            v = c
            for a, e in m: v = v * pow(env[a], e, s.N) % s.N
            r = (r + v) % s.N
        return r
class RF:
    """num/den, den != 0 assumed (side condition collected by caller)"""
    def __init__(s, num, den=None):
        s.num = num; s.den = den if den is not None else Poly.const(1, num.N)
    @staticmethod
    def const(c, N): return RF(Poly.const(c, N))
    @staticmethod
    def atom(a, N): return RF(Poly.atom(a, N))
    def __add__(s, o): return RF(s.num * o.den + o.num * s.den, s.den * o.den)
    def __sub__(s, o): return RF(s.num * o.den - o.num * s.den, s.den * o.den)
    def __neg__(s): return RF(-s.num, s.den)
    def __mul__(s, o): return RF(s.num * o.num, s.den * o.den)
    def inv(s): return RF(s.den, s.num)
    def is_zero(s): return s.num.is_zero()
    def __eq__(s, o): return (s.num * o.den - o.num * s.den).is_zero()
    def key(s):
        # canonical only up to common factors: normalise so that comparisons go through __eq__; key used for atom naming via representative search
        return (s.num.key(), s.den.key())
