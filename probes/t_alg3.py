import z3, time, sys
def chk(name, s, to=100000):
    s.set("timeout", to); t0 = time.time(); r = s.check(); print(name, r, f"{time.time()-t0:.2f}s", flush=True); return r
for N in [13, 31, 61, 127]:
    W = 2 * N.bit_length() + 2
    z, r, kk, dd, kinv, sinv = [z3.BitVec(n, W) for n in "z r kk dd kinv sinv".split()]
    Nv = z3.BitVecVal(N, W)
    s = z3.Solver()
    for x in (z, r, kk, dd, kinv, sinv): s.add(z3.ULT(x, Nv))
    s.add(r != 0, kk != 0, dd != 0)
    mm = lambda a, b: z3.URem(a * b, Nv)
    s.add(mm(kk, kinv) == 1)
    ss = mm(z3.URem(z + mm(r, dd), Nv), kinv)
    s.add(ss != 0, mm(ss, sinv) == 1)
    u = mm(z, sinv); v = mm(r, sinv)
    tot = z3.URem(u + mm(v, dd), Nv)
    s.add(tot != kk)
    chk(f"ecdsa BV N={N}", s)
