import sys, time, itertools
sys.path.insert(0, "/repo")
import z3, symx2 as symx
from symx2 import SI, Node
import ifconv
import buidl.bech32 as b32
polymod = ifconv.convert(b32.bech32_polymod)
L = int(sys.argv[1])
symx.CTX = symx.Ctx()
def mk(bvs): return [SI(Node("var", (b, 5), 0, 31)) for b in bvs]
a = [z3.BitVec(f"a{i}", 5) for i in range(L)]; b = [z3.BitVec(f"b{i}", 5) for i in range(L)]
t0 = time.time()
pa, pb = polymod(mk(a)), polymod(mk(b))
pab = polymod(mk([x ^ y for x, y in zip(a, b)]))
p0 = polymod([0] * L)
s = z3.Solver(); s.set("timeout", 120000)
s.add(pa.bv(30) ^ pb.bv(30) ^ pab.bv(30) ^ z3.BitVecVal(p0, 30) != 0)
print("affine lemma L", L, s.check(), f"{time.time()-t0:.1f}s", flush=True)
# syndrome queries: <=2 errors
t0 = time.time(); bad = []; nq = 0
e1, e2 = z3.BitVec("e1", 5), z3.BitVec("e2", 5)
C = 1 ^ 0x2bc830a3
for i, j in itertools.combinations(range(L), 2):
    v = [0] * L; v[i] = SI(Node("var", (e1, 5), 0, 31)); v[j] = SI(Node("var", (e2, 5), 0, 31))
    syn = polymod(v).bv(30) ^ z3.BitVecVal(p0, 30)
    s = z3.Solver(); s.add(z3.Or(e1 != 0, e2 != 0), z3.Or(syn == 0, syn == C)); nq += 1
    r = s.check()
    if str(r) != "unsat": bad.append((i, j, str(r), s.model()))
print("syndrome queries", nq, f"{time.time()-t0:.1f}s", "bad", bad[:5])
