import z3, time
N = 0xFFFFFFFFFFFFFFFFFFFFFFFFFFFFFFFEBAAEDCE6AF48A03BBFD25E8CD0364141
def chk(name, s, to=60000):
    s.set("timeout", to); t0 = time.time(); r = s.check(); print(name, r, f"{time.time()-t0:.2f}s", flush=True); return r
# Schnorr completeness in Int arithmetic, real N.  points = dlogs mod N
d, k, e = z3.Ints("d k e")
s = z3.Solver()
s.add(0 < d, d < N, 0 <= k, k < N, 0 <= e, e < N)
sig = (k + e * d) % N
# verify: result = (-e % N) * d % N  + sig   (point add of dlogs)  -> dlog
negeP = (((-e) % N) * d) % N
res = (negeP + sig) % N
s.add(res != k)
chk("schnorr Int realN", s)

# ECDSA completeness real N with inv axioms
z, r, kk, dd = z3.Ints("z r kk dd")
inv = z3.Function("inv", z3.IntSort(), z3.IntSort())
s = z3.Solver()
s.add(0 <= z, z < 2**256, 0 < r, r < N, 0 < kk, kk < N, 0 < dd, dd < N)
def ax(x): return z3.And(0 <= inv(x), inv(x) < N, z3.Implies(x % N != 0, (x * inv(x)) % N == 1))
kinv = inv(kk); s.add(ax(kk))
ss = ((z + r * dd) * kinv) % N
s.add(ss != 0)
sinv = inv(ss); s.add(ax(ss))
u = (z * sinv) % N; v = (r * sinv) % N
tot = (u + (v * dd) % N) % N
s.add(tot != kk)
chk("ecdsa Int realN", s, 60000)
