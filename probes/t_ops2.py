import sys, time, itertools
sys.path.insert(0, "/tmp/probe")
import z3, symx2 as symx, symx3, loader
from symx2 import SI, Node
from symx3 import SBytes, norm
loader.install()
import buidl.op as op
from buidl.script import Script, P2WPKHScriptPubKey, P2TRScriptPubKey
from buidl.tx import Tx, TxIn, TxOut
from buidl.witness import Witness

def model_bytes(m, sb):
    return bytes(m.eval(symx.low(b.n, 8), model_completion=True).as_long() if isinstance(b, SI) else b for b in sb)

# ---------- A. per-opcode conformance: op_2rot, op_pick vs consensus, symbolic lengths 0..2, depth 6 / 3
def cast_num(b):   # CScriptNum decode (<=4 bytes) as python over proxies
    return op.decode_num(b)   # NOTE: for the probe only; the real harness uses an independent decoder
def spec_2rot(st):
    if len(st) < 6: return None
    return st[:-6] + st[-4:] + st[-6:-4]
t0 = time.time(); bad = []; npaths = 0
for lens in itertools.product(range(0, 2), repeat=6):
    st0 = [SBytes.sym(f"e{i}_", L) if L else b"" for i, L in enumerate(lens)]
    def run():
        st = list(st0); ok = op.op_2rot(st)
        exp = spec_2rot(list(st0))
        if exp is None: return ok is False
        if not ok or len(st) != len(exp): return False
        return all(bool(a == b) for a, b in zip(st, exp))
    for pc, r in symx.explore(run):
        npaths += 1
        if r != ("ok", True):
            s = z3.Solver(); s.add(*pc); s.check(); bad.append((lens, r, [model_bytes(s.model(), x) if isinstance(x, SBytes) else x for x in st0])); break
    if bad: break
print("A op_2rot: paths", npaths, f"{time.time()-t0:.1f}s first violation:", bad[:1])

# ---------- B. attacker-chosen scriptSig / witness against P2WPKH and P2TR outputs
def mk(spk, script_sig, witness):
    ti = TxIn(b"\x11" * 32, 0, script_sig=script_sig); ti._value = 1000; ti._script_pubkey = spk; ti.witness = witness
    return Tx(2, [ti], [TxOut(900, P2WPKHScriptPubKey(b"\x22" * 20))], 0, segwit=True)
t0 = time.time(); hits = []
spk = P2WPKHScriptPubKey(SBytes.sym("h", 20))
for L in (0, 1, 2):
    item = SBytes.sym("a", L) if L else b""
    def run():
        tx = mk(spk, Script([item]), Witness([]))
        try: return tx.verify_input(0)
        except Exception as e: return ("exc", type(e).__name__)
    for pc, r in symx.explore(run):
        if r == ("ok", True):
            s = z3.Solver(); s.add(*pc); s.check(); hits.append(("p2wpkh scriptSig push", model_bytes(s.model(), item) if L else b""))
print("B p2wpkh, scriptSig=[1 attacker push], empty witness: accepted for", hits[:3], f"{time.time()-t0:.1f}s")
t0 = time.time(); hits = []
spk = P2TRScriptPubKey(SBytes.sym("q", 32))
for L in (1, 2):
    item = SBytes.sym("w", L)
    def run():
        tx = mk(spk, Script(), Witness([item]))
        try: return tx.verify_input(0)
        except Exception as e: return ("exc", type(e).__name__)
    outs = []
    for pc, r in symx.explore(run):
        outs.append(r[1] if r[0] == "ok" else ("EXC", type(r[1]).__name__))
        if r == ("ok", True):
            s = z3.Solver(); s.add(*pc); s.check(); hits.append(("p2tr witness item", model_bytes(s.model(), item)))
    print("   L", L, "outcomes", outs)
print("B p2tr, witness=[1 attacker item]: accepted for", hits[:3], f"{time.time()-t0:.1f}s")
