"""prototype 3: SBytes, builtin shims, UF hashing on top of symx2"""
import z3, builtins, io, hashlib as _hashlib
import symx2 as symx
from symx2 import SI, SB, Node, low, branch

def is_sym(x): return isinstance(x, SI)

def concretize(x, what="value"):
    """fork over feasible values of SI x (solver-chosen enumeration); candidates are recorded per decision index so replays are deterministic"""
    if not isinstance(x, SI): return x
    c = symx.CTX
    if not hasattr(c, "cand"): c.cand = {}
    w = x.n.W
    while True:
        if c.pos in c.cand and c.pos < len(c.decisions):
            v = c.cand[c.pos]
        else:
            c.queries += 1
            c.solver.push(); c.solver.add(*c.pc); r = c.solver.check()
            if r != z3.sat:
                c.solver.pop(); raise RuntimeError(f"concretize: no feasible value ({r})")
            v = c.solver.model().eval(low(x.n, w), model_completion=True).as_signed_long(); c.solver.pop()
            c.cand[c.pos] = v
        if branch(low(x.n, w) == z3.BitVecVal(v, w)):
            return v
SI.__index__ = lambda s: concretize(s)

class SBytes:
    def __init__(self, items=()): self.items = [i for i in items]
    @staticmethod
    def sym(name, n): return SBytes([SI.var(f"{name}{i}", 8) for i in range(n)])
    def __len__(self): return len(self.items)
    def __iter__(self): return iter(self.items)
    def __getitem__(self, k):
        if isinstance(k, slice):
            k = slice(*(concretize(v) if v is not None else None for v in (k.start, k.stop, k.step)))
            return SBytes(self.items[k])
        return self.items[concretize(k)]
    def __add__(self, o):
        if isinstance(o, (bytes, bytearray, SBytes)): return SBytes(self.items + list(o))
        return NotImplemented
    def __radd__(self, o):
        if isinstance(o, (bytes, bytearray)): return SBytes(list(o) + self.items)
        return NotImplemented
    def __mul__(self, n): return SBytes(self.items * n)
    def _eq(self, o):
        if not isinstance(o, (bytes, bytearray, SBytes)): return False
        o = list(o)
        if len(o) != len(self.items): return False
        conds = []
        for a, b in zip(self.items, o):
            if isinstance(a, SI) or isinstance(b, SI):
                e = (a == b) if isinstance(a, SI) else (b == a)
                conds.append(e.e)
            elif a != b: return False
        if not conds: return True
        return SB(z3.And(*conds))
    def __eq__(self, o): return self._eq(o)
    def __ne__(self, o):
        r = self._eq(o)
        return SB(z3.Not(r.e)) if isinstance(r, SB) else (not r)
    def __hash__(self): raise TypeError("unhashable symbolic bytes")
    def __bool__(self): return len(self.items) > 0
    def hex(self): return SHex(self)
    def concrete(self):
        return bytes(self.items) if all(isinstance(i, int) for i in self.items) else None
    def __repr__(self): return f"SBytes(len={len(self.items)})"
    def bv(self):
        parts = [ (low(i.n, 8) if isinstance(i, SI) else z3.BitVecVal(i, 8)) for i in self.items]
        return parts[0] if len(parts) == 1 else z3.Concat(*parts)

def norm(b):
    """collapse fully concrete SBytes to bytes"""
    if isinstance(b, SBytes):
        c = b.concrete()
        return c if c is not None else b
    return b

class SHex:
    def __init__(self, b): self.b = b

class _IntMeta(type):
    def __instancecheck__(cls, x): return isinstance(x, (builtins.int, SI))
class IntShim(metaclass=_IntMeta):
    def __new__(cls, x=0, base=None):
        if isinstance(x, SHex):
            assert base == 16
            return IntShim.from_bytes(x.b, "big")
        if isinstance(x, SI): return x
        return builtins.int(x) if base is None else builtins.int(x, base)
    @staticmethod
    def from_bytes(b, order="big", signed=False):
        if isinstance(b, (bytes, bytearray)): return builtins.int.from_bytes(b, order)
        items = list(b)
        if order == "big": items = items[::-1]
        v = 0
        for i, x in enumerate(items): v = v | (x << (8 * i))
        return v

def _to_bytes(s, length, order="big", signed=False):
    out = [ (s >> (8 * i)) & 0xFF for i in range(length)]
    # overflow -> OverflowError like real ints
    if (s >> (8 * length)) != 0 if not isinstance((s >> (8*length)), SI) else bool((s >> (8 * length)) != 0):
        raise OverflowError("int too big to convert")
    if order == "big": out = out[::-1]
    return norm(SBytes(out))
SI.to_bytes = _to_bytes

class _BytesMeta(type):
    def __instancecheck__(cls, x): return isinstance(x, (builtins.bytes, SBytes))
class BytesShim(metaclass=_BytesMeta):
    def __new__(cls, x=b"", *a):
        if isinstance(x, builtins.int): return builtins.bytes(x)
        if isinstance(x, (builtins.bytes, bytearray)): return builtins.bytes(x)
        if isinstance(x, SBytes): return norm(x)
        items = list(x)
        for i in items:
            if isinstance(i, SI):
                if bool(i < 0) or bool(i > 255): raise ValueError("bytes must be in range(0, 256)")
            elif not 0 <= i <= 255: raise ValueError("bytes must be in range(0, 256)")
        return norm(SBytes(items))
    fromhex = staticmethod(builtins.bytes.fromhex)

class BytesIOShim:
    def __init__(self, initial=b""): self._b = initial; self._p = 0
    def read(self, n=-1):
        if n is None or (not isinstance(n, SI) and n < 0):
            r = self._b[self._p:]; self._p = len(self._b); return norm(r) if isinstance(r, SBytes) else r
        n = concretize(n)
        r = self._b[self._p:self._p + n]; self._p += len(r)
        return norm(r) if isinstance(r, SBytes) else r
    def seek(self, off, whence=0):
        if whence == 0: self._p = off
        elif whence == 1: self._p += off
        else: self._p = len(self._b) + off
        return self._p
    def tell(self): return self._p

_UF = {}
class HashShim:
    """hash function as uninterpreted function on symbolic input, real on concrete input"""
    calls = []
    def __init__(self, name, outlen): self.name = name; self.outlen = outlen
    def __call__(self, data=b""):
        return _H(self, data)
class _H:
    def __init__(self, h, data): self.h = h; self.data = data
    def update(self, d): self.data = self.data + d; return self
    def digest(self):
        d = norm(self.data) if isinstance(self.data, SBytes) else self.data
        if isinstance(d, (bytes, bytearray)):
            return _hashlib.new(self.h.name, d).digest()
        n = len(d)
        key = (self.h.name, n)
        if key not in _UF:
            _UF[key] = z3.Function(f"{self.h.name}_{n}", z3.BitVecSort(8 * n), z3.BitVecSort(8 * self.h.outlen))
        out = _UF[key](d.bv())
        HashShim.calls.append((self.h.name, d))
        L = self.h.outlen
        return SBytes([SI(Node("var", (z3.Extract(8 * (L - i) - 1, 8 * (L - i - 1), out), 8), 0, 255)) for i in range(L)])
class HashlibShim:
    sha256 = HashShim("sha256", 32); sha1 = HashShim("sha1", 20); sha512 = HashShim("sha512", 64)
    @staticmethod
    def new(name, data=b""): return _H(HashShim(name, _hashlib.new(name).digest_size), data)

def install(mod, **extra):
    mod.int = IntShim; mod.bytes = BytesShim
    if hasattr(mod, "BytesIO"): mod.BytesIO = BytesIOShim
    if hasattr(mod, "hashlib"): mod.hashlib = HashlibShim
    for k, v in extra.items(): setattr(mod, k, v)
