def murmur3_m1(data, seed=0):
    """from http://stackoverflow.com/questions/13305290/is-there-a-pure-python-implementation-of-murmurhash"""
    c1 = 0xCC9E2D51
    c2 = 0x1B873593
    length = len(data)
    h1 = seed
    roundedEnd = length & 0xFFFFFFFC  # round down to 4 byte block
    for i in range(0, roundedEnd, 4):
        # little endian load order
        k1 = (
            (data[i] & 0xFF)
            | ((data[i + 1] & 0xFF) << 8)
            | ((data[i + 2] & 0xFF) << 16)
            | (data[i + 3] << 24)
        )
        k1 *= c1
        k1 = (k1 << 15) | ((k1 & 0xFFFFFFFF) >> 17)  # ROTL32(k1,15)
        k1 *= c2
        h1 ^= k1
        h1 = (h1 << 13) | ((h1 & 0xFFFFFFFF) >> 18)  # ROTL32(h1,13)
        h1 = h1 * 5 + 0xE6546B64
    # tail
    k1 = 0
    val = length & 0x03
    if val == 3:
        k1 = (data[roundedEnd + 2] & 0xFF) << 16
    # fallthrough
    if val in [2, 3]:
        k1 |= (data[roundedEnd + 1] & 0xFF) << 8
    # fallthrough
    if val in [1, 2, 3]:
        k1 |= data[roundedEnd] & 0xFF
        k1 *= c1
        k1 = (k1 << 15) | ((k1 & 0xFFFFFFFF) >> 17)  # ROTL32(k1,15)
        k1 *= c2
        h1 ^= k1
    # finalization
    h1 ^= length
    # fmix(h1)
    h1 ^= (h1 & 0xFFFFFFFF) >> 16
    h1 *= 0x85EBCA6B
    h1 ^= (h1 & 0xFFFFFFFF) >> 13
    h1 *= 0xC2B2AE35
    h1 ^= (h1 & 0xFFFFFFFF) >> 16
    return h1 & 0xFFFFFFFF



def murmur3_m2(data, seed=0):
    """from http://stackoverflow.com/questions/13305290/is-there-a-pure-python-implementation-of-murmurhash"""
    c1 = 0xCC9E2D51
    c2 = 0x1B873593
    length = len(data)
    h1 = seed
    roundedEnd = length & 0xFFFFFFFC  # round down to 4 byte block
    for i in range(0, roundedEnd, 4):
        # little endian load order
        k1 = (
            (data[i] & 0xFF)
            | ((data[i + 1] & 0xFF) << 8)
            | ((data[i + 2] & 0xFF) << 16)
            | (data[i + 3] << 24)
        )
        k1 *= c1
        k1 = (k1 << 15) | ((k1 & 0xFFFFFFFF) >> 17)  # ROTL32(k1,15)
        k1 *= c2
        h1 ^= k1
        h1 = (h1 << 13) | ((h1 & 0xFFFFFFFF) >> 19)  # ROTL32(h1,13)
        h1 = h1 * 5 + 0xE6546B64
    # tail
    k1 = 0
    val = length & 0x03
    if val == 3:
        k1 = (data[roundedEnd + 2] & 0xFF) << 16
    # fallthrough
    if val in [2, 3]:
        k1 |= (data[roundedEnd + 1] & 0xFF) << 8
    # fallthrough
    if val in [1, 2, 3]:
        k1 |= data[roundedEnd] & 0xFF
        k1 *= c1
        k1 = (k1 << 15) | ((k1 & 0xFFFFFFFF) >> 17)  # ROTL32(k1,15)
        k1 *= c2
        h1 ^= k1
    # finalization
    h1 ^= length & 0xFF
    # fmix(h1)
    h1 ^= (h1 & 0xFFFFFFFF) >> 16
    h1 *= 0x85EBCA6B
    h1 ^= (h1 & 0xFFFFFFFF) >> 13
    h1 *= 0xC2B2AE35
    h1 ^= (h1 & 0xFFFFFFFF) >> 16
    return h1 & 0xFFFFFFFF


