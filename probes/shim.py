class PyBytesIO:
    """pure-python stand-in for io.BytesIO (read/seek/tell/getvalue only)"""
    def __init__(self, initial=b""):
        self._b = initial
        self._p = 0
    def read(self, n=-1):
        if n is None or n < 0:
            r = self._b[self._p:]
            self._p = len(self._b)
            return r
        r = self._b[self._p:self._p + n]
        self._p += len(r)
        return r
    def seek(self, off, whence=0):
        if whence == 0: self._p = off
        elif whence == 1: self._p += off
        else: self._p = len(self._b) + off
        return self._p
    def tell(self):
        return self._p
