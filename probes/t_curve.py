import sys, time
sys.path.insert(0, "/repo")
import z3, symx2 as symx
from symx2 import SI, Node
from buidl.pecc import FieldElement, Point
p = int(sys.argv[1]); W = p.bit_length()
t0 = time.time()
xs = [z3.BitVec(n, W) for n in ("x1", "y1", "x2", "y2")]
pre = [z3.ULT(v, p) for v in xs]
def sv(b): return SI(Node("var", (b, W), 0, (1 << W) - 1))
def run():
    a = FieldElement(0, p); b = FieldElement(7, p)
    P = Point(FieldElement(sv(xs[0]), p), FieldElement(sv(xs[1]), p), a, b)
    Q = Point(FieldElement(sv(xs[2]), p), FieldElement(sv(xs[3]), p), a, b)
    try:
        R = P + Q
    except ValueError as e:
        return ("ADD_RAISED", str(e)[:40])
    return ("ok", R.x is None)
paths = symx.explore(run, pre=pre)
from collections import Counter
c = Counter()
wit = None
for pc, res in paths:
    key = res[1] if res[0] == "ok" else ("exc", type(res[1]).__name__)
    if res[0] == "ok" and res[1][0] == "ADD_RAISED" and wit is None:
        s = z3.Solver(); s.add(*pre, *pc); assert s.check() == z3.sat; m = s.model(); wit = [m.eval(v, model_completion=True).as_long() for v in xs]
    c[str(key)] += 1
print("p", p, "paths", len(paths), dict(c), "witness for add-raised:", wit, "queries", symx.CTX.queries, f"{time.time()-t0:.1f}s")
