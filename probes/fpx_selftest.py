"""self-test of symx/fpx.py (integer model of IEEE double arithmetic behind core.Ratio).

  part 1  concrete cross-check: the rounding code run on plain ints (fpx.FORCE) against the real interpreter
  part 2  symbolic: core.explore over symbolic operands; sat witnesses must reproduce with real floats, true facts must be
          discharged, and small ranges are compared with brute force over every value

run:  cd /verif && .venv/bin/python probes/fpx_selftest.py [--n 20000] [--skip-symbolic]
exit 0 on success
"""
import argparse
import math
import os
import random
import sys
import time

sys.path.insert(0, os.path.join(os.path.dirname(os.path.abspath(__file__)), ".."))

from symx import core, fpx  # noqa: E402
from symx.core import Ratio, SI  # noqa: E402

K = 1209600
FAIL = []


def fail(msg):
    FAIL.append(msg)
    print("FAIL:", msg)


# ------------------------------------------------------------------------------------------------ part 1

def I(x):
    return x.__int__() if isinstance(x, Ratio) else int(x)


def C(x):
    return x.__ceil__() if isinstance(x, Ratio) else math.ceil(x)


def Fl(x):
    return x.__floor__() if isinstance(x, Ratio) else math.floor(x)


def div(a, b):
    """a / b through the tree for concrete leaves (Python would compute it natively)"""
    return Ratio(a, b, "div")


def mul(a, b):
    return Ratio(a, b, "mul")


def add(a, b):
    return Ratio(a, b, "add")


def sub(a, b):
    return Ratio(a, b, "sub")


# (name, model, real).  The real side records every intermediate float so that an Unsupported verdict can be justified.
EXPRS = [
    ("int(a*(b/c))", lambda a, b, c: I(mul(a, div(b, c))), lambda a, b, c, T: int(T(a * T(b / c)))),
    ("int(a/b)", lambda a, b, c: I(div(a, b)), lambda a, b, c, T: int(T(a / b))),
    ("ceil(a/b)", lambda a, b, c: C(div(a, b)), lambda a, b, c, T: math.ceil(T(a / b))),
    ("floor(a/b)", lambda a, b, c: Fl(div(a, b)), lambda a, b, c, T: math.floor(T(a / b))),
    ("a/b<c", lambda a, b, c: div(a, b) < c, lambda a, b, c, T: T(a / b) < c),
    ("a/b<=c", lambda a, b, c: div(a, b) <= c, lambda a, b, c, T: T(a / b) <= c),
    ("c==a/b", lambda a, b, c: c == div(a, b), lambda a, b, c, T: c == T(a / b)),
    ("int((a/b)*c)", lambda a, b, c: I(mul(div(a, b), c)), lambda a, b, c, T: int(T(T(a / b) * c))),
    ("int(a/b+c)", lambda a, b, c: I(add(div(a, b), c)), lambda a, b, c, T: int(T(T(a / b) + c))),
    ("int(c-a/b)", lambda a, b, c: I(sub(c, div(a, b))), lambda a, b, c, T: int(T(c - T(a / b)))),
    ("int((a/b)/c)", lambda a, b, c: I(div(div(a, b), c)), lambda a, b, c, T: int(T(T(a / b) / c))),
    ("int(a/(b/c))", lambda a, b, c: I(div(a, div(b, c))), lambda a, b, c, T: int(T(a / T(b / c)))),
    ("a/b<b/c", lambda a, b, c: div(a, b) < div(b, c), lambda a, b, c, T: T(a / b) < T(b / c)),
    ("int(a*0.1+b)", lambda a, b, c: I(add(mul(a, 0.1), b)), lambda a, b, c, T: int(T(T(a * 0.1) + b))),
    ("floor(-(a/b))*c", lambda a, b, c: Fl(-div(a, b)), lambda a, b, c, T: math.floor(-T(a / b))),
    ("bool(a/b)", lambda a, b, c: bool(div(a, b)), lambda a, b, c, T: bool(T(a / b))),
]


def real_eval(fn, a, b, c):
    """(kind, value, trace): run the real interpreter; trace = intermediate floats"""
    trace = []

    def T(x):
        trace.append(x)
        return x
    try:
        return "ok", fn(a, b, c, T), trace
    except (ZeroDivisionError, OverflowError, ValueError) as ex:
        return type(ex).__name__, None, trace


def model_eval(fn, a, b, c):
    try:
        v = fn(a, b, c)
        if isinstance(v, (core.SI, core.SB)):
            return "symbolic?", v
        return "ok", v
    except (ZeroDivisionError, OverflowError) as ex:
        return type(ex).__name__, None
    except core.Unsupported as ex:
        return "unsupported", str(ex)


TINY = 2.0 ** -1022


def outside_normal(trace, kind, a):
    """the real computation left the normal range somewhere (inf / nan / subnormal / underflow to zero: a zero intermediate
    although the numerator a is not zero), or an exception that stems from it"""
    if kind != "ok":
        return True
    for x in trace:
        if x != x or x in (math.inf, -math.inf) or (x != 0 and abs(x) < TINY) or (x == 0 and a != 0):
            return True
    return False


def rbits(rng, n):
    return rng.getrandbits(n) | (1 << (n - 1)) if n else 0


def gen_int(rng):
    k = rng.random()
    if k < 0.35:
        v = rbits(rng, rng.randint(1, 300))
    elif k < 0.5:
        v = (1 << rng.randint(0, 300)) + rng.choice((-2, -1, 0, 1, 2))
    elif k < 0.7:
        # a tie (or its neighbours) for int -> double: 53 significant bits, then 1000...0 (+-1)
        m = rbits(rng, 53) | rng.choice((0, 1))
        sh = rng.randint(1, 240)
        v = (m << sh) + (1 << (sh - 1)) + rng.choice((-1, 0, 0, 1))
    elif k < 0.8:
        v = rng.randint(0, 1 << rng.choice((3, 8, 24, 53, 54, 64)))
    elif k < 0.9:
        v = ((1 << 53) - 1 << rng.randint(0, 200)) + rng.choice((0, 1)) * (1 << rng.randint(0, 60))
    else:
        v = rng.choice((0, 1, 2, 3, 5, 10, 100, K, 658800, 0x06F270 << 192, 0xFFFF << 208, (1 << 53) + 1, (1 << 54) + 2))
    if rng.random() < 0.25:
        v = -v
    return v


def gen_triple(rng):
    k = rng.random()
    a, b, c = gen_int(rng), gen_int(rng), gen_int(rng)
    if k < 0.2:
        # quotient exactly on (or next to) a tie: a = q * b with q of 54 significant bits and the last one set
        b = rbits(rng, rng.randint(1, 80))
        q = rbits(rng, 54) | 1
        a = (q * b << rng.randint(0, 100)) + rng.choice((-1, 0, 0, 1))
    elif k < 0.3:
        # the retarget shape
        a = rng.randint(0x008000, 0x7FFFFF) << (8 * rng.randint(0, 29))
        b = rng.randint(K // 4, K * 4)
        c = K
    elif k < 0.35:
        a, b, c = 0x06F270 << 192, 658800, K
    return a, b, c


def part1(n, seed):
    rng = random.Random(seed)
    fpx.FORCE[0] = True
    t0 = time.time()
    stats = {"cases": 0, "compared": 0, "agree_exception": 0, "unsupported_justified": 0}
    per = {}
    fixed = [(0x06F270 << 192, 658800, K), (1, 3, 1), (0, 5, 7), (5, 0, 1), (1 << 1024, 1, 1), (1, 1 << 1080, 1), ((1 << 1024) - (1 << 970), 1, 0),
             ((1 << 1024) - (1 << 970) - 1, 1, 0), (1, 1 << 1022, 3), (1, 1 << 1023, 3), (-7, 2, 1), (7, -2, -1), ((1 << 53) - 1, 1, 1 << 52),
             ((1 << 54) - 1, 2, 1), (10 ** 400, 10 ** 399, 3), (3, 10 ** 400, 3), (10 ** 400, 1, 1)]
    try:
        for i in range(n + len(fixed)):
            a, b, c = fixed[i] if i < len(fixed) else gen_triple(rng)
            stats["cases"] += 1
            for name, mf, rf in EXPRS:
                rk, rv, trace = real_eval(rf, a, b, c)
                mk, mv = model_eval(mf, a, b, c)
                if mk == "unsupported":
                    if outside_normal(trace, rk, a):
                        stats["unsupported_justified"] += 1
                    else:
                        fail(f"{name}: model unsupported ({mv}) but the real computation stays normal: a={a} b={b} c={c} -> {rv}")
                    continue
                if mk != rk:
                    # an exception of the real interpreter that comes from inf / nan (int(inf)) is outside the model's range
                    fail(f"{name}: model {mk} vs real {rk}: a={a} b={b} c={c} (model {mv}, real {rv})")
                    continue
                if mk != "ok":
                    stats["agree_exception"] += 1
                    continue
                stats["compared"] += 1
                per[name] = per.get(name, 0) + 1
                if mv != rv or type(mv) is not type(rv):
                    fail(f"{name}: model {mv!r} != real {rv!r}: a={a} b={b} c={c}")
                if len(FAIL) > 20:
                    return stats
    finally:
        fpx.FORCE[0] = False
    stats["seconds"] = round(time.time() - t0, 1)
    stats["per_expression"] = per
    return stats


def fast_path_claim(n, seed):
    """the docstring claim behind the exact-rational fast path, probed at its edge: n + d < 2**52, quotients next to integers"""
    rng = random.Random(seed)
    bad = 0
    for _ in range(n):
        d = rng.randint(1, (1 << rng.randint(1, 51)) - 1)
        k = rng.randint(0, max(((1 << 52) - 1 - d) // d - 1, 0))
        nn = k * d + rng.choice((-1, 0, 1, d - 1, 1 - d))
        if nn < 0 or nn + d >= (1 << 52):
            continue
        f = nn / d
        if math.floor(f) != nn // d or math.ceil(f) != -(-nn // d) or int(f) != nn // d:
            bad += 1
        for kk in (nn // d, nn // d + 1, k):
            if (f < kk) != (nn < kk * d) or (f <= kk) != (nn <= kk * d) or (f == kk) != (nn == kk * d):
                bad += 1
    if bad:
        fail(f"fast-path claim violated {bad} times")
    return bad


# ------------------------------------------------------------------------------------------------ part 2

def run(fn, mode, **kw):
    t0 = time.time()
    c, out = core.explore(fn, mode=mode, **kw)
    return c, out, time.time() - t0


def retarget_real(cc, td, k):
    a = cc << (8 * k)
    return int(a * (td / K)), a * td // K


def sym_retarget(k, mode, max_violations=3):
    def f():
        td = SI.var("td", 302400, 4838400)
        cc = SI.var("c", 0x008000, 0x7FFFFF)
        a = cc << (8 * k)
        lhs = (a * (td / K)).__int__()
        rhs = a * td // K
        core.check(lhs == rhs, f"int(a*(td/K)) == a*td//K [k={k}]")
        return "ok"
    c, out, dt = run(f, mode, timeout_ms=20000, max_violations=max_violations, wall_s=600)
    good = 0
    for w in c.violations:
        e = w["env"]
        x, y = retarget_real(e["c"], e["td"], k)
        if x == y:
            fail(f"retarget k={k} mode={mode}: witness c={e['c']:#x} td={e['td']} does not reproduce with real floats")
        else:
            good += 1
    return {"k": k, "mode": mode, "seconds": round(dt, 1), "paths": c.stats.paths, "witnesses_reproduced": good,
            "inconclusive": list(c.inconclusive), "queries": dict(c.stats.q),
            "example": ({"c": hex(c.violations[0]["env"]["c"]), "td": c.violations[0]["env"]["td"]} if c.violations else None)}


def sym_true_facts(mode):
    """facts that hold for every td in [302400, 4838400] (brute force confirms each one first) must be discharged.
    mode="bv" leaves out the fact whose proof is an identity between a multiplication and a division by constants (bit-blasting
    does not prove those within minutes; LIA does in a fraction of a second)"""
    facts = [
        ("int(td/K*4) <= 16", lambda td: (td / K * 4).__int__() <= 16, lambda td: int(td / K * 4) <= 16),
        ("int(td/K*4) >= 1", lambda td: (td / K * 4).__int__() >= 1, lambda td: int(td / K * 4) >= 1),
        ("td/K >= 0.25", lambda td: td / K >= 0.25, lambda td: td / K >= 0.25),
        ("td/K <= 4", lambda td: td / K <= 4, lambda td: td / K <= 4),
        ("ceil(td/K + 0.5) <= 5", lambda td: (td / K + 0.5).__ceil__() <= 5, lambda td: math.ceil(td / K + 0.5) <= 5),
        ("int(td/K*K) in {td-1, td}", lambda td: core.s_or((td / K * K).__int__() == td, (td / K * K).__int__() == td - 1),
         lambda td: int(td / K * K) in (td, td - 1)),
        ("2**20*(td/K) - td/K*2**20 == 0", lambda td: ((1 << 20) * (td / K) - td / K * (1 << 20)) == 0, lambda td: (1 << 20) * (td / K) - td / K * (1 << 20) == 0),
    ]
    res = []
    for name, sf, rf in facts:
        if mode == "bv" and "td/K*K" in name:
            continue
        truth = all(rf(td) for td in range(302400, 4838401))

        def f():
            td = SI.var("td", 302400, 4838400)
            core.check(sf(td), name)
            return "ok"
        c, out, dt = run(f, mode, timeout_ms=60000, wall_s=600)
        verdict = "violated" if c.violations else ("inconclusive" if c.inconclusive else "holds")
        for w in c.violations:
            if rf(w["env"]["td"]):
                fail(f"fact {name} mode={mode}: witness td={w['env']['td']} does not reproduce")
        if c.inconclusive:
            fail(f"fact {name} mode={mode}: inconclusive {c.inconclusive}")
        elif truth != (verdict == "holds"):
            fail(f"fact {name} mode={mode}: brute force says {truth}, solver says {verdict}")
        res.append({"fact": name, "brute_force": truth, "solver": verdict, "paths": c.stats.paths, "seconds": round(dt, 1)})
    return res


def sym_roundtrip(mode):
    """int(td/K*K) == td is *not* true for every td; the solver must find a counterexample that the real floats confirm, and
    the set of paths must cover exactly the brute-force verdict"""
    bad = [td for td in range(302400, 4838401) if int(td / K * K) != td]

    def f():
        td = SI.var("td", 302400, 4838400)
        core.check((td / K * K).__int__() == td, "roundtrip")
        return "ok"
    c, out, dt = run(f, mode, timeout_ms=60000, wall_s=600)
    for w in c.violations:
        if w["env"]["td"] not in bad:
            fail(f"roundtrip mode={mode}: witness td={w['env']['td']} does not reproduce")
    if bool(bad) != bool(c.violations) or c.inconclusive:
        fail(f"roundtrip mode={mode}: brute force has {len(bad)} counterexamples, solver found {len(c.violations)}, inconclusive {c.inconclusive}")
    return {"brute_force_counterexamples": len(bad), "solver_witnesses": [w["env"]["td"] for w in c.violations], "paths": c.stats.paths, "seconds": round(dt, 1)}


def sym_symbolic_divisor(mode):
    """symbolic numerator and divisor with signs and a possible zero divisor (the `divs` quotient node, sign forks, exceptions)"""
    def f():
        x = SI.var("x", -(1 << 54), 1 << 54)
        d = SI.var("d", -5, 5)
        try:
            q = x / d
            t = q.__int__()
        except ZeroDivisionError:
            core.check(d == 0, "ZeroDivisionError only for d == 0")
            return "zde"
        core.check(d != 0, "no exception only for d != 0")
        # |x/d| <= 2**54: the rounded quotient is within 2 of the exact one, truncation adds less than 1
        err = t * d - x
        ad = abs(d)
        core.check(core.s_and(err <= 3 * ad, -err <= 3 * ad), "int(x/d) within 3 of x/d")
        core.check(core.s_and(err < ad, -err < ad), "int(x/d) == trunc(x/d) [false for |x| > 2**53]")
        return "ok"
    c, out, dt = run(f, mode, timeout_ms=60000, wall_s=900, max_violations=6)
    kinds = {o[1] for o in out}
    if "zde" not in kinds or "ok" not in kinds:
        fail(f"symbolic divisor mode={mode}: outcome classes {kinds}")
    n_ok = 0
    for w in c.violations:
        x, d = w["env"]["x"], w["env"]["d"]
        if "false for" not in w["label"]:
            fail(f"symbolic divisor mode={mode}: true fact violated: {w['label']} x={x} d={d}")
            continue
        t = int(x / d)
        if abs(t * d - x) < abs(d):
            fail(f"symbolic divisor mode={mode}: witness x={x} d={d} does not reproduce")
        else:
            n_ok += 1
    if not n_ok:
        fail(f"symbolic divisor mode={mode}: no counterexample found for the false fact; inconclusive={c.inconclusive}")
    if c.inconclusive:
        fail(f"symbolic divisor mode={mode}: inconclusive {c.inconclusive}")
    return {"mode": mode, "paths": c.stats.paths, "witnesses_reproduced": n_ok, "seconds": round(dt, 1)}


def sym_fast_path():
    """ceil(len / size) of the bcur shape stays on the exact-rational fast path: no fork, no solver query at all"""
    def f():
        n = SI.var("n", 0, 70000)
        q = (n / 7).__ceil__()
        core.check(q * 7 >= n, "ceil(n/7)*7 >= n")
        core.check(q * 7 < n + 7, "ceil(n/7)*7 < n + 7")
        fl = (n / 7).__floor__()
        core.check(core.s_and(fl * 7 <= n, n < fl * 7 + 7), "floor")
        core.check(core.s_not(n / 7 < 3) == (n >= 21), "cmp")
        return "ok"
    before = fpx.STATS["rnd"]
    c, out, dt = run(f, "bv")
    if c.stats.paths != 1 or c.violations or c.inconclusive or fpx.STATS["rnd"] != before:
        fail(f"fast path: paths={c.stats.paths} violations={c.violations} inconclusive={c.inconclusive} rnd calls={fpx.STATS['rnd'] - before}")
    return {"paths": c.stats.paths, "rnd_calls": fpx.STATS["rnd"] - before, "seconds": round(dt, 2)}


def sym_opaque():
    """round / format / str of a tree do not evaluate (psbt prints round(fee / total * 100, 2))"""
    def f():
        fee = SI.var("fee", 0, 1 << 40)
        tot = SI.var("tot", 0, 1 << 40)
        s = f"{round(fee / tot * 100, 2)}% {fee / tot} {fee / tot!r}"
        return s
    before = fpx.STATS["rnd"]
    c, out, dt = run(f, "bv")
    if c.stats.paths != 1 or c.stats.decisions or fpx.STATS["rnd"] != before:
        fail(f"opaque display: paths={c.stats.paths} decisions={c.stats.decisions}")
    return {"paths": c.stats.paths, "text": out[0][1]}


def sym_mul_float(mode):
    """SI * float leaf and SI + float: tree nodes (were Unsupported)"""
    def f():
        x = SI.var("x", 0, 1 << 30)
        core.check((x * 0.5).__int__() == x >> 1, "int(x*0.5) == x >> 1")
        if mode == "int":   # multiplication by the 53-bit constant 0.1 against a division by 10: LIA proves it, bit-blasting does not
            core.check((x * 0.1).__int__() <= (x + 9) // 10, "int(x*0.1) <= ceil(x/10)")
            core.check((x * 0.1).__int__() >= x // 10 - 1, "int(x*0.1) >= x//10 - 1")
        core.check((x + 0.5).__floor__() == x, "floor(x + 0.5) == x")
        core.check((0.5 - x).__ceil__() == 1 - x, "ceil(0.5 - x) == 1 - x")
        return "ok"
    c, out, dt = run(f, mode, timeout_ms=60000, wall_s=600)
    for w in c.violations:
        x = w["env"]["x"]
        real = {"int(x*0.5)": int(x * 0.5) == x >> 1, "int(x*0.1)": int(x * 0.1) <= (x + 9) // 10, "floor": math.floor(x + 0.5) == x, "ceil": math.ceil(0.5 - x) == 1 - x}
        fail(f"SI*float mode={mode}: violation {w['label']} x={x}; real interpreter: {real}")
    if c.inconclusive:
        fail(f"SI*float mode={mode}: inconclusive {c.inconclusive}")
    return {"mode": mode, "paths": c.stats.paths, "seconds": round(dt, 1)}


def main():
    ap = argparse.ArgumentParser()
    ap.add_argument("--n", type=int, default=20000)
    ap.add_argument("--seed", type=int, default=20260923)
    ap.add_argument("--skip-symbolic", action="store_true")
    ap.add_argument("--ks", default="8,24", help="exponent shifts 8*k of the retarget shape (k = 0: counterexamples are needles and "
                    "most paths need a proof of a multiplication / division identity; takes > 15 min)")
    a = ap.parse_args()

    print("== part 1: concrete cross-check (rounding code on plain ints vs the interpreter)")
    st = part1(a.n, a.seed)
    print("  ", st)
    if st["cases"] < 20000 and a.n >= 20000:
        fail("fewer than 20000 cases")
    print("   fast-path claim probes, violations:", fast_path_claim(200000, a.seed + 1))
    # the documented miss, through the tree with real concrete evaluation (no FORCE)
    t = 0x06F270 << 192
    got = Ratio(t, Ratio(658800, K), "mul").__int__()
    if got != int(t * (658800 / K)) or got == t * 658800 // K:
        fail("bits 0x1b06f270 / td 658800 case")
    print("   0x1b06f270 / 658800:", hex(got), "!=", hex(t * 658800 // K))

    if not a.skip_symbolic:
        print("== part 2: symbolic")
        print("   fast path:", sym_fast_path())
        print("   opaque display:", sym_opaque())
        for k in [int(x) for x in a.ks.split(",")]:
            r = sym_retarget(k, "bv")
            print("   retarget", r, flush=True)
            if not r["witnesses_reproduced"]:
                fail(f"retarget k={k} bv: no reproduced witness")
            # LIA mode: the product of two symbolic significands is refused at once (Unsupported -> inconclusive), never decided wrongly
            r = sym_retarget(k, "int")
            print("   retarget", {x: r[x] for x in ("k", "mode", "seconds", "witnesses_reproduced")}, "inconclusive:", len(r["inconclusive"]), r["inconclusive"][:1], flush=True)
            if not r["inconclusive"] or r["seconds"] > 60:
                fail(f"retarget k={k} int: expected a quick refusal")
        for mode in ("int", "bv"):
            for r in sym_true_facts(mode):
                print("   fact", mode, r, flush=True)
            print("   SI*float", sym_mul_float(mode), flush=True)
        print("   roundtrip", "int", sym_roundtrip("int"), flush=True)
        print("   symbolic divisor", sym_symbolic_divisor("int"), flush=True)
    print("FAILURES:", len(FAIL))
    return 1 if FAIL else 0


if __name__ == "__main__":
    sys.exit(main())
