#!/bin/sh
# offline: build /verif/.venv on /venv's interpreter (the one the test suite uses) with z3 + crosshair from the wheelhouse
set -e
cd "$(dirname "$0")"
if [ ! -x .venv/bin/python ] || ! .venv/bin/python -c "import z3" 2>/dev/null; then
  rm -rf .venv
  /venv/bin/python -m venv .venv
  .venv/bin/pip install -q --no-index --find-links /opt/veriftools/wheels z3-solver crosshair-tool jsonschema
fi
.venv/bin/python -c "import z3; print('z3', z3.get_version_string())"
