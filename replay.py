#!/usr/bin/env python3
"""replay solver witnesses against the real, unpatched code of /repo (native `buidl`, no shims).
usage: replay.py [--json] file.json [file.json ...]
Each file names the check module and the replay function; the function returns
{"violated": bool, "observed": ..., "expected": ...}."""
import importlib
import json
import os
import sys

VERIF = os.path.dirname(os.path.abspath(__file__))
REPO = os.environ.get("VERIF_REPO", "/repo")
sys.path.insert(0, VERIF)
sys.path.insert(0, REPO)


def replay_file(path):
    d = json.load(open(path))
    mod = importlib.import_module(d["module"])
    fn = getattr(mod, "replay_" + d["replay"])
    try:
        r = fn(d["inputs"])
    except Exception as e:  # noqa
        import traceback
        return {"violated": None, "error": repr(e) + traceback.format_exc()[-600:]}
    return r


def main():
    args = sys.argv[1:]
    js = False
    if args and args[0] == "--json":
        js = True
        args = args[1:]
    out = [replay_file(p) for p in args]
    if js:
        print(json.dumps(out, default=str))
    else:
        for p, r in zip(args, out):
            print(p, json.dumps(r, default=str, indent=1))
        sys.exit(1 if any(r.get("violated") for r in out) else 0)


if __name__ == "__main__":
    main()
