"""regenerate MANIFEST.json from the check modules present (kept valid at all times)"""
import importlib
import json
import os
import sys

VERIF = os.path.dirname(os.path.dirname(os.path.abspath(__file__)))
sys.path.insert(0, VERIF)
ALL = [f"C{i:02d}" for i in range(1, 21)]

NA_DEFAULT = "no check registered yet in this revision (work in progress; see DESIGN.md section 3 for the plan)"


def main():
    checks = []
    na = []
    na_reasons = json.load(open(os.path.join(VERIF, "vlib", "not_applicable.json"))) if os.path.exists(
        os.path.join(VERIF, "vlib", "not_applicable.json")) else {}
    for pid in ALL:
        path = os.path.join(VERIF, "checks", pid.lower() + ".py")
        claimed = json.load(open(os.path.join(VERIF, "vlib", "claimed.json")))
        if not os.path.exists(path) or pid in na_reasons or pid not in claimed:
            na.append({"property_id": pid, "reason": na_reasons.get(pid, NA_DEFAULT)})
            continue
        mod = importlib.import_module("checks." + pid.lower())
        m = getattr(mod, "MANIFEST", {})
        checks.append({
            "property_id": pid,
            "quick_cmd": f"./check {pid} --tier quick",
            "thorough_cmd": f"./check {pid} --tier thorough",
            "evidence_file": f"/verif/evidence/{pid}.json",
            "replay_cmd_template": "/verif/.venv/bin/python /verif/replay.py {path}",
            "engine": "symx",
            "level_claimed": {
                "category": "model_checking",
                "text": m.get("level_text", "bounded symbolic model checking of the real functions: every feasible path within the stated "
                                            "bounds is explored and each assertion is decided by z3 (unsat = holds for all values in the bound)"),
                "design_ref": f"DESIGN.md section 3, {pid}",
            },
            "level_note": m.get("level_note", "trusted base: symx proxies and lowering (self-validated per run), z3 5.1.0, the oracle "
                                              "transcribed in the check module; see evidence bounds/outside_bounds/stubs"),
            "technique": m.get("technique", "symbolic execution of the real Python functions on z3-backed proxies; per-path SMT queries"),
        })
    man = {
        "version": 1,
        "setup_cmd": "./setup.sh",
        "hooks": {
            "guard": "BUIDL_PYTHON_VERIF",
            "enable": "no source hooks: checks load /repo/buidl/*.py from the working tree through an import hook with shadowed builtins "
                      "(symx/loader.py); the variable is exported by ./check for completeness",
            "baseline_off_cmd": "cd /repo && /venv/bin/python -m pytest -ra -q -p no:cacheprovider --timeout=900 "
                                "--continue-on-collection-errors",
            "source_commits": [],
            "add_only": True,
        },
        "engines": [
            {"name": "symx", "path": "/verif/symx", "serves_properties": [c["property_id"] for c in checks],
             "kind_free_text": "dynamic symbolic execution of /repo's real Python functions on proxy values (interval-tracked "
                               "integer DAG, demand-driven bit-vector lowering, LIA lowering, uninterpreted hashes), z3 5.1.0"},
        ],
        "checks": checks,
        "not_applicable": na,
        "notes": "Exit codes of ./check: 0 all obligations discharged (known findings printed as KNOWN-FINDING), 1 replay-confirmed "
                 "violation, 2 inconclusive (solver unknown / harness error; never reported as success).",
    }
    json.dump(man, open(os.path.join(VERIF, "MANIFEST.json"), "w"), indent=1)
    print("checks:", [c["property_id"] for c in checks], "n/a:", len(na))


if __name__ == "__main__":
    main()
