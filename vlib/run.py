"""check runner: obligations -> worker processes -> replay of every solver witness on the real code ->
known-findings filter -> evidence file and exit code (DESIGN.md 2.5, 2.6)."""
import argparse
import hashlib
import importlib
import inspect
import json
import multiprocessing as mp
import os
import subprocess
import sys
import time
import traceback

VERIF = os.path.dirname(os.path.dirname(os.path.abspath(__file__)))
REPO = os.environ.get("VERIF_REPO", "/repo")
sys.path.insert(0, VERIF)
if REPO not in sys.path:
    sys.path.insert(1, REPO)

from symx import core  # noqa: E402


class Ob:
    """one obligation: fn(**params) runs in a worker process and returns the dict built by sym_run()/conc_run()"""

    def __init__(self, name, fn, params=None, replay=None, budget_s=600, note=""):
        self.name = name
        self.fn = fn
        self.params = params or {}
        self.replay = replay
        self.budget_s = budget_s
        self.note = note

    @property
    def label(self):
        if not self.params:
            return self.name
        return self.name + "[" + ",".join(f"{k}={v}" for k, v in self.params.items()) + "]"


# ------------------------------------------------------------------------------ inside the worker

_TRACE = {}


def _tracer(frame, event, arg):
    if event == "call":
        co = frame.f_code
        fn = co.co_filename
        if fn.startswith(REPO):
            key = (fn, co.co_qualname if hasattr(co, "co_qualname") else co.co_name, co.co_firstlineno)
            if key not in _TRACE:
                _TRACE[key] = True
    return None


def functions_encoded():
    out = []
    for (fn, qn, line) in sorted(_TRACE):
        if qn == "<module>":
            continue
        out.append(f"{os.path.relpath(fn, REPO)}:{line} {qn}")
    return out


def sym_run(path_fn, mode="bv", expect_classes=None, max_paths=20000, timeout_ms=20000, wall_s=None,
            sample=None, min_checks=1, gen_env=None, native=None, n_val=12, max_violations=None):
    """explore path_fn on all feasible paths.  path_fn returns an outcome class (hashable, small) per path.
    expect_classes: outcome classes that must each be witnessed by at least one feasible path (reachability twin)."""
    first = [True]

    def wrapped():
        if first[0]:
            first[0] = False
            sys.setprofile(_tracer)
            try:
                return path_fn()
            finally:
                sys.setprofile(None)
        return path_fn()

    t0 = time.time()
    c, out = core.explore(wrapped, mode=mode, max_paths=max_paths, timeout_ms=timeout_ms, wall_s=wall_s,
                          max_violations=max_violations)
    classes = {}
    for kind, v in out:
        key = repr(v)
        classes[key] = classes.get(key, 0) + 1
    inconclusive = list(c.inconclusive)
    if expect_classes:
        for e in expect_classes:
            if repr(e) not in classes:
                inconclusive.append(f"reachability twin: outcome class {e!r} never reached")
    selfval = 0
    if gen_env is not None and c.stats.paths <= 5000:
        import random
        envs = [gen_env(random) for _ in range(n_val)]
        selfval, errs = core.validate_paths(c, envs, native)
        for e in errs[:3]:
            inconclusive.append("encoding self-validation: " + e[:400])
    if c.stats.paths == 0:
        inconclusive.append("reachability twin: no feasible path")
    if c.stats.checks < min_checks:
        inconclusive.append("reachability twin: no assertion reached")
    return {
        "engine": "symx/" + mode,
        "stats": c.stats.asdict(),
        "classes": classes,
        "violations": c.violations,
        "inconclusive": inconclusive,
        "wall_s": round(time.time() - t0, 3),
        "sample": sample,
        "symbolic": True,
        "vars": sorted(c.vars)[:12],
        "selfval": selfval,
    }


def merge_runs(runs):
    """combine several sym_run results of one obligation"""
    out = {"engine": runs[0]["engine"], "stats": None, "classes": {}, "violations": [], "inconclusive": [],
           "wall_s": 0, "sample": runs[0].get("sample"), "symbolic": True, "vars": runs[0].get("vars", [])}
    st = core.Stats()
    for r in runs:
        s = r["stats"]
        st.paths += s["paths"]
        st.decisions += s["decisions"]
        for k in st.q:
            st.q[k] += s["queries"][k]
        st.solver_s += s["solver_s"]
        st.unknown_feas += s["unknown_feasibility"]
        st.checks += s["assertion_queries"]
        for k, v in r["classes"].items():
            out["classes"][k] = out["classes"].get(k, 0) + v
        out["violations"] += r["violations"]
        out["inconclusive"] += r["inconclusive"]
        out["wall_s"] += r["wall_s"]
        out["selfval"] = out.get("selfval", 0) + r.get("selfval", 0)
    out["stats"] = st.asdict()
    return out


def conc_run(fn, what, replay=None, witness=None):
    """a concrete (non-solver) check, reported separately (engine 'concrete') and never counted as solver evidence.  Without a
    replay recipe a failure is inconclusive (a broken trusted-base assumption); with `replay`/`witness` a failure becomes a
    violation candidate that the parent re-runs on the real code like any solver witness."""
    t0 = time.time()
    ok, detail = fn()
    viol, inc = [], []
    if not ok:
        if replay is not None:
            viol.append({"label": f"{what}: {detail}"[:400], "witness": dict(witness or {}), "replay": replay})
        else:
            inc.append(f"trusted-base check failed: {what}: {detail}")
    return {"engine": "concrete", "stats": core.Stats().asdict(), "classes": {}, "violations": viol,
            "inconclusive": inc, "wall_s": round(time.time() - t0, 3),
            "sample": {"trusted_base": what, "detail": detail}, "symbolic": False, "vars": []}


def _worker(args):
    modname, idx, tier, seed = args
    os.environ["VERIF_TIER"] = tier
    t0 = time.time()
    try:
        mod = importlib.import_module(modname)
        ob = mod.obligations(tier)[idx]
        core.DEADLINE[0] = t0 + 0.9 * ob.budget_s   # explorations wind up (keeping what they found) before the parent gives up
        import random
        random.seed(seed * 1000003 + idx)
        r = ob.fn(**ob.params)
        r["functions"] = functions_encoded()
    except BaseException as e:  # noqa
        r = {"engine": "?", "stats": core.Stats().asdict(), "classes": {}, "violations": [],
             "inconclusive": ["harness error: " + repr(e) + "\n" + traceback.format_exc()[-1500:]], "wall_s": 0, "sample": None,
             "symbolic": False, "functions": [], "vars": []}
    r["ob_wall_s"] = round(time.time() - t0, 3)
    r["idx"] = idx
    return r


# ------------------------------------------------------------------------------ parent


def load_known(prop):
    p = os.path.join(VERIF, "known_findings.json")
    if not os.path.exists(p):
        return []
    return [e for e in json.load(open(p))["findings"] if e["property"] == prop]


def script_complete(hexstr):
    """helper for known-finding match expressions: does the push structure of the script end exactly at its end?"""
    raw = bytes.fromhex(hexstr)
    i, n = 0, len(raw)
    while i < n:
        b = raw[i]
        if 1 <= b <= 75:
            i += 1 + b
        elif b in (76, 77, 78):
            w = 1 << (b - 76)
            if i + 1 + w > n:
                return False
            i += 1 + w + int.from_bytes(raw[i + 1:i + 1 + w], "little")
        else:
            i += 1
    return i == n


def match_known(known, ob_name, w):
    for e in known:
        if e.get("status") != "known":
            continue  # 'fixed' entries suppress nothing
        if e.get("obligation") and not ob_name.startswith(e["obligation"]):
            continue
        try:
            if eval(e["match"], {"__builtins__": {"len": len, "int": int, "any": any, "all": all, "bytes": bytes, "min": min,
                                                   "max": max, "abs": abs, "str": str, "isinstance": isinstance, "list": list,
                                                   "script_complete": script_complete},
                                   "w": w}):
                return e
        except Exception:
            continue
    return None


def run_replays(prop, modname, items):
    """items: list of (replay_kind, witness). Runs them in one clean subprocess against the real code."""
    if not items:
        return []
    os.makedirs(os.path.join(VERIF, "replays"), exist_ok=True)
    paths = []
    for i, (ob_label, kind, w) in enumerate(items):
        h = hashlib.sha1(json.dumps([kind, w], sort_keys=True, default=str).encode()).hexdigest()[:12]
        p = os.path.join(VERIF, "replays", f"{prop}_{kind}_{h}.json")
        json.dump({"property": prop, "module": modname, "replay": kind, "obligation": ob_label, "inputs": w,
                   "how": f"{VERIF}/.venv/bin/python {VERIF}/replay.py {p}"}, open(p, "w"), indent=1, default=str)
        paths.append(p)
    res = []
    B = 200
    for i in range(0, len(paths), B):
        cp = subprocess.run([sys.executable, os.path.join(VERIF, "replay.py"), "--json"] + paths[i:i + B], capture_output=True,
                            text=True, timeout=3600)
        try:
            res += json.loads(cp.stdout.strip().splitlines()[-1])
        except Exception:
            res += [{"violated": None, "error": "replay subprocess failed: " + cp.stderr[-800:]}] * len(paths[i:i + B])
    return list(zip(paths, res))


def main(argv=None):
    ap = argparse.ArgumentParser()
    ap.add_argument("prop")
    ap.add_argument("--tier", default=os.environ.get("VERIF_TIER", "quick"))
    ap.add_argument("--only", default=None, help="substring filter on obligation labels (development)")
    ap.add_argument("--jobs", type=int, default=int(os.environ.get("VERIF_JOBS", "16")))
    a = ap.parse_args(argv)
    prop = a.prop.upper()
    tier = a.tier if a.tier in ("quick", "thorough") else "quick"
    seed = int(os.environ.get("VERIF_SEED", "0") or 0)
    modname = "checks." + prop.lower()
    t0 = time.time()
    mod = importlib.import_module(modname)
    obs = mod.obligations(tier)
    sel = [i for i, o in enumerate(obs) if not a.only or a.only in o.label]
    ctxm = mp.get_context("fork")
    results = {}
    with ctxm.Pool(min(a.jobs, max(1, len(sel))), maxtasksperchild=1) as pool:
        pend = {i: pool.apply_async(_worker, ((modname, i, tier, seed),)) for i in sel}
        for i, ar in pend.items():
            try:
                results[i] = ar.get(timeout=obs[i].budget_s + max(0, 5))
            except mp.TimeoutError:
                results[i] = {"engine": "?", "stats": core.Stats().asdict(), "classes": {}, "violations": [],
                              "inconclusive": [f"obligation wall budget {obs[i].budget_s}s exceeded"], "wall_s": obs[i].budget_s,
                              "sample": None, "symbolic": False, "functions": [], "ob_wall_s": obs[i].budget_s, "vars": []}
        pool.terminate()

    # ---- replay every witness on the real code
    items = []
    for i in sel:
        r = results[i]
        for v in r["violations"]:
            kind = v.get("replay") or obs[i].replay
            w = v.get("witness")
            if kind is None or w is None:
                r["inconclusive"].append(f"witness without replay recipe: {v.get('label')} {v.get('witness_error', '')}")
                continue
            w = dict(w) if isinstance(w, dict) else {"value": w}
            w.setdefault("label", v.get("label"))
            items.append((i, obs[i].label, kind, w))
    # replay at most 40 distinct witnesses per (obligation, label)
    seen = {}
    chosen = []
    for it in items:
        k = (it[0], it[3].get("label"))
        seen[k] = seen.get(k, 0) + 1
        if seen[k] <= 40:
            chosen.append(it)
    rr = run_replays(prop, modname, [(c[1], c[2], c[3]) for c in chosen])
    known = load_known(prop)
    confirmed, artefacts, known_hits, new_violations = 0, [], {}, []
    for (i, ob_label, kind, w), (path, res) in zip(chosen, rr):
        if res.get("violated") is True:
            confirmed += 1
            w2 = dict(w)
            w2["observed"] = res.get("observed")
            e = match_known(known, obs[i].name, w2)
            if e is not None:
                known_hits.setdefault(e["id"], {"entry": e, "n": 0, "example": path})["n"] += 1
            else:
                new_violations.append((ob_label, path, res))
        elif res.get("violated") is False:
            artefacts.append((ob_label, path, res))
        else:
            results[i]["inconclusive"].append("replay error: " + str(res.get("error"))[:500])

    # ---- verdict
    inconclusive = []
    for i in sel:
        for m in results[i]["inconclusive"]:
            inconclusive.append(f"{obs[i].label}: {m}")
    for ob_label, path, res in artefacts:
        inconclusive.append(f"{ob_label}: solver witness did not reproduce on the real code ({path}): {str(res.get('observed'))[:200]}")

    for fid, h in sorted(known_hits.items()):
        print(f"KNOWN-FINDING: property={prop} {fid}: {h['entry']['what']} ({h['n']} witness(es), e.g. {h['example']})")
    printed = set()
    for ob_label, path, res in new_violations:
        print(f"VIOLATION property={prop} replay={path}")
        if ob_label not in printed:
            printed.add(ob_label)
            print(f"  obligation {ob_label}: {str(res.get('observed'))[:300]}")
    for m in inconclusive[:40]:
        print("INCONCLUSIVE:", m[:600])

    # ---- evidence
    st = core.Stats()
    funcs = set()
    samples = []
    nontrivial = 0
    per_ob = []
    traces = len(rr)
    for i in sel:
        r = results[i]
        s = r["stats"]
        st.paths += s["paths"]
        st.decisions += s["decisions"]
        for k in st.q:
            st.q[k] += s["queries"][k]
        st.solver_s += s["solver_s"]
        st.unknown_feas += s["unknown_feasibility"]
        st.checks += s["assertion_queries"]
        funcs.update(r.get("functions", []))
        traces += int(r.get("selfval", 0))
        if r.get("symbolic") and s["paths"] > 0 and s["assertion_queries"] > 0:
            nontrivial += 1
        per_ob.append({"obligation": obs[i].label, "engine": r["engine"], "paths": s["paths"], "queries": s["queries"],
                       "assertions": s["assertion_queries"], "classes": dict(list(r["classes"].items())[:8]),
                       "wall_s": r.get("ob_wall_s"), "selfval": r.get("selfval", 0),
                       "violation_candidates": len(r["violations"]), "inconclusive": len(r["inconclusive"])})
        if r.get("sample") is not None and len(samples) < 12:
            samples.append({"obligation": obs[i].label, "case": r["sample"]})
    if not samples:
        samples = [{"obligation": obs[i].label, "params": obs[i].params} for i in sel[:5]]
    meta = getattr(mod, "META", {})
    src_sha = {}
    for f in sorted({x.split(":")[0] for x in funcs}):
        try:
            src_sha[f] = hashlib.sha1(open(os.path.join(REPO, f), "rb").read()).hexdigest()
        except OSError:
            pass
    ev = {
        "property_id": prop,
        "tier": tier,
        "seed": seed,
        "level": "model_checking",
        "coverage": {
            "states": max(st.paths, 0),
            "transitions": max(st.decisions, 0),
            "traces_validated_against_impl": traces,
            "samples": samples,
            "evaluations": len(sel),
            "distinct_nontrivial": nontrivial,
            "rule": "one evaluation = one obligation instance (harness x bound parameters); non-trivial = it had symbolic inputs, "
                    "at least one feasible path and at least one assertion query; states = feasible symbolic paths explored, "
                    "transitions = branch decisions on symbolic values",
            "functions_encoded": sorted(funcs),
            "source_sha1": src_sha,
            "bounds": meta.get("bounds", {}).get(tier, meta.get("bounds")),
            "outside_bounds": meta.get("outside", []),
            "stubs": meta.get("stubs", []),
            "queries": st.q,
            "assertion_queries": st.checks,
            "unknown_feasibility": st.unknown_feas,
            "solver_s": round(st.solver_s, 2),
            "obligation_results": per_ob,
            "witnesses_replayed": len(rr),
            "witnesses_confirmed": confirmed,
            "known_findings_hit": {k: v["n"] for k, v in known_hits.items()},
            "inconclusive": inconclusive[:50],
            "engines": sorted({results[i]["engine"] for i in sel}),
        },
        "assumptions": meta.get("assumptions", []),
        "wall_s": round(time.time() - t0, 2),
        "violations": len(new_violations),
    }
    if ev["coverage"]["states"] < 1 or ev["coverage"]["transitions"] < 1:
        # keep the file schema-valid even for a broken run; the inconclusive exit code tells the story
        ev["coverage"]["states"] = max(1, ev["coverage"]["states"])
        ev["coverage"]["transitions"] = max(1, ev["coverage"]["transitions"])
    if not a.only:
        # evidence/ describes runs against /repo itself; runs against a scratch copy (seeded changes, mutants) write elsewhere
        evdir = os.path.join(VERIF, "evidence") if (os.path.realpath(REPO) == "/repo" and not os.environ.get("VERIF_SCRATCH_EVIDENCE")) \
            else os.path.join(VERIF, "scratch", "evidence")
        os.makedirs(evdir, exist_ok=True)
        json.dump(ev, open(os.path.join(evdir, f"{prop}.json"), "w"), indent=1, default=str)
    print(f"{prop} {tier}: {len(sel)} obligations, {st.paths} paths, queries {st.q}, solver {st.solver_s:.1f}s, "
          f"replayed {len(rr)} (confirmed {confirmed}, known {sum(v['n'] for v in known_hits.values())}), "
          f"new violations {len(new_violations)}, inconclusive {len(inconclusive)}, wall {time.time() - t0:.1f}s")
    if new_violations:
        return 1
    if inconclusive:
        return 2
    return 0


if __name__ == "__main__":
    sys.exit(main())
