#!/usr/bin/env python3
"""print one line per seeded result: tools/showres.py C17-e C17-f ..."""
import json, sys, os
V = os.path.dirname(os.path.dirname(os.path.abspath(__file__)))
for sid in sys.argv[1:]:
    p = os.path.join(V, "seeded", sid, "result.json")
    if not os.path.exists(p):
        print(sid, "no result yet"); continue
    r = json.load(open(p))
    print(sid, "CAUGHT" if r.get("caught") else "MISSED", r.get("error", ""), {k: (v["exit"], v["violations"], v["summary"][-150:]) for k, v in r.get("checks", {}).items()}, r.get("wall_s"))
