#!/usr/bin/env python3
"""run the registered quick checks against every seeded change in /verif/seeded/<id>/ and write seeded/RESULTS.md.

usage: tools/seeded.py [--verify] [--inplace] [ids...]
  default : each change is applied to a scratch copy of /repo's working tree under /dev/shm and the property's quick check runs
            with VERIF_REPO pointing at it (does not disturb /repo)
  --inplace: apply with `git -C /repo apply`, run, and undo with `git -C /repo checkout -- .` (the prescribed procedure; only when
            nothing else is using /repo)
  --verify : also run the demonstration program with and without the change (must exit 1 / 0)
"""
import json
import os
import shutil
import subprocess
import sys
import time

VERIF = os.path.dirname(os.path.dirname(os.path.abspath(__file__)))
SEEDED = os.path.join(VERIF, "seeded")


def sh(cmd, cwd=None, env=None, timeout=3600):
    return subprocess.run(cmd, cwd=cwd, env=env, capture_output=True, text=True, timeout=timeout)


def scratch_copy(tag):
    d = f"/dev/shm/seed_{tag}_{os.getpid()}"
    shutil.rmtree(d, ignore_errors=True)
    os.makedirs(d)
    sh(["git", "-C", "/repo", "worktree", "prune"])
    # working tree files only (no .git): rsync-like copy
    for name in os.listdir("/repo"):
        if name in (".git", "buidl.egg-info"):
            continue
        src = os.path.join("/repo", name)
        if os.path.isdir(src):
            shutil.copytree(src, os.path.join(d, name), ignore=shutil.ignore_patterns("__pycache__", "*.pyc"))
        else:
            shutil.copy2(src, d)
    return d


def run_one(sid, verify, inplace):
    sd = os.path.join(SEEDED, sid)
    meta = json.load(open(os.path.join(sd, "meta.json")))
    prop = meta["property"]
    patch = os.path.join(sd, "patch.diff")
    res = {"id": sid, "property": prop, "what": meta.get("what", ""), "needs": meta.get("needs", "")}
    if inplace:
        repo = "/repo"
        r = sh(["git", "-C", "/repo", "apply", patch])
    else:
        repo = scratch_copy(sid)
        r = sh(["patch", "-p1", "-s", "-i", patch], cwd=repo)
    if r.returncode != 0:
        res["error"] = "patch does not apply: " + (r.stderr or r.stdout)[-300:]
        if not inplace:
            shutil.rmtree(repo, ignore_errors=True)
        return res
    try:
        if verify:
            demo = [f for f in os.listdir(sd) if f.startswith("demo")][0]
            r1 = sh(["/venv/bin/python", os.path.join(sd, demo)], cwd=repo, timeout=1800)
            res["demo_with_change"] = r1.returncode
            r0 = sh(["/venv/bin/python", os.path.join(sd, demo)], cwd="/repo" if not inplace else repo, timeout=1800) if not inplace else None
            res["demo_clean"] = r0.returncode if r0 is not None else None
        env = dict(os.environ)
        env["VERIF_REPO"] = repo
        env["VERIF_SCRATCH_EVIDENCE"] = "1"
        t0 = time.time()
        checks = meta.get("checks", [prop])
        outs = {}
        for c in checks:
            r = sh([os.path.join(VERIF, "check"), c, "--tier", "quick"], cwd=VERIF, env=env, timeout=7200)
            lines = r.stdout.strip().splitlines()
            nviol = sum(1 for l in lines if l.startswith("VIOLATION"))
            first = next((l for l in lines if l.startswith("  obligation")), "")
            outs[c] = {"exit": r.returncode, "violations": nviol, "first": first.strip()[:260], "summary": lines[-1][:200] if lines else ""}
        res["checks"] = outs
        res["wall_s"] = round(time.time() - t0, 1)
        res["caught"] = any(o["exit"] == 1 and o["violations"] > 0 for o in outs.values())
    finally:
        if inplace:
            sh(["git", "-C", "/repo", "checkout", "--", "."])
        else:
            shutil.rmtree(repo, ignore_errors=True)
    return res


def main():
    args = sys.argv[1:]
    verify = "--verify" in args
    inplace = "--inplace" in args
    ids = [a for a in args if not a.startswith("--")] or sorted(d for d in os.listdir(SEEDED) if os.path.isdir(os.path.join(SEEDED, d)))
    if "--table-only" in args:
        ids = []
    results = []
    for sid in ids:
        r = run_one(sid, verify, inplace)
        results.append(r)
        print(json.dumps(r)[:600], flush=True)
        json.dump(r, open(os.path.join(SEEDED, sid, "result.json"), "w"), indent=1)
    # table over everything present
    rows = []
    for sid in sorted(d for d in os.listdir(SEEDED) if os.path.isdir(os.path.join(SEEDED, d))):
        p = os.path.join(SEEDED, sid, "result.json")
        if not os.path.exists(p):
            continue
        r = json.load(open(p))
        if "error" in r:
            rows.append(f"| {sid} | {r['property']} | {r['what'][:90]} | ERROR {r['error'][:60]} | |")
            continue
        ck = "; ".join(f"{c}: exit {o['exit']}, {o['violations']} violations" for c, o in r["checks"].items())
        first = next((o["first"] for o in r["checks"].values() if o["first"]), "")
        hist = ""
        mp = os.path.join(SEEDED, sid, "meta.json")
        if os.path.exists(mp):
            hist = json.load(open(mp)).get("detection_history", "")
        rows.append(f"| {sid} | {r['property']} | {r['what'][:160]} | {'CAUGHT' if r['caught'] else 'missed'} ({ck}) | {first[:150]} | {hist[:300]} |")
    with open(os.path.join(SEEDED, "RESULTS.md"), "w") as f:
        f.write("# Seeded changes vs. the registered quick checks\n\nGenerated by tools/seeded.py. A change counts as caught when the "
                "property's quick check exits 1 with replay-confirmed VIOLATION lines on the tree with the change applied.\n\n"
                "| seeded id | property | change | result (current checks) | first reported witness | detection history (empty = caught by the check as first built) |\n|---|---|---|---|---|---|\n" + "\n".join(rows) + "\n")
    print(f"{sum(1 for r in results if r.get('caught'))}/{len(results)} caught")


if __name__ == "__main__":
    main()
