#!/usr/bin/env python3
"""take the seeded changes delivered by the independent sub-agents under /tmp/mutants/<prop>/{a,b}.* , confirm them here
(patch applies to the current /repo tree; the demonstration exits 1 with the change and 0 without; the existing tests still pass with
the change) and store the confirmed ones as /verif/seeded/<prop>-<x>/ {patch.diff, demo.py, meta.json}.

usage: tools/intake.py C05 C07 ...     (properties to take in; several run in parallel)
"""
import concurrent.futures as cf
import json
import os
import shutil
import subprocess
import sys

VERIF = os.path.dirname(os.path.dirname(os.path.abspath(__file__)))
sys.path.insert(0, os.path.join(VERIF, "tools"))
from seeded import scratch_copy, sh  # noqa: E402

TEST_CMD = ["/venv/bin/python", "-m", "pytest", "-q", "-p", "no:cacheprovider", "-p", "no:rerunfailures", "buidl/test", "-k", "not test_socket_guard"]
SLOW = ["--ignore=buidl/test/test_musig.py", "--ignore=buidl/test/test_taproot.py"]


SRC = os.environ.get("MUT_SRC", "/tmp/mutants")
OUT = dict(zip("ab", os.environ.get("MUT_OUT", "ab")))


def take(prop, x):
    src = f"{SRC}/{prop}"
    sid = f"{prop}-{OUT[x]}"
    out = {"id": sid}
    if not os.path.exists(f"{src}/{x}.diff"):
        out["error"] = "not delivered"
        return out
    meta = json.load(open(f"{src}/{x}_meta.json")) if os.path.exists(f"{src}/{x}_meta.json") else {"property": prop}
    clean = scratch_copy(sid + "_clean")
    mut = scratch_copy(sid + "_mut")
    try:
        r = sh(["patch", "-p1", "-s", "-i", f"{src}/{x}.diff"], cwd=mut)
        if r.returncode != 0:
            out["error"] = "patch does not apply: " + (r.stdout + r.stderr)[-200:]
            return out
        d1 = sh(["/venv/bin/python", f"{src}/{x}_demo.py"], cwd=mut, timeout=3600)
        d0 = sh(["/venv/bin/python", f"{src}/{x}_demo.py"], cwd=clean, timeout=3600)
        out["demo_with_change"], out["demo_clean"] = d1.returncode, d0.returncode
        if not (d1.returncode == 1 and d0.returncode == 0):
            out["error"] = f"demonstration does not discriminate (with change exit {d1.returncode}, clean exit {d0.returncode})"
            return out
        diff = open(f"{src}/{x}.diff").read()
        touched_slow = any(k in diff for k in ("taproot.py", "schnorr", "sign_schnorr", "verify_schnorr", "hash.py", "phash.py", "tweak", "xonly"))
        cmd = TEST_CMD + ([] if touched_slow else SLOW)
        t = sh(cmd, cwd=mut, timeout=7200)
        tail = t.stdout.strip().splitlines()[-1] if t.stdout.strip() else ""
        out["tests"] = tail
        failed = [l for l in t.stdout.splitlines() if l.startswith("FAILED") and "test_p2tr_validation" not in l]
        if " failed" in tail and failed:
            out["error"] = "existing tests fail with the change: " + "; ".join(failed[:3])
            return out
        dst = os.path.join(VERIF, "seeded", sid)
        os.makedirs(dst, exist_ok=True)
        shutil.copy(f"{src}/{x}.diff", f"{dst}/patch.diff")
        shutil.copy(f"{src}/{x}_demo.py", f"{dst}/demo.py")
        meta.update({"property": prop, "source": "independent sub-agent given only the property text and a scratch worktree",
                     "confirmed_here": {"demo_exit_with_change": 1, "demo_exit_clean": 0,
                                        "tests": " ".join(cmd[2:]) + " (on a scratch copy with the patch applied; test_socket_guard always fails in this "
                                                 "sandbox; the 14 pexpect CLI tests are load-sensitive and were not used as a criterion) -> " + tail}})
        json.dump(meta, open(f"{dst}/meta.json", "w"), indent=1)
        out["ok"] = True
        return out
    finally:
        shutil.rmtree(clean, ignore_errors=True)
        shutil.rmtree(mut, ignore_errors=True)


def main():
    jobs = [(p, x) for p in sys.argv[1:] for x in ("a", "b")]
    with cf.ThreadPoolExecutor(4) as ex:
        for r in ex.map(lambda j: take(*j), jobs):
            print(json.dumps(r), flush=True)


if __name__ == "__main__":
    main()
