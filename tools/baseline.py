#!/usr/bin/env python3
"""run /repo's test suite (guard off) with xdist and compare against /root/.vp/BASELINE.json stable_pass"""
import json, subprocess, sys, os, xml.etree.ElementTree as ET, tempfile
out = sys.argv[1] if len(sys.argv) > 1 else "/tmp/baseline.junit.xml"
n = None
env = dict(os.environ); env.pop("BUIDL_PYTHON_VERIF", None)
subprocess.run(["/venv/bin/python", "-m", "pytest", "-q", "-p", "no:cacheprovider", "--timeout=900", "--continue-on-collection-errors",
                f"--junitxml={out}"], cwd="/repo", env=env, stdout=subprocess.DEVNULL, stderr=subprocess.DEVNULL)
base = json.load(open("/root/.vp/BASELINE.json"))
passed = set()
for tc in ET.parse(out).getroot().iter("testcase"):
    if not any(ch.tag in ("failure", "error", "skipped") for ch in tc):
        passed.add(f"{tc.get('classname')}::{tc.get('name')}")
missing = [t for t in base["stable_pass"] if t not in passed]
print("stable_pass:", len(base["stable_pass"]), "passed now:", len(passed), "missing:", len(missing))
for m in missing: print("  MISSING", m)
sys.exit(1 if missing else 0)
