#!/bin/sh
# usage: tools/trydiff.sh <patch.diff> <CNN> [tier]   -- run one check against a scratch copy of /repo with the patch applied
set -e
d=/dev/shm/try_$$
rm -rf $d; mkdir -p $d
(cd /repo && tar cf - --exclude=.git --exclude=__pycache__ .) | (cd $d && tar xf -)
(cd $d && patch -p1 -s -i "$1")
set +e
VERIF_REPO=$d VERIF_SCRATCH_EVIDENCE=1 /verif/check "$2" --tier "${3:-quick}" | grep -E "^VIOLATION|obligation|^C[0-9]+ " | cut -c1-400 | head -${TRY_HEAD:-12}
rm -rf $d
