#!/bin/sh
# run every claimed quick check against /repo (sequentially), validate the evidence files against the schema
cd "$(dirname "$0")/.."
rc=0
for c in $(.venv/bin/python -c "import json;print(' '.join(json.load(open('vlib/claimed.json'))))"); do
  ./check $c --tier quick > /tmp/regen_$c.log 2>&1; e=$?
  tail -1 /tmp/regen_$c.log | cut -c1-220
  [ $e -eq 0 ] || { echo "  !! $c exit $e"; rc=1; }
done
.venv/bin/python - <<'PY'
import json, jsonschema, glob
sch = json.load(open('/root/.vp/EVIDENCE.schema.json'))
for c in json.load(open('vlib/claimed.json')):
    jsonschema.validate(json.load(open(f'evidence/{c}.json')), sch)
jsonschema.validate(json.load(open('MANIFEST.json')), json.load(open('/root/.vp/MANIFEST.schema.json')))
print("evidence + manifest valid")
PY
exit $rc
