#!/bin/sh
# usage: tools/mut.sh <check id> <file relative to repo> <python-regex-old> <new>   -- one-shot mutant run on a scratch copy
ID=$1; F=$2; OLD=$3; NEW=$4
D=/dev/shm/mut_$$
rm -rf $D; mkdir -p $D; cp -r /repo/buidl $D/buidl
/venv/bin/python - "$D/$F" "$OLD" "$NEW" <<'PY'
import sys,re
p,old,new=sys.argv[1:4]
s=open(p).read()
assert old in s, "pattern not found"
s=s.replace(old,new,1)
open(p,'w').write(s)
PY
[ $? -eq 0 ] || { rm -rf $D; exit 3; }
VERIF_REPO=$D /verif/check $ID ${5:+--only $5} 2>&1 | grep -v "^VIOLATION" | cut -c1-260 | tail -${TAILN:-3}
rm -rf $D
