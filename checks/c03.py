"""C03 — group law and public-key encodings on the real FieldElement / Point / S256Point classes over toy curves
y^2 = x^3 + 7 / F_p (DESIGN.md section 3, C03).  The module constants P, N, G are re-bound for the duration of a harness;
the code under test is unchanged."""
import itertools

from symx import core, loader, shims
from symx.core import SI, SBytes, check, s_and, s_or, s_not, s_implies, assume, bytes_env, Out, conc_value, wrapb, lift, branch
from vlib.run import Ob, sym_run, merge_runs, conc_run

PROPERTY = "C03"


def isprime(n):
    return n > 1 and all(n % k for k in range(2, int(n ** 0.5) + 1))


def curve_points(p):
    return [(x, y) for x in range(p) for y in range(p) if (y * y - x ** 3 - 7) % p == 0]


# toy curves with prime group order and p = 3 mod 4 (so the library's sqrt exponent (p+1)/4 applies)
PRIME_ORDER = [(43, 31), (67, 79), (79, 67), (127, 127), (163, 139), (211, 199)]

META = {
    "bounds": {
        "quick": {"field": "all a,b,c in F_p for p in {5,7,11,13}; powers k in [-3, 8]",
                  "group law": "all pairs of on-curve points (symbolic coordinates) of y^2=x^3+7 over F_p, p in {11,13,19}; associativity p = 11",
                  "scalar mult": "toy group (p,q) = (43,31): coefficients symbolic in [-70, 200] (incl. negative, >= q)",
                  "encodings": "toy fields p in {43,67}: every point (sec compressed/uncompressed, xonly round trip); every 33-byte and 65-byte "
                               "string whose coordinate bytes are < 2^16 (symbolic prefix byte + symbolic low coordinate bytes)"},
        "thorough": {"field": "all primes <= 31", "group law": "all primes 5..61 and 223", "scalar mult": "all six prime-order toy groups, "
                     "coefficients in [-300, 700]", "encodings": "all six toy fields"}},
    "outside": ["symbolic arithmetic at the real 256-bit field (256x256-bit modular multiplication is out of reach of the solver): the real "
                "constants are checked concretely only (O5)", "cecc.py"],
    "stubs": ["module constants P, N, G of buidl.pecc re-bound to a toy curve for O3/O4"],
    "assumptions": ["the classes behave uniformly in the modulus (they take it as a parameter or module constant)"],
}
MANIFEST = {"technique": "symbolic execution of the real FieldElement/Point/S256Point code with symbolic field elements and coordinates over toy "
                         "prime fields; axioms and the chord-tangent relation decided by z3 bit-vectors"}


def pecc():
    return loader.load("pecc")


# ---------------------------------------------------------------------------------------- O1 field axioms

def _field_path(p):
    m = pecc()
    FE = m.FieldElement
    a, b, c = (SI.var(n, 0, p - 1) for n in "abc")
    A, B, C = FE(a, p), FE(b, p), FE(c, p)
    wit = lambda env: {"p": p, "a": env["a"], "b": env["b"], "c": env["c"]}  # noqa

    def eq(x, y):
        return x.num == y.num
    try:
        return _field_axioms(p, FE, A, B, C, b, eq, wit)
    except (ValueError, TypeError, ArithmeticError, AttributeError, IndexError) as ex:
        check(False, f"a field operation on elements of the field raised {type(ex).__name__}", witness=wit)
        return "raised"


def _field_axioms(p, FE, A, B, C, b, eq, wit):
    check(eq((A + B) + C, A + (B + C)), "addition not associative", witness=wit)
    check(eq(A + B, B + A), "addition not commutative", witness=wit)
    check(eq((A * B) * C, A * (B * C)), "multiplication not associative", witness=wit)
    check(eq(A * B, B * A), "multiplication not commutative", witness=wit)
    check(eq(A * (B + C), A * B + A * C), "not distributive", witness=wit)
    check(eq((A - B) + B, A), "(a-b)+b != a", witness=wit)
    check(eq(A + FE(0, p), A), "0 not neutral", witness=wit)
    check(eq(A * FE(1, p), A), "1 not neutral", witness=wit)
    r = A + B
    check(s_and(r.num >= 0, r.num < p), "result not reduced", witness=wit)
    check(eq(3 * A, A + A + A), "__rmul__ by integer", witness=wit)
    if b != 0:
        check(eq((A / B) * B, A), "(a/b)*b != a", witness=wit)
        check(eq(B ** (p - 1), FE(1, p)), "b^(p-1) != 1", witness=wit)
        check(eq(B ** -1, FE(1, p) / B), "b^-1 != 1/b", witness=wit)
    acc = FE(1, p)
    for k in range(0, 7):
        check(eq(A ** k, acc) if (k > 0) else eq(FE(1, p), acc), f"a^{k} != repeated multiplication", witness=wit)
        acc = acc * A
    return "ok"


SECP_P = 2 ** 256 - 2 ** 32 - 977


def _field_real_path(cls_name):
    """the additive structure, constructor range and integer multiples on the REAL field prime 2^256 - 2^32 - 977 with 256-bit symbolic
    representatives (products of two symbolic elements stay with the toy primes: non-linear)"""
    m = pecc()
    p = SECP_P
    if cls_name == "S256Field":
        mk = lambda v: m.S256Field(v)  # noqa
    else:
        mk = lambda v: m.FieldElement(v, p)  # noqa
    a, b, c = (SI.var(n, 0, p - 1) for n in "abc")
    wit = lambda env: {"p": p, "a": env["a"], "b": env["b"], "c": env["c"], "cls": cls_name}  # noqa
    try:
        A, B, C = mk(a), mk(b), mk(c)
        eq = lambda x, y: x.num == y.num  # noqa
        check(eq((A + B) + C, A + (B + C)), "addition not associative (real prime)", witness=wit)
        check(eq(A + B, B + A), "addition not commutative (real prime)", witness=wit)
        check(eq((A - B) + B, A), "(a-b)+b != a (real prime)", witness=wit)
        check(eq(A - A, mk(0)), "a-a != 0 (real prime)", witness=wit)
        check(eq(A + mk(0), A), "0 not neutral (real prime)", witness=wit)
        for r in (A + B, A - B, 3 * A, (p - 1) * A):
            check(s_and(r.num >= 0, r.num < p), "result not reduced (real prime)", witness=wit)
        check(eq(3 * A, A + A + A), "__rmul__ by 3 (real prime)", witness=wit)
        check(eq((p - 1) * A, mk(0) - A), "(p-1)*a != -a (real prime)", witness=wit)
        check(eq(A * mk(1), A), "1 not neutral (real prime)", witness=wit)
        check(eq(A * mk(p - 1), mk(0) - A), "a*(p-1) != -a (real prime)", witness=wit)
        check(type(A + B).__name__ == cls_name, "result is not of the operand class", witness=wit)
    except (ValueError, TypeError, ArithmeticError, AttributeError, IndexError) as ex:
        check(False, f"a field operation on elements of the field raised {type(ex).__name__} (real prime)", witness=wit)
        return "raised"
    # constructor: exactly the representatives 0..p-1
    v = SI.var("v", -(1 << 257), 1 << 257)
    try:
        mk(v)
        check(s_and(v >= 0, v < p), "constructor accepted a representative outside [0, p-1]", witness=lambda env: {"p": p, "v": env["v"], "cls": cls_name})
        return "ok"
    except ValueError:
        check(s_or(v < 0, v >= p), "constructor refused a representative inside [0, p-1]", witness=lambda env: {"p": p, "v": env["v"], "cls": cls_name})
        return "refused"


def ob_field_real():
    runs = [sym_run(lambda: _field_real_path(c), mode="int", timeout_ms=60000, expect_classes=["ok", "refused"]) for c in ("FieldElement", "S256Field")]
    m = merge_runs(runs)
    m["sample"] = {"prime": "2^256 - 2^32 - 977", "a,b,c": "symbolic 256-bit representatives", "classes": ["FieldElement", "S256Field"]}
    return m


def replay_field_real(w):
    from buidl import pecc as m
    p = w["p"]
    mk = (lambda v: m.S256Field(v)) if w.get("cls") == "S256Field" else (lambda v: m.FieldElement(v, p))
    if "v" in w:
        try:
            mk(w["v"])
            ok = True
        except ValueError:
            ok = False
        return {"violated": ok != (0 <= w["v"] < p), "observed": f"{w.get('cls')}({w['v']:#x}) accepted={ok}"}
    bad = []
    try:
        A, B, C = mk(w["a"]), mk(w["b"]), mk(w["c"])
        Z = mk(0)
        if (A + B) + C != A + (B + C) or A + B != B + A or (A - B) + B != A or A - A != Z or A + Z != A:
            bad.append("additive axiom")
        if (A + B).num != (w["a"] + w["b"]) % p or (A - B).num != (w["a"] - w["b"]) % p:
            bad.append("value of a+b / a-b")
        if 3 * A != A + A + A or (p - 1) * A != Z - A or A * mk(1) != A or A * mk(p - 1) != Z - A:
            bad.append("integer multiple / multiplication by 1, -1")
    except (ValueError, TypeError, ArithmeticError, AttributeError, IndexError) as ex:
        bad.append(f"raised {ex!r}")
    return {"violated": bool(bad), "observed": f"{w.get('cls')} over 2^256-2^32-977, a={w['a']:#x} b={w['b']:#x} c={w['c']:#x}: {bad}"}


def ob_field(primes):
    runs = [sym_run(lambda: _field_path(p), timeout_ms=60000) for p in primes]
    m = merge_runs(runs)
    m["sample"] = {"primes": list(primes), "a,b,c": "symbolic field elements"}
    return m


def replay_field(w):
    from buidl.pecc import FieldElement as FE
    p = w["p"]
    A, B, C = FE(w["a"], p), FE(w["b"], p), FE(w["c"], p)
    bad = []
    try:
        if (A + B) + C != A + (B + C) or A + B != B + A or (A * B) * C != A * (B * C) or A * (B + C) != A * B + A * C or (A - B) + B != A:
            bad.append("ring axiom")
        if A + FE(0, p) != A or A * FE(1, p) != A or 3 * A != A + A + A:
            bad.append("neutral element / integer multiple")
        if w["b"] and ((A / B) * B != A or B ** (p - 1) != FE(1, p) or B ** -1 != FE(1, p) / B):
            bad.append("inverse")
        acc = FE(1, p)
        for k in range(0, 7):
            if A ** k != acc:
                bad.append(f"pow {k}")
            acc = acc * A
    except (ValueError, TypeError, ArithmeticError, AttributeError, IndexError) as ex:
        bad.append(f"raised {ex!r}")
    return {"violated": bool(bad), "observed": f"F_{p} a={w['a']} b={w['b']} c={w['c']}: {bad}"}


# ---------------------------------------------------------------------------------------- O2 group law

def _mkpoint(m, name, p, allow_inf):
    """a symbolic point of y^2 = x^3 + 7 over F_p (or infinity)"""
    FE, Point = m.FieldElement, m.Point
    a, b = FE(0, p), FE(7, p)
    if allow_inf and bool(SI.var(name + ".inf", 0, 1) == 1):
        return Point(None, None, a, b), None, None
    x = SI.var(name + ".x", 0, p - 1)
    y = SI.var(name + ".y", 0, p - 1)
    assume(((y * y - x * x * x - 7) % p) == 0)
    try:
        return Point(FE(x, p), FE(y, p), a, b), x, y
    except (ValueError, TypeError, ArithmeticError) as ex:
        check(False, f"constructing a point of the curve raised {type(ex).__name__}",
              witness=lambda env: {"p": p, "A": [env[name + ".x"], env[name + ".y"]], "B": None})
        raise core.PathAbort()


def spec_add(p, P1, P2):
    """chord-and-tangent relation with the slope constrained, not computed: returns (inf, x3, y3)"""
    (i1, x1, y1), (i2, x2, y2) = P1, P2
    if i1:
        return P2
    if i2:
        return P1
    if x1 == x2:
        if ((y1 + y2) % p) == 0:
            return (True, None, None)
        lam = SI.var("lam", 0, p - 1)
        assume(((lam * 2 * y1 - 3 * x1 * x1) % p) == 0)
    else:
        lam = SI.var("lam", 0, p - 1)
        assume(((lam * (x2 - x1) - (y2 - y1)) % p) == 0)
    x3 = (lam * lam - x1 - x2) % p
    y3 = (lam * (x1 - x3) - y1) % p
    return (False, x3, y3)


def _pt_tuple(pt):
    if pt.x is None:
        return (True, None, None)
    return (False, pt.x.num, pt.y.num)


def _same(t1, t2):
    if t1[0] or t2[0]:
        return t1[0] == t2[0]
    return s_and(t1[1] == t2[1], t1[2] == t2[2])


def _group_path(p, assoc):
    m = pecc()
    A, ax, ay = _mkpoint(m, "A", p, True)
    B, bx, by = _mkpoint(m, "B", p, True)

    def wit(env):
        return {"p": p, "A": [env.get("A.x"), env.get("A.y")] if not env.get("A.inf") else None,
                "B": [env.get("B.x"), env.get("B.y")] if not env.get("B.inf") else None}
    try:
        S = A + B
    except Exception as ex:
        check(False, f"adding two points of the curve raised {type(ex).__name__}", witness=wit)
        return "raised"
    got = _pt_tuple(S)
    want = spec_add(p, _pt_tuple(A), _pt_tuple(B))
    check(_same(got, want), "A + B differs from the chord-and-tangent law", witness=wit)
    if not got[0]:
        check(((got[2] * got[2] - got[1] * got[1] * got[1] - 7) % p) == 0, "A + B is not on the curve", witness=wit)
    try:
        S2 = B + A
        check(_same(_pt_tuple(S2), got), "A + B != B + A", witness=wit)
    except Exception as ex:
        check(False, f"B + A raised {type(ex).__name__}", witness=wit)
    if A.x is not None:
        neg = m.Point(A.x, m.FieldElement((p - ay) % p, p), A.a, A.b)
        try:
            Z = A + neg
            check(Z.x is None, "A + (-A) is not the point at infinity", witness=wit)
        except Exception as ex:
            check(False, f"A + (-A) raised {type(ex).__name__}", witness=wit)
        try:
            D = A + A
            D2 = 2 * A
            check(_same(_pt_tuple(D), _pt_tuple(D2)), "A + A != 2A", witness=wit)
        except Exception as ex:
            check(False, f"doubling raised {type(ex).__name__}", witness=wit)
    return "ok"


def _assoc_path(p):
    m = pecc()
    A, _, _ = _mkpoint(m, "A", p, False)
    B, _, _ = _mkpoint(m, "B", p, False)
    C, _, _ = _mkpoint(m, "C", p, False)

    def wit(env):
        return {"p": p, "A": [env["A.x"], env["A.y"]], "B": [env["B.x"], env["B.y"]], "C": [env["C.x"], env["C.y"]]}
    try:
        l = (A + B) + C
        r = A + (B + C)
    except Exception as ex:
        check(False, f"addition raised {type(ex).__name__}", witness=wit)
        return "raised"
    check(_same(_pt_tuple(l), _pt_tuple(r)), "(A+B)+C != A+(B+C)", witness=wit)
    return "ok"


def ob_group(primes):
    runs = [sym_run(lambda: _group_path(p, False), timeout_ms=120000, max_violations=8) for p in primes]
    m = merge_runs(runs)
    m["sample"] = {"curves": [f"y^2=x^3+7 / F_{p}" for p in primes], "operands": "two symbolic points incl. infinity / equal / opposite"}
    return m


def ob_assoc(primes):
    runs = [sym_run(lambda: _assoc_path(p), timeout_ms=240000, max_violations=8) for p in primes]
    m = merge_runs(runs)
    m["sample"] = {"curves": list(primes), "operands": "three symbolic points"}
    return m


def ref_add(p, P1, P2):
    """reference affine addition on plain integers (None = infinity)"""
    if P1 is None:
        return P2
    if P2 is None:
        return P1
    (x1, y1), (x2, y2) = P1, P2
    if x1 == x2 and (y1 + y2) % p == 0:
        return None
    if x1 == x2:
        lam = 3 * x1 * x1 * pow(2 * y1, -1, p) % p
    else:
        lam = (y2 - y1) * pow(x2 - x1, -1, p) % p
    x3 = (lam * lam - x1 - x2) % p
    return (x3, (lam * (x1 - x3) - y1) % p)


def ref_mul(p, c, P1):
    R = None
    Q = P1
    while c:
        if c & 1:
            R = ref_add(p, R, Q)
        Q = ref_add(p, Q, Q)
        c >>= 1
    return R


def _real_point(p, t):
    from buidl.pecc import FieldElement as FE, Point
    a, b = FE(0, p), FE(7, p)
    if t is None:
        return Point(None, None, a, b)
    return Point(FE(t[0], p), FE(t[1], p), a, b)


def _tup(pt):
    return None if pt.x is None else (pt.x.num, pt.y.num)


def replay_group(w):
    p = w["p"]
    A = tuple(w["A"]) if w.get("A") else None
    B = tuple(w["B"]) if w.get("B") else None
    C = tuple(w["C"]) if w.get("C") else None
    probs = []
    try:
        if C is None:
            cases = [("A+B", lambda: _real_point(p, A) + _real_point(p, B), ref_add(p, A, B)),
                     ("B+A", lambda: _real_point(p, B) + _real_point(p, A), ref_add(p, A, B))]
            if A is not None:
                cases.append(("A+A", lambda: _real_point(p, A) + _real_point(p, A), ref_add(p, A, A)))
                cases.append(("2A", lambda: 2 * _real_point(p, A), ref_add(p, A, A)))
                cases.append(("A+(-A)", lambda: _real_point(p, A) + _real_point(p, (A[0], (p - A[1]) % p)), None))
        else:
            cases = [("(A+B)+C", lambda: (_real_point(p, A) + _real_point(p, B)) + _real_point(p, C), ref_add(p, ref_add(p, A, B), C)),
                     ("A+(B+C)", lambda: _real_point(p, A) + (_real_point(p, B) + _real_point(p, C)), ref_add(p, A, ref_add(p, B, C)))]
        for name, f, want in cases:
            try:
                got = _tup(f())
            except Exception as ex:
                probs.append(f"{name} raised {ex!r}")
                continue
            if got != want:
                probs.append(f"{name} = {got}, expected {want}")
    except Exception as ex:
        return {"violated": None, "error": repr(ex)}
    return {"violated": bool(probs), "observed": f"F_{p} A={A} B={B} C={C}: {probs}", "order2": bool(A and A[1] == 0) or bool(B and B[1] == 0)}


# ---------------------------------------------------------------------------------------- O3 scalar multiplication on toy groups

class Toy:
    """re-bind pecc.P / N / G (and A, B stay 0, 7) to a toy curve of prime order"""

    def __init__(self, p, q):
        self.m = pecc()
        self.p, self.q = p, q
        self.saved = (self.m.P, self.m.N, self.m.G)
        self.m.P, self.m.N = p, q
        gx, gy = curve_points(p)[0]
        self.g = (gx, gy)
        self.m.G = self.m.S256Point(gx, gy)

    def close(self):
        self.m.P, self.m.N, self.m.G = self.saved


def _smul_path(p, q, lo, hi):
    t = Toy(p, q)
    try:
        m = t.m
        a = SI.var("a", lo, hi)
        b = SI.var("b", 0, q + 3)
        wit = lambda env: {"p": p, "q": q, "a": env["a"], "b": env["b"]}  # noqa
        G = m.G

        def attempt(label, f, want_fn):
            """an exception from the implementation on valid operands is a violation, not a harness error"""
            try:
                got = f()
            except Exception as ex:
                check(False, f"{label}: raised {type(ex).__name__}", witness=wit)
                return None
            check(_tup(got) == want_fn(), label, witness=wit)
            return got
        aG = a * G
        av = core.concretize(a)  # the double-and-add loop has decided every bit of a mod q: a is fixed up to the path
        bv = core.concretize(b)
        check(_tup(aG) == ref_mul(p, av % q, t.g), "a*G differs from reference double-and-add of a mod q", witness=wit)
        bG = attempt("b*G", lambda: bv * G, lambda: ref_mul(p, bv % q, t.g))
        if bG is not None:
            attempt("(a+b)G != aG + bG", lambda: aG + bG, lambda: ref_mul(p, (av + bv) % q, t.g))
        attempt("b(aG) != (ab)G", lambda: bv * aG, lambda: ref_mul(p, (av * bv) % q, t.g))
        attempt("(-b)(aG) != (-ab)G", lambda: (-bv) * aG, lambda: ref_mul(p, (-av * bv) % q, t.g))
        attempt("q*P is not the point at infinity", lambda: q * aG, lambda: None)
        attempt("point + int shorthand differs from P + bG", lambda: aG + bv, lambda: ref_mul(p, (av + bv) % q, t.g))
        return "ok"
    finally:
        t.close()


def _plusint_path(p, q, lo, hi):
    """the `point + int` shorthand (P + k means P + k*G) for k far outside [0, q): negative, beyond the field prime, beyond 2p"""
    t = Toy(p, q)
    try:
        m = t.m
        a = SI.var("a", 0, q)
        b = SI.var("b", lo, hi)
        wit = lambda env: {"p": p, "q": q, "a": env["a"], "b": env["b"]}  # noqa
        aG = a * m.G
        av = core.concretize(a)
        try:
            got = aG + b
        except Exception as ex:
            check(False, f"point + int raised {type(ex).__name__}", witness=wit)
            return "raised"
        bv = core.concretize(b)
        check(_tup(got) == ref_mul(p, (av + bv) % q, t.g), "point + int shorthand differs from P + (k mod n)*G", witness=wit)
        return "ok"
    finally:
        t.close()


def ob_plusint(p, q, lo, hi):
    r = sym_run(lambda: _plusint_path(p, q, lo, hi), timeout_ms=30000, max_paths=400000, max_violations=40)
    r["sample"] = {"toy group": f"y^2=x^3+7 / F_{p}, order {q}", "a": f"symbolic in [0,{q}]", "k": f"symbolic in [{lo},{hi}]"}
    return r


def ob_smul(p, q, lo, hi):
    r = sym_run(lambda: _smul_path(p, q, lo, hi), timeout_ms=30000, max_paths=400000)
    r["sample"] = {"toy group": f"y^2=x^3+7 / F_{p}, order {q}", "a": f"symbolic in [{lo},{hi}]", "b": f"symbolic in [0,{q + 3}]"}
    return r


def replay_smul(w):
    from buidl import pecc as m
    p, q, a, b = w["p"], w["q"], w["a"], w["b"]
    saved = (m.P, m.N, m.G)
    m.P, m.N = p, q
    g = curve_points(p)[0]
    m.G = m.S256Point(*g)
    try:
        bad = []

        def attempt(label, f, want):
            try:
                if _tup(f()) != want:
                    bad.append(label)
            except Exception as ex:
                bad.append(f"{label} raised {ex!r}")
        aG = a * m.G
        attempt("aG", lambda: a * m.G, ref_mul(p, a % q, g))
        attempt("(a+b)G", lambda: aG + b * m.G, ref_mul(p, (a + b) % q, g))
        attempt("b(aG)", lambda: b * aG, ref_mul(p, a * b % q, g))
        attempt("(-b)(aG)", lambda: (-b) * aG, ref_mul(p, (-a * b) % q, g))
        attempt("qP", lambda: q * aG, None)
        attempt("P+int", lambda: aG + b, ref_mul(p, (a + b) % q, g))
        return {"violated": bool(bad), "observed": f"F_{p} order {q} a={a} b={b}: {bad}"}
    finally:
        m.P, m.N, m.G = saved


# ---------------------------------------------------------------------------------------- O4 encodings on toy fields

def _sec_rt_path(p, q):
    t = Toy(p, q)
    try:
        m = t.m
        pts = curve_points(p)
        i = SI.var("i", 0, len(pts) - 1)
        iv = core.concretize(i)
        x, y = pts[iv]
        wit = lambda env: {"p": p, "q": q, "pt": list(pts[env["i"]])}  # noqa
        P1 = m.S256Point(x, y)
        for comp in (True, False):
            sec = P1.sec(compressed=comp)
            want = (bytes([2 + (y & 1)]) + x.to_bytes(32, "big")) if comp else (b"\x04" + x.to_bytes(32, "big") + y.to_bytes(32, "big"))
            check(sec == want, "SEC encoding layout", witness=wit)
            back = m.S256Point.parse(sec)
            check(_tup(back) == (x, y), "parse_sec(sec(P)) != P", witness=wit)
        xo = P1.xonly()
        check(xo == x.to_bytes(32, "big"), "x-only layout", witness=wit)
        back = m.S256Point.parse(xo)
        ye = y if y % 2 == 0 else p - y
        check(_tup(back) == (x, ye), "parse_xonly(xonly(P)) is not the even-y point", witness=wit)
        return "ok"
    finally:
        t.close()


def _on_curve(p, x, y):
    return ((y * y - x * x * x - 7) % p) == 0


def _sec_parse_path(p, q, size):
    """symbolic candidate encodings: prefix byte + coordinate bytes (the two low bytes of each coordinate symbolic, the rest zero)"""
    t = Toy(p, q)
    try:
        m = t.m
        pre = SI.var("prefix", 0, 255)
        xl = SBytes.sym("xl", 2)
        raw = SBytes([pre]) + b"\x00" * 30 + xl
        if size == 65:
            yl = SBytes.sym("yl", 2)
            raw = raw + b"\x00" * 30 + yl

        def wit(env):
            return {"p": p, "q": q, "raw": conc_value(raw, env).hex()}
        try:
            pt = m.S256Point.parse(raw)
            acc = True
        except (ValueError, RuntimeError):
            acc = False
        x = core.int_from_bytes(xl, "big")
        if size == 33:
            if not acc:
                # rejection is right unless the bytes encode a point: prefix 02/03, x < p, x^3+7 a square
                if s_and(s_or(pre == 2, pre == 3), x < p):
                    xv = core.concretize(x)
                    sq = any((yy * yy - xv ** 3 - 7) % p == 0 for yy in range(p))
                    check(not sq, "valid compressed encoding rejected", witness=wit)
                else:
                    check(True, "rejected")
                return "rejected"
            check(s_or(pre == 2, pre == 3), "compressed encoding accepted with a prefix other than 02/03", witness=wit)
            check(pt.x.num == x, "decoded x differs", witness=wit)
            check(_on_curve(p, pt.x.num, pt.y.num), "decoded point not on the curve", witness=wit)
            check((pt.y.num % 2) == (pre % 2), "decoded y parity does not match the prefix", witness=wit)
            return "accepted"
        y = core.int_from_bytes(yl, "big")
        if not acc:
            if s_and(pre == 4, x < p, y < p):
                check(s_not(_on_curve(p, x, y)), "valid uncompressed encoding rejected", witness=wit)
            else:
                check(True, "rejected")
            return "rejected"
        check(pre == 4, "65-byte encoding accepted with a prefix other than 04", witness=wit)
        check(s_and(pt.x.num == x, pt.y.num == y, x < p, y < p), "decoded coordinates differ", witness=wit)
        check(_on_curve(p, x, y), "accepted point not on the curve", witness=wit)
        return "accepted"
    finally:
        t.close()


def ob_encodings(p, q):
    runs = [sym_run(lambda: _sec_rt_path(p, q), timeout_ms=30000),
            sym_run(lambda: _sec_parse_path(p, q, 33), timeout_ms=60000, max_violations=12),
            sym_run(lambda: _sec_parse_path(p, q, 65), timeout_ms=60000, max_violations=12)]
    m = merge_runs(runs)
    m["sample"] = {"toy field": p, "inputs": "every curve point; 33/65-byte strings with symbolic prefix and low coordinate bytes"}
    return m


def replay_enc(w):
    from buidl import pecc as m
    p, q = w["p"], w["q"]
    saved = (m.P, m.N, m.G)
    m.P, m.N = p, q
    try:
        if "pt" in w:
            x, y = w["pt"]
            P1 = m.S256Point(x, y)
            bad = []
            for comp in (True, False):
                if _tup(m.S256Point.parse(P1.sec(comp))) != (x, y):
                    bad.append(f"sec {comp}")
            if _tup(m.S256Point.parse(P1.xonly())) != (x, y if y % 2 == 0 else p - y):
                bad.append("xonly")
            return {"violated": bool(bad), "observed": f"F_{p} point {(x, y)}: {bad}"}
        raw = bytes.fromhex(w["raw"])
        try:
            pt = m.S256Point.parse(raw)
            acc = True
        except (ValueError, RuntimeError):
            acc = False
        x = int.from_bytes(raw[1:33], "big")
        if len(raw) == 33:
            valid = raw[0] in (2, 3) and x < p and any((yy * yy - x ** 3 - 7) % p == 0 for yy in range(p))
            ok = (acc == valid) and (not acc or (pt.x.num == x and (pt.y.num ** 2 - x ** 3 - 7) % p == 0 and pt.y.num % 2 == raw[0] % 2))
        else:
            y = int.from_bytes(raw[33:], "big")
            valid = raw[0] == 4 and x < p and y < p and (y * y - x ** 3 - 7) % p == 0
            ok = (acc == valid) and (not acc or _tup(pt) == (x, y))
        return {"violated": not ok, "observed": f"F_{p}: parse({raw[:1].hex()}..x={x}) accepted={acc} valid={valid}", "prefix": raw[0]}
    finally:
        m.P, m.N, m.G = saved


# ---------------------------------------------------------------------------------------- O5 constants (trusted base, concrete)

def _constants():
    from buidl import pecc as m
    ok = isinstance(m.P, int) and m.P % 4 == 3 and (m.G.y.num ** 2 - m.G.x.num ** 3 - 7) % m.P == 0 and (m.N * m.G).x is None
    return ok, f"P = 3 mod 4, G on curve, N*G = infinity: {ok}"


def ob_constants():
    return conc_run(_constants, "secp256k1 constants")


def obligations(tier):
    q = tier == "quick"
    obs = [Ob("O5-constants", ob_constants)]
    fprimes = [5, 7, 11, 13] if q else [p for p in range(3, 32) if isprime(p)]
    for p in fprimes:
        obs.append(Ob("O1-field", ob_field, {"primes": (p,)}, replay="field", budget_s=1500))
    obs.append(Ob("O1-field-real-prime", ob_field_real, replay="field_real", budget_s=1500))
    gprimes = [11, 13, 19] if q else [p for p in range(5, 62) if isprime(p)] + [223]
    for p in gprimes:
        obs.append(Ob("O2-group-law", ob_group, {"primes": (p,)}, replay="group", budget_s=2400))
    for p in ([11] if q else [11, 13, 17]):
        obs.append(Ob("O2-associativity", ob_assoc, {"primes": (p,)}, replay="group", budget_s=2400))
    toys = PRIME_ORDER[:2] if q else PRIME_ORDER
    for (p, qq) in toys:
        lo, hi = (-70, 200) if q else (-300, 700)
        step = 30 if q else 50
        for a0 in (range(lo, hi, step) if (not q or p == 43) else ()):
            obs.append(Ob("O3-scalar-mult", ob_smul, {"p": p, "q": qq, "lo": a0, "hi": min(a0 + step - 1, hi)}, replay="smul", budget_s=2400))
        if not q or p == 43:
            span = (-2 * p - 3, 3 * p + 3) if q else (-4 * p - 3, 5 * p + 3)
            for k0 in range(span[0], span[1] + 1, 45):
                obs.append(Ob("O3-point-plus-int", ob_plusint, {"p": p, "q": qq, "lo": k0, "hi": min(k0 + 44, span[1])}, replay="smul", budget_s=2400))
        obs.append(Ob("O4-encodings", ob_encodings, {"p": p, "q": qq}, replay="enc", budget_s=2400))
    return obs
