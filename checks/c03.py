"""C03 — group law and public-key encodings on the real FieldElement / Point / S256Point classes over toy curves
y^2 = x^3 + 7 / F_p (DESIGN.md section 3, C03).  The module constants P, N, G are re-bound for the duration of a harness;
the code under test is unchanged."""
import itertools

from symx import core, loader, shims
from symx.core import SI, SBytes, check, s_and, s_or, s_not, s_implies, assume, bytes_env, Out, conc_value, wrapb, lift, branch
from vlib.run import Ob, sym_run, merge_runs, conc_run

PROPERTY = "C03"


def isprime(n):
    return n > 1 and all(n % k for k in range(2, int(n ** 0.5) + 1))


def curve_points(p):
    return [(x, y) for x in range(p) for y in range(p) if (y * y - x ** 3 - 7) % p == 0]


# toy curves with prime group order and p = 3 mod 4 (so the library's sqrt exponent (p+1)/4 applies)
PRIME_ORDER = [(43, 31), (67, 79), (79, 67), (127, 127), (163, 139), (211, 199)]

META = {
    "bounds": {
        "quick": {"field": "all a,b,c in F_p for p in {5,7,11,13}; powers k in [-3, 8]",
                  "group law": "all pairs of on-curve points (symbolic coordinates) of y^2=x^3+7 over F_p, p in {11,13,19}; associativity p = 11",
                  "scalar mult": "toy group (p,q) = (43,31): coefficients symbolic in [-70, 200] (incl. negative, >= q)",
                  "encodings": "toy fields p in {43,67}: every point (sec compressed/uncompressed, xonly round trip); every 33-byte and 65-byte "
                               "string whose coordinate bytes are < 2^16 (symbolic prefix byte + symbolic low coordinate bytes)",
                  "history (O6)": "toy group (43,31): the 65-byte parse obligations and the constructor obligation (S256Point(x, y) with x, y symbolic "
                                  "in [-2, p+2]; Point(FE(x), FE(y)) with x, y in F_p: accepted iff on the curve) after EVERY sequence of 1 call (catalogue "
                                  "'full': k*R / R + k with k symbolic in [-2, q+2], R + R, R + G, 11 wrong-typed scalars / addends (float, None, str, bytes, "
                                  "list, Fraction, complex - they raise before or inside the double-and-add loop or not at all), 6 undecodable strings, 6 "
                                  "refused coordinate pairs) and of 2 calls (catalogue 'small': k in [1,2], 3 wrong-typed operands, 1 bad string, 1 bad "
                                  "pair); 33-byte parse after 1 call ('small'); results of the valid earlier calls are checked against the reference "
                                  "group law too. secp256k1 itself (real class and constants): 1 earlier call ('small', on the real G) then parse of a "
                                  "symbolic prefix byte + sec(2G) unaltered or with the lowest bit of any one of its 64 coordinate bytes flipped"},
        "thorough": {"field": "all primes <= 31", "group law": "all primes 5..61 and 223", "scalar mult": "all six prime-order toy groups, "
                     "coefficients in [-300, 700]", "encodings": "all six toy fields",
                     "history (O6)": "(43,31): 1 call with scalars in [-q-1, 2q+1], 2 calls 'full', 3 calls 'small'; (67,79), (79,67): as quick; 33-byte "
                                     "parse after 1 call 'full' / 2 calls 'small'; secp256k1: 2 calls 'small', any single bit of any coordinate byte flipped"}},
    "outside": ["symbolic arithmetic at the real 256-bit field (256x256-bit modular multiplication is out of reach of the solver): the real "
                "constants are checked concretely only (O5); in O6-history-real the coordinate bytes are concretised before the field arithmetic "
                "(one path per flipped bit), only the prefix byte and the earlier scalars stay symbolic", "cecc.py",
                "O6: an exception raised by an EARLIER call with a wrong-typed operand / undecodable string is an accepted outcome (the property says "
                "nothing about it, nor about what 0.0 * P returns); what is demanded is that the calls AFTER it still reject what does not encode a "
                "curve point, accept what does, and that valid earlier calls agree with the reference group law. For the constructor any exception "
                "counts as a refusal", "histories longer than 2 (quick) / 3 (thorough) calls; earlier calls outside the catalogue (verify/sign "
                "helpers, BaseException such as KeyboardInterrupt injected inside a call)"],
    "stubs": ["module constants P, N, G of buidl.pecc re-bound to a toy curve for O3/O4"],
    "assumptions": ["the classes behave uniformly in the modulus (they take it as a parameter or module constant)",
                    "every path / replayed witness starts from the process state right after import: besides the containers restored by symx.loader, "
                    "immutable module- and class-level attributes of buidl.pecc are restored at the start of each toy/real harness (_fresh_process), "
                    "so only the history executed inside the path is carried into the later calls"],
}
MANIFEST = {"technique": "symbolic execution of the real FieldElement/Point/S256Point code with symbolic field elements and coordinates over toy "
                         "prime fields; axioms and the chord-tangent relation decided by z3 bit-vectors"}


def pecc():
    return loader.load("pecc")


# ---------------------------------------------------------------------------------------- O1 field axioms

def _field_path(p):
    m = pecc()
    FE = m.FieldElement
    a, b, c = (SI.var(n, 0, p - 1) for n in "abc")
    A, B, C = FE(a, p), FE(b, p), FE(c, p)
    wit = lambda env: {"p": p, "a": env["a"], "b": env["b"], "c": env["c"]}  # noqa

    def eq(x, y):
        return x.num == y.num
    try:
        return _field_axioms(p, FE, A, B, C, b, eq, wit)
    except (ValueError, TypeError, ArithmeticError, AttributeError, IndexError) as ex:
        check(False, f"a field operation on elements of the field raised {type(ex).__name__}", witness=wit)
        return "raised"


def _field_axioms(p, FE, A, B, C, b, eq, wit):
    check(eq((A + B) + C, A + (B + C)), "addition not associative", witness=wit)
    check(eq(A + B, B + A), "addition not commutative", witness=wit)
    check(eq((A * B) * C, A * (B * C)), "multiplication not associative", witness=wit)
    check(eq(A * B, B * A), "multiplication not commutative", witness=wit)
    check(eq(A * (B + C), A * B + A * C), "not distributive", witness=wit)
    check(eq((A - B) + B, A), "(a-b)+b != a", witness=wit)
    check(eq(A + FE(0, p), A), "0 not neutral", witness=wit)
    check(eq(A * FE(1, p), A), "1 not neutral", witness=wit)
    r = A + B
    check(s_and(r.num >= 0, r.num < p), "result not reduced", witness=wit)
    check(eq(3 * A, A + A + A), "__rmul__ by integer", witness=wit)
    if b != 0:
        check(eq((A / B) * B, A), "(a/b)*b != a", witness=wit)
        check(eq(B ** (p - 1), FE(1, p)), "b^(p-1) != 1", witness=wit)
        check(eq(B ** -1, FE(1, p) / B), "b^-1 != 1/b", witness=wit)
    acc = FE(1, p)
    for k in range(0, 7):
        check(eq(A ** k, acc) if (k > 0) else eq(FE(1, p), acc), f"a^{k} != repeated multiplication", witness=wit)
        acc = acc * A
    return "ok"


SECP_P = 2 ** 256 - 2 ** 32 - 977


def _field_real_path(cls_name):
    """the additive structure, constructor range and integer multiples on the REAL field prime 2^256 - 2^32 - 977 with 256-bit symbolic
    representatives (products of two symbolic elements stay with the toy primes: non-linear)"""
    m = pecc()
    p = SECP_P
    if cls_name == "S256Field":
        mk = lambda v: m.S256Field(v)  # noqa
    else:
        mk = lambda v: m.FieldElement(v, p)  # noqa
    a, b, c = (SI.var(n, 0, p - 1) for n in "abc")
    wit = lambda env: {"p": p, "a": env["a"], "b": env["b"], "c": env["c"], "cls": cls_name}  # noqa
    try:
        A, B, C = mk(a), mk(b), mk(c)
        eq = lambda x, y: x.num == y.num  # noqa
        check(eq((A + B) + C, A + (B + C)), "addition not associative (real prime)", witness=wit)
        check(eq(A + B, B + A), "addition not commutative (real prime)", witness=wit)
        check(eq((A - B) + B, A), "(a-b)+b != a (real prime)", witness=wit)
        check(eq(A - A, mk(0)), "a-a != 0 (real prime)", witness=wit)
        check(eq(A + mk(0), A), "0 not neutral (real prime)", witness=wit)
        for r in (A + B, A - B, 3 * A, (p - 1) * A):
            check(s_and(r.num >= 0, r.num < p), "result not reduced (real prime)", witness=wit)
        check(eq(3 * A, A + A + A), "__rmul__ by 3 (real prime)", witness=wit)
        check(eq((p - 1) * A, mk(0) - A), "(p-1)*a != -a (real prime)", witness=wit)
        check(eq(A * mk(1), A), "1 not neutral (real prime)", witness=wit)
        check(eq(A * mk(p - 1), mk(0) - A), "a*(p-1) != -a (real prime)", witness=wit)
        check(type(A + B).__name__ == cls_name, "result is not of the operand class", witness=wit)
    except (ValueError, TypeError, ArithmeticError, AttributeError, IndexError) as ex:
        check(False, f"a field operation on elements of the field raised {type(ex).__name__} (real prime)", witness=wit)
        return "raised"
    # constructor: exactly the representatives 0..p-1
    v = SI.var("v", -(1 << 257), 1 << 257)
    try:
        mk(v)
        check(s_and(v >= 0, v < p), "constructor accepted a representative outside [0, p-1]", witness=lambda env: {"p": p, "v": env["v"], "cls": cls_name})
        return "ok"
    except ValueError:
        check(s_or(v < 0, v >= p), "constructor refused a representative inside [0, p-1]", witness=lambda env: {"p": p, "v": env["v"], "cls": cls_name})
        return "refused"


def ob_field_real():
    runs = [sym_run(lambda: _field_real_path(c), mode="int", timeout_ms=60000, expect_classes=["ok", "refused"]) for c in ("FieldElement", "S256Field")]
    m = merge_runs(runs)
    m["sample"] = {"prime": "2^256 - 2^32 - 977", "a,b,c": "symbolic 256-bit representatives", "classes": ["FieldElement", "S256Field"]}
    return m


def replay_field_real(w):
    from buidl import pecc as m
    p = w["p"]
    mk = (lambda v: m.S256Field(v)) if w.get("cls") == "S256Field" else (lambda v: m.FieldElement(v, p))
    if "v" in w:
        try:
            mk(w["v"])
            ok = True
        except ValueError:
            ok = False
        return {"violated": ok != (0 <= w["v"] < p), "observed": f"{w.get('cls')}({w['v']:#x}) accepted={ok}"}
    bad = []
    try:
        A, B, C = mk(w["a"]), mk(w["b"]), mk(w["c"])
        Z = mk(0)
        if (A + B) + C != A + (B + C) or A + B != B + A or (A - B) + B != A or A - A != Z or A + Z != A:
            bad.append("additive axiom")
        if (A + B).num != (w["a"] + w["b"]) % p or (A - B).num != (w["a"] - w["b"]) % p:
            bad.append("value of a+b / a-b")
        if 3 * A != A + A + A or (p - 1) * A != Z - A or A * mk(1) != A or A * mk(p - 1) != Z - A:
            bad.append("integer multiple / multiplication by 1, -1")
    except (ValueError, TypeError, ArithmeticError, AttributeError, IndexError) as ex:
        bad.append(f"raised {ex!r}")
    return {"violated": bool(bad), "observed": f"{w.get('cls')} over 2^256-2^32-977, a={w['a']:#x} b={w['b']:#x} c={w['c']:#x}: {bad}"}


def ob_field(primes):
    runs = [sym_run(lambda: _field_path(p), timeout_ms=60000) for p in primes]
    m = merge_runs(runs)
    m["sample"] = {"primes": list(primes), "a,b,c": "symbolic field elements"}
    return m


def replay_field(w):
    from buidl.pecc import FieldElement as FE
    p = w["p"]
    A, B, C = FE(w["a"], p), FE(w["b"], p), FE(w["c"], p)
    bad = []
    try:
        if (A + B) + C != A + (B + C) or A + B != B + A or (A * B) * C != A * (B * C) or A * (B + C) != A * B + A * C or (A - B) + B != A:
            bad.append("ring axiom")
        if A + FE(0, p) != A or A * FE(1, p) != A or 3 * A != A + A + A:
            bad.append("neutral element / integer multiple")
        if w["b"] and ((A / B) * B != A or B ** (p - 1) != FE(1, p) or B ** -1 != FE(1, p) / B):
            bad.append("inverse")
        acc = FE(1, p)
        for k in range(0, 7):
            if A ** k != acc:
                bad.append(f"pow {k}")
            acc = acc * A
    except (ValueError, TypeError, ArithmeticError, AttributeError, IndexError) as ex:
        bad.append(f"raised {ex!r}")
    return {"violated": bool(bad), "observed": f"F_{p} a={w['a']} b={w['b']} c={w['c']}: {bad}"}


# ---------------------------------------------------------------------------------------- O2 group law

def _mkpoint(m, name, p, allow_inf):
    """a symbolic point of y^2 = x^3 + 7 over F_p (or infinity)"""
    FE, Point = m.FieldElement, m.Point
    a, b = FE(0, p), FE(7, p)
    if allow_inf and bool(SI.var(name + ".inf", 0, 1) == 1):
        return Point(None, None, a, b), None, None
    x = SI.var(name + ".x", 0, p - 1)
    y = SI.var(name + ".y", 0, p - 1)
    assume(((y * y - x * x * x - 7) % p) == 0)
    try:
        return Point(FE(x, p), FE(y, p), a, b), x, y
    except (ValueError, TypeError, ArithmeticError) as ex:
        check(False, f"constructing a point of the curve raised {type(ex).__name__}",
              witness=lambda env: {"p": p, "A": [env[name + ".x"], env[name + ".y"]], "B": None})
        raise core.PathAbort()


def spec_add(p, P1, P2):
    """chord-and-tangent relation with the slope constrained, not computed: returns (inf, x3, y3)"""
    (i1, x1, y1), (i2, x2, y2) = P1, P2
    if i1:
        return P2
    if i2:
        return P1
    if x1 == x2:
        if ((y1 + y2) % p) == 0:
            return (True, None, None)
        lam = SI.var("lam", 0, p - 1)
        assume(((lam * 2 * y1 - 3 * x1 * x1) % p) == 0)
    else:
        lam = SI.var("lam", 0, p - 1)
        assume(((lam * (x2 - x1) - (y2 - y1)) % p) == 0)
    x3 = (lam * lam - x1 - x2) % p
    y3 = (lam * (x1 - x3) - y1) % p
    return (False, x3, y3)


def _pt_tuple(pt):
    if pt.x is None:
        return (True, None, None)
    return (False, pt.x.num, pt.y.num)


def _same(t1, t2):
    if t1[0] or t2[0]:
        return t1[0] == t2[0]
    return s_and(t1[1] == t2[1], t1[2] == t2[2])


def _group_path(p, assoc):
    m = pecc()
    A, ax, ay = _mkpoint(m, "A", p, True)
    B, bx, by = _mkpoint(m, "B", p, True)

    def wit(env):
        return {"p": p, "A": [env.get("A.x"), env.get("A.y")] if not env.get("A.inf") else None,
                "B": [env.get("B.x"), env.get("B.y")] if not env.get("B.inf") else None}
    try:
        S = A + B
    except Exception as ex:
        check(False, f"adding two points of the curve raised {type(ex).__name__}", witness=wit)
        return "raised"
    got = _pt_tuple(S)
    want = spec_add(p, _pt_tuple(A), _pt_tuple(B))
    check(_same(got, want), "A + B differs from the chord-and-tangent law", witness=wit)
    if not got[0]:
        check(((got[2] * got[2] - got[1] * got[1] * got[1] - 7) % p) == 0, "A + B is not on the curve", witness=wit)
    try:
        S2 = B + A
        check(_same(_pt_tuple(S2), got), "A + B != B + A", witness=wit)
    except Exception as ex:
        check(False, f"B + A raised {type(ex).__name__}", witness=wit)
    if A.x is not None:
        neg = m.Point(A.x, m.FieldElement((p - ay) % p, p), A.a, A.b)
        try:
            Z = A + neg
            check(Z.x is None, "A + (-A) is not the point at infinity", witness=wit)
        except Exception as ex:
            check(False, f"A + (-A) raised {type(ex).__name__}", witness=wit)
        try:
            D = A + A
            D2 = 2 * A
            check(_same(_pt_tuple(D), _pt_tuple(D2)), "A + A != 2A", witness=wit)
        except Exception as ex:
            check(False, f"doubling raised {type(ex).__name__}", witness=wit)
    return "ok"


def _assoc_path(p):
    m = pecc()
    A, _, _ = _mkpoint(m, "A", p, False)
    B, _, _ = _mkpoint(m, "B", p, False)
    C, _, _ = _mkpoint(m, "C", p, False)

    def wit(env):
        return {"p": p, "A": [env["A.x"], env["A.y"]], "B": [env["B.x"], env["B.y"]], "C": [env["C.x"], env["C.y"]]}
    try:
        l = (A + B) + C
        r = A + (B + C)
    except Exception as ex:
        check(False, f"addition raised {type(ex).__name__}", witness=wit)
        return "raised"
    check(_same(_pt_tuple(l), _pt_tuple(r)), "(A+B)+C != A+(B+C)", witness=wit)
    return "ok"


def ob_group(primes):
    runs = [sym_run(lambda: _group_path(p, False), timeout_ms=120000, max_violations=8) for p in primes]
    m = merge_runs(runs)
    m["sample"] = {"curves": [f"y^2=x^3+7 / F_{p}" for p in primes], "operands": "two symbolic points incl. infinity / equal / opposite"}
    return m


def ob_assoc(primes):
    runs = [sym_run(lambda: _assoc_path(p), timeout_ms=240000, max_violations=8) for p in primes]
    m = merge_runs(runs)
    m["sample"] = {"curves": list(primes), "operands": "three symbolic points"}
    return m


def ref_add(p, P1, P2):
    """reference affine addition on plain integers (None = infinity)"""
    if P1 is None:
        return P2
    if P2 is None:
        return P1
    (x1, y1), (x2, y2) = P1, P2
    if x1 == x2 and (y1 + y2) % p == 0:
        return None
    if x1 == x2:
        lam = 3 * x1 * x1 * pow(2 * y1, -1, p) % p
    else:
        lam = (y2 - y1) * pow(x2 - x1, -1, p) % p
    x3 = (lam * lam - x1 - x2) % p
    return (x3, (lam * (x1 - x3) - y1) % p)


def ref_mul(p, c, P1):
    R = None
    Q = P1
    while c:
        if c & 1:
            R = ref_add(p, R, Q)
        Q = ref_add(p, Q, Q)
        c >>= 1
    return R


def _real_point(p, t):
    from buidl.pecc import FieldElement as FE, Point
    a, b = FE(0, p), FE(7, p)
    if t is None:
        return Point(None, None, a, b)
    return Point(FE(t[0], p), FE(t[1], p), a, b)


def _tup(pt):
    return None if pt.x is None else (pt.x.num, pt.y.num)


def replay_group(w):
    p = w["p"]
    A = tuple(w["A"]) if w.get("A") else None
    B = tuple(w["B"]) if w.get("B") else None
    C = tuple(w["C"]) if w.get("C") else None
    probs = []
    try:
        if C is None:
            cases = [("A+B", lambda: _real_point(p, A) + _real_point(p, B), ref_add(p, A, B)),
                     ("B+A", lambda: _real_point(p, B) + _real_point(p, A), ref_add(p, A, B))]
            if A is not None:
                cases.append(("A+A", lambda: _real_point(p, A) + _real_point(p, A), ref_add(p, A, A)))
                cases.append(("2A", lambda: 2 * _real_point(p, A), ref_add(p, A, A)))
                cases.append(("A+(-A)", lambda: _real_point(p, A) + _real_point(p, (A[0], (p - A[1]) % p)), None))
        else:
            cases = [("(A+B)+C", lambda: (_real_point(p, A) + _real_point(p, B)) + _real_point(p, C), ref_add(p, ref_add(p, A, B), C)),
                     ("A+(B+C)", lambda: _real_point(p, A) + (_real_point(p, B) + _real_point(p, C)), ref_add(p, A, ref_add(p, B, C)))]
        for name, f, want in cases:
            try:
                got = _tup(f())
            except Exception as ex:
                probs.append(f"{name} raised {ex!r}")
                continue
            if got != want:
                probs.append(f"{name} = {got}, expected {want}")
    except Exception as ex:
        return {"violated": None, "error": repr(ex)}
    return {"violated": bool(probs), "observed": f"F_{p} A={A} B={B} C={C}: {probs}", "order2": bool(A and A[1] == 0) or bool(B and B[1] == 0)}


# ---------------------------------------------------------------------------------------- O3 scalar multiplication on toy groups

# Every explored path (and every replayed witness) stands for a run in a fresh process.  symx.loader restores the library's module- and
# class-level *containers* at the start of a path; immutable module- and class-level attributes (flags, counters, cached constants) that
# the code under test may re-bind are restored here, so that only the history executed INSIDE the path / witness is what the later calls see.
_IMMUTABLE = (bool, int, float, str, bytes, tuple, type(None))
_SCALAR_BASE = {}


def _scalar_state(m):
    out = {}
    for k, v in list(vars(m).items()):
        if k.startswith("__"):
            continue
        if isinstance(v, type) and getattr(v, "__module__", None) == m.__name__:
            for kk, vv in list(vars(v).items()):
                if not kk.startswith("__") and type(vv) in _IMMUTABLE:
                    out[(k, kk)] = vv
        elif type(v) in _IMMUTABLE:
            out[(None, k)] = v
    return out


def _fresh_process(m):
    base = _SCALAR_BASE.get(m.__name__)
    if base is None:
        _SCALAR_BASE[m.__name__] = _scalar_state(m)   # first use in this process: the state right after import
        return
    now = _scalar_state(m)
    for key in set(now) | set(base):
        owner = m if key[0] is None else getattr(m, key[0])
        if key not in base:
            delattr(owner, key[1])
        elif key not in now or now[key] is not base[key]:
            setattr(owner, key[1], base[key])


class Toy:
    """re-bind pecc.P / N / G (and A, B stay 0, 7) to a toy curve of prime order"""

    def __init__(self, p, q):
        self.m = pecc()
        _fresh_process(self.m)
        self.p, self.q = p, q
        self.saved = (self.m.P, self.m.N, self.m.G)
        self.m.P, self.m.N = p, q
        gx, gy = curve_points(p)[0]
        self.g = (gx, gy)
        self.m.G = self.m.S256Point(gx, gy)

    def close(self):
        self.m.P, self.m.N, self.m.G = self.saved


def _smul_path(p, q, lo, hi):
    t = Toy(p, q)
    try:
        m = t.m
        a = SI.var("a", lo, hi)
        b = SI.var("b", 0, q + 3)
        wit = lambda env: {"p": p, "q": q, "a": env["a"], "b": env["b"]}  # noqa
        G = m.G

        def attempt(label, f, want_fn):
            """an exception from the implementation on valid operands is a violation, not a harness error"""
            try:
                got = f()
            except Exception as ex:
                check(False, f"{label}: raised {type(ex).__name__}", witness=wit)
                return None
            check(_tup(got) == want_fn(), label, witness=wit)
            return got
        aG = a * G
        av = core.concretize(a)  # the double-and-add loop has decided every bit of a mod q: a is fixed up to the path
        bv = core.concretize(b)
        check(_tup(aG) == ref_mul(p, av % q, t.g), "a*G differs from reference double-and-add of a mod q", witness=wit)
        bG = attempt("b*G", lambda: bv * G, lambda: ref_mul(p, bv % q, t.g))
        if bG is not None:
            attempt("(a+b)G != aG + bG", lambda: aG + bG, lambda: ref_mul(p, (av + bv) % q, t.g))
        attempt("b(aG) != (ab)G", lambda: bv * aG, lambda: ref_mul(p, (av * bv) % q, t.g))
        attempt("(-b)(aG) != (-ab)G", lambda: (-bv) * aG, lambda: ref_mul(p, (-av * bv) % q, t.g))
        attempt("q*P is not the point at infinity", lambda: q * aG, lambda: None)
        attempt("point + int shorthand differs from P + bG", lambda: aG + bv, lambda: ref_mul(p, (av + bv) % q, t.g))
        return "ok"
    finally:
        t.close()


def _plusint_path(p, q, lo, hi):
    """the `point + int` shorthand (P + k means P + k*G) for k far outside [0, q): negative, beyond the field prime, beyond 2p"""
    t = Toy(p, q)
    try:
        m = t.m
        a = SI.var("a", 0, q)
        b = SI.var("b", lo, hi)
        wit = lambda env: {"p": p, "q": q, "a": env["a"], "b": env["b"]}  # noqa
        aG = a * m.G
        av = core.concretize(a)
        try:
            got = aG + b
        except Exception as ex:
            check(False, f"point + int raised {type(ex).__name__}", witness=wit)
            return "raised"
        bv = core.concretize(b)
        check(_tup(got) == ref_mul(p, (av + bv) % q, t.g), "point + int shorthand differs from P + (k mod n)*G", witness=wit)
        return "ok"
    finally:
        t.close()


def ob_plusint(p, q, lo, hi):
    r = sym_run(lambda: _plusint_path(p, q, lo, hi), timeout_ms=30000, max_paths=400000, max_violations=40)
    r["sample"] = {"toy group": f"y^2=x^3+7 / F_{p}, order {q}", "a": f"symbolic in [0,{q}]", "k": f"symbolic in [{lo},{hi}]"}
    return r


def ob_smul(p, q, lo, hi):
    r = sym_run(lambda: _smul_path(p, q, lo, hi), timeout_ms=30000, max_paths=400000)
    r["sample"] = {"toy group": f"y^2=x^3+7 / F_{p}, order {q}", "a": f"symbolic in [{lo},{hi}]", "b": f"symbolic in [0,{q + 3}]"}
    return r


def replay_smul(w):
    from buidl import pecc as m
    p, q, a, b = w["p"], w["q"], w["a"], w["b"]
    saved = (m.P, m.N, m.G)
    m.P, m.N = p, q
    g = curve_points(p)[0]
    m.G = m.S256Point(*g)
    try:
        bad = []

        def attempt(label, f, want):
            try:
                if _tup(f()) != want:
                    bad.append(label)
            except Exception as ex:
                bad.append(f"{label} raised {ex!r}")
        aG = a * m.G
        attempt("aG", lambda: a * m.G, ref_mul(p, a % q, g))
        attempt("(a+b)G", lambda: aG + b * m.G, ref_mul(p, (a + b) % q, g))
        attempt("b(aG)", lambda: b * aG, ref_mul(p, a * b % q, g))
        attempt("(-b)(aG)", lambda: (-b) * aG, ref_mul(p, (-a * b) % q, g))
        attempt("qP", lambda: q * aG, None)
        attempt("P+int", lambda: aG + b, ref_mul(p, (a + b) % q, g))
        return {"violated": bool(bad), "observed": f"F_{p} order {q} a={a} b={b}: {bad}"}
    finally:
        m.P, m.N, m.G = saved


# ---------------------------------------------------------------------------------------- O4 encodings on toy fields

def _sec_rt_path(p, q):
    t = Toy(p, q)
    try:
        m = t.m
        pts = curve_points(p)
        i = SI.var("i", 0, len(pts) - 1)
        iv = core.concretize(i)
        x, y = pts[iv]
        wit = lambda env: {"p": p, "q": q, "pt": list(pts[env["i"]])}  # noqa
        P1 = m.S256Point(x, y)
        for comp in (True, False):
            sec = P1.sec(compressed=comp)
            want = (bytes([2 + (y & 1)]) + x.to_bytes(32, "big")) if comp else (b"\x04" + x.to_bytes(32, "big") + y.to_bytes(32, "big"))
            check(sec == want, "SEC encoding layout", witness=wit)
            back = m.S256Point.parse(sec)
            check(_tup(back) == (x, y), "parse_sec(sec(P)) != P", witness=wit)
        xo = P1.xonly()
        check(xo == x.to_bytes(32, "big"), "x-only layout", witness=wit)
        back = m.S256Point.parse(xo)
        ye = y if y % 2 == 0 else p - y
        check(_tup(back) == (x, ye), "parse_xonly(xonly(P)) is not the even-y point", witness=wit)
        return "ok"
    finally:
        t.close()


def _on_curve(p, x, y):
    return ((y * y - x * x * x - 7) % p) == 0


def _sec_parse_path(p, q, size, hist=None):
    """symbolic candidate encodings: prefix byte + coordinate bytes (the two low bytes of each coordinate symbolic, the rest zero);
    hist = (k, first, catalogue): after a history of k earlier calls (O6)"""
    t = Toy(p, q)
    try:
        m = t.m
        history = _history(t, *hist) if hist else None
        pre = SI.var("prefix", 0, 255)
        xl = SBytes.sym("xl", 2)
        raw = SBytes([pre]) + b"\x00" * 30 + xl
        if size == 65:
            yl = SBytes.sym("yl", 2)
            raw = raw + b"\x00" * 30 + yl

        def wit(env):
            w = {"p": p, "q": q, "raw": conc_value(raw, env).hex()}
            if history:
                w["history"] = history(env)
            return w
        try:
            pt = m.S256Point.parse(raw)
            acc = True
        except (ValueError, RuntimeError):
            acc = False
        x = core.int_from_bytes(xl, "big")
        if size == 33:
            if not acc:
                # rejection is right unless the bytes encode a point: prefix 02/03, x < p, x^3+7 a square
                if s_and(s_or(pre == 2, pre == 3), x < p):
                    xv = core.concretize(x)
                    sq = any((yy * yy - xv ** 3 - 7) % p == 0 for yy in range(p))
                    check(not sq, "valid compressed encoding rejected", witness=wit)
                else:
                    check(True, "rejected")
                return "rejected"
            check(s_or(pre == 2, pre == 3), "compressed encoding accepted with a prefix other than 02/03", witness=wit)
            check(pt.x.num == x, "decoded x differs", witness=wit)
            check(_on_curve(p, pt.x.num, pt.y.num), "decoded point not on the curve", witness=wit)
            check((pt.y.num % 2) == (pre % 2), "decoded y parity does not match the prefix", witness=wit)
            return "accepted"
        y = core.int_from_bytes(yl, "big")
        if not acc:
            if s_and(pre == 4, x < p, y < p):
                check(s_not(_on_curve(p, x, y)), "valid uncompressed encoding rejected", witness=wit)
            else:
                check(True, "rejected")
            return "rejected"
        check(pre == 4, "65-byte encoding accepted with a prefix other than 04", witness=wit)
        check(s_and(pt.x.num == x, pt.y.num == y, x < p, y < p), "decoded coordinates differ", witness=wit)
        check(_on_curve(p, x, y), "accepted point not on the curve", witness=wit)
        return "accepted"
    finally:
        t.close()


def ob_encodings(p, q):
    runs = [sym_run(lambda: _sec_rt_path(p, q), timeout_ms=30000),
            sym_run(lambda: _sec_parse_path(p, q, 33), timeout_ms=60000, max_violations=12),
            sym_run(lambda: _sec_parse_path(p, q, 65), timeout_ms=60000, max_violations=12)]
    m = merge_runs(runs)
    m["sample"] = {"toy field": p, "inputs": "every curve point; 33/65-byte strings with symbolic prefix and low coordinate bytes"}
    return m


def replay_enc(w):
    from buidl import pecc as m
    p, q = w["p"], w["q"]
    _fresh_process(m)
    saved = (m.P, m.N, m.G)
    real = (p, q) == (saved[0], saved[1])   # O6-history-real: the secp256k1 constants themselves
    m.P, m.N = p, q
    try:
        hbad = []
        if w.get("history"):
            g = (m.G.x.num, m.G.y.num) if real else curve_points(p)[0]
            m.G = m.S256Point(*g)
            hbad = _replay_history(m, p, q, g, w["history"])
            if hbad or not ("raw" in w or "xy" in w):
                return {"violated": bool(hbad), "observed": f"F_{p} order {q} history {w['history']}: {hbad}"}
        if "xy" in w:
            x, y = w["xy"]
            try:
                if w["cls"] == "S256Point":
                    pt = m.S256Point(x, y)
                else:
                    pt = m.Point(m.FieldElement(x, p), m.FieldElement(y, p), m.FieldElement(0, p), m.FieldElement(7, p))
                acc = True
            except Exception:
                acc = False
            valid = 0 <= x < p and 0 <= y < p and (y * y - x ** 3 - 7) % p == 0
            ok = (acc == valid) and (not acc or _tup(pt) == (x, y))
            return {"violated": not ok, "observed": f"F_{p}: after {w.get('history')}: {w['cls']}({x}, {y}) accepted={acc} valid={valid}"}
        if "pt" in w:
            x, y = w["pt"]
            P1 = m.S256Point(x, y)
            bad = []
            for comp in (True, False):
                if _tup(m.S256Point.parse(P1.sec(comp))) != (x, y):
                    bad.append(f"sec {comp}")
            if _tup(m.S256Point.parse(P1.xonly())) != (x, y if y % 2 == 0 else p - y):
                bad.append("xonly")
            return {"violated": bool(bad), "observed": f"F_{p} point {(x, y)}: {bad}"}
        raw = bytes.fromhex(w["raw"])
        try:
            pt = m.S256Point.parse(raw)
            acc = True
        except (ValueError, RuntimeError):
            acc = False
        x = int.from_bytes(raw[1:33], "big")
        if len(raw) == 33:
            valid = raw[0] in (2, 3) and x < p and any((yy * yy - x ** 3 - 7) % p == 0 for yy in range(p))
            ok = (acc == valid) and (not acc or (pt.x.num == x and (pt.y.num ** 2 - x ** 3 - 7) % p == 0 and pt.y.num % 2 == raw[0] % 2))
        else:
            y = int.from_bytes(raw[33:], "big")
            valid = raw[0] == 4 and x < p and y < p and (y * y - x ** 3 - 7) % p == 0
            ok = (acc == valid) and (not acc or _tup(pt) == (x, y))
        return {"violated": not ok, "observed": f"F_{p}: " + (f"after {w['history']}: " if w.get("history") else "") +
                f"parse({raw[:1].hex()}..x={x}) accepted={acc} valid={valid}", "prefix": raw[0]}
    finally:
        m.P, m.N, m.G = saved
        _fresh_process(m)


# ---------------------------------------------------------------------------------------- O6 the same obligations after a history of calls
# "byte strings that do not encode a curve point are rejected" (and the constructor refuses off-curve coordinates) is claimed for every
# moment of a process, not only for a fresh one: the rejection obligations of O4 are re-run after every sequence of up to k earlier calls of
# the public point API - valid ones (symbolic scalars) and ones that RAISE part-way (operands of the wrong type, undecodable strings,
# off-curve coordinates).  An exception from such an earlier call is an accepted outcome; what is demanded is the behaviour AFTERWARDS.

from fractions import Fraction  # noqa: E402

WRONG = {"2.5": 2.5, "None": None, "'%d'": "%d", "0.0": 0.0, "Fraction(5, 2)": Fraction(5, 2), "-1.5": -1.5, "1e30": 1e30, "'2'": "2", "b'%d'": b"%d",
         "[1]": [1], "1j": 1j}   # raise before / inside the double-and-add loop, or not at all; the first entries are the quick catalogue
WRONG_KEYS = list(WRONG)
HIST_OPS = ("rmul", "plus_int", "add", "rmul_wrong", "add_wrong", "parse_bad", "ctor_bad")
CATALOGUE = {"wide": {"scalars": "wide", "wrong": len(WRONG), "bad": 6, "others": 2},      # scalars [-q-1, 2q+1]
             "full": {"scalars": "full", "wrong": len(WRONG), "bad": 6, "others": 2},      # scalars [-2, q+2]
             "small": {"scalars": (1, 2), "wrong": 3, "bad": 1, "others": 1}}


def _bad_strings(p, g):
    gx, gy = g
    x32 = lambda v: v.to_bytes(32, "big")  # noqa
    nonres = next(x for x in range(p) if pow(x ** 3 + 7, (p - 1) // 2, p) == p - 1)   # Euler criterion
    return [b"", b"\x05" + x32(gx), b"\x04" + x32(gx) + x32((gy + 1) % p), b"\x02" + x32(nonres), b"\x04" + x32(gx), b"\x02" + x32(p + gx)]


def _bad_coords(p, g):
    gx, gy = g
    return [(gx, (gy + 1) % p), ((gx + 1) % p, gy) if ((gy * gy - (gx + 1) ** 3 - 7) % p) else (gx, (gy + 2) % p), (p, 0), (gx, p + gy), (-1, gy), (None, gy)]


def _hist_step(m, p, q, g, R, rt, d, val):
    """one earlier call on the running point R (reference value rt).  d = JSON description of the call, val(name) = value of a scalar.
    Returns (R, rt, problem or None); shared by the symbolic harness and the replay (same code, native classes there)."""
    op = d["op"]
    if op in ("rmul", "plus_int", "add"):
        try:
            if op == "rmul":
                R2 = val(d["a"]) * R
            elif op == "plus_int":
                R2 = R + val(d["a"])
            else:
                R2 = R + (R if d["other"] == "self" else m.G)
        except Exception as ex:
            return R, rt, f"{op} on valid operands raised {type(ex).__name__}"
        return R2, None, None
    try:
        if op == "rmul_wrong":
            WRONG[d["w"]] * R
        elif op == "add_wrong":
            R + WRONG[d["w"]]
        elif op == "parse_bad":
            m.S256Point.parse(_bad_strings(p, g)[d["i"]])
        elif op == "ctor_bad":
            m.S256Point(*_bad_coords(p, g)[d["i"]])
    except Exception:
        pass
    return R, rt, None


def _hist_ref(p, q, g, rt, d, a):
    """reference value of the running point after a valid call (plain integers)"""
    if d["op"] == "rmul":
        return ref_mul(p, a % q, rt)
    if d["op"] == "plus_int":
        return ref_add(p, rt, ref_mul(p, a % q, g))
    if d["op"] == "add":
        return ref_add(p, rt, rt if d["other"] == "self" else g)
    return rt


def _history(t, k, first, cat):
    """run k earlier calls chosen by the solver out of the catalogue (first = kind of the first one, a shape parameter);
    returns env -> JSON history"""
    m, p, q, g = t.m, t.p, t.q, t.g
    cat = CATALOGUE[cat]
    srange = {"wide": (-q - 1, 2 * q + 1), "full": (-2, q + 2)}.get(cat["scalars"], cat["scalars"])
    R, rt = m.G, g
    descs = []
    for i in range(k):
        if i == 0 and first is not None:
            kind = first
        else:
            kind = HIST_OPS[core.concretize(SI.var(f"h{i}.op", 0, len(HIST_OPS) - 1))]
        d = {"op": kind}
        a = None
        if kind in ("rmul", "plus_int"):
            a = SI.var(f"h{i}.a", srange[0], srange[1])
            d["a"] = f"h{i}.a"
        elif kind == "add":
            d["other"] = ("self", "G")[core.concretize(SI.var(f"h{i}.o", 0, cat["others"] - 1))]
        elif kind in ("rmul_wrong", "add_wrong"):
            d["w"] = WRONG_KEYS[core.concretize(SI.var(f"h{i}.w", 0, cat["wrong"] - 1))]
        elif kind == "parse_bad":
            d["i"] = core.concretize(SI.var(f"h{i}.s", 0, cat["bad"] - 1))
        elif kind == "ctor_bad":
            d["i"] = core.concretize(SI.var(f"h{i}.c", 0, cat["bad"] - 1))
        descs.append(d)

        def hw(env, n=len(descs)):
            return {"p": p, "q": q, "history": [dict(x, a=env[x["a"]]) if "a" in x else x for x in descs[:n]]}
        R, _, prob = _hist_step(m, p, q, g, R, rt, d, lambda name: a)
        if prob:
            check(False, "earlier call: " + prob, witness=hw)
            raise core.PathAbort()
        if kind in ("rmul", "plus_int", "add"):
            rt = _hist_ref(p, q, g, rt, d, core.concretize(a) if a is not None else None)
            check(_tup(R) == rt, f"{kind} after earlier calls differs from the reference group law", witness=hw)
    return lambda env: [dict(x, a=env[x["a"]]) if "a" in x else x for x in descs]


def _replay_history(m, p, q, g, history):
    """run the history of a witness on the native classes (m.P, m.N, m.G already re-bound); returns the list of wrong valid calls"""
    R, rt = m.G, g
    bad = []
    for d in history:
        R, _, prob = _hist_step(m, p, q, g, R, rt, d, lambda a: a)
        if prob:
            bad.append(prob)
            break
        if d["op"] in ("rmul", "plus_int", "add"):
            rt = _hist_ref(p, q, g, rt, d, d.get("a"))
            if _tup(R) != rt:
                bad.append(f"{d['op']} gave {_tup(R)}, reference {rt}")
    return bad


def _ctor_path(p, q, k, first, cat):
    """constructor with symbolic integer coordinates (also outside [0, p-1]) after a history: accepted iff they are a point of the curve"""
    t = Toy(p, q)
    try:
        m = t.m
        hist = _history(t, k, first, cat)
        cls = ("S256Point", "Point")[core.concretize(SI.var("cls", 0, 1))]
        lo, hi = (-2, p + 2) if cls == "S256Point" else (0, p - 1)
        x = SI.var(cls + ".x", lo, hi)
        y = SI.var(cls + ".y", lo, hi)

        def wit(env):
            return {"p": p, "q": q, "history": hist(env), "cls": cls, "xy": [env[cls + ".x"], env[cls + ".y"]]}
        try:
            if cls == "S256Point":
                pt = m.S256Point(x, y)
            else:
                pt = m.Point(m.FieldElement(x, p), m.FieldElement(y, p), m.FieldElement(0, p), m.FieldElement(7, p))
            acc = True
        except Exception:
            acc = False
        valid = s_and(x >= 0, x < p, y >= 0, y < p, _on_curve(p, x, y))
        if not acc:
            check(s_not(valid), "constructor refused the coordinates of a curve point", witness=wit)
            return "rejected"
        check(valid, "constructor accepted coordinates that are not a point of the curve", witness=wit)
        check(s_and(pt.x.num == x, pt.y.num == y), "constructed point has other coordinates", witness=wit)
        return "accepted"
    finally:
        t.close()


class RealCurve:
    """secp256k1 itself (nothing re-bound)"""

    def __init__(self):
        self.m = pecc()
        _fresh_process(self.m)
        self.p, self.q, self.g = self.m.P, self.m.N, (self.m.G.x.num, self.m.G.y.num)


def _real_parse_path(k, first, cat, nbits):
    """the REAL S256Point class and constants: after a history, parse of a 65-byte string = symbolic prefix byte + the encoding of 2G with
    one bit (symbolic position, concretised: the 256-bit field arithmetic stays concrete) of one coordinate byte flipped, or unaltered"""
    t = RealCurve()
    m, p = t.m, t.p
    history = _history(t, k, first, cat)
    x0, y0 = ref_mul(p, 2, t.g)
    body = bytearray(x0.to_bytes(32, "big") + y0.to_bytes(32, "big"))
    pos = core.concretize(SI.var("pos", 0, 64))
    if pos < 64:
        body[pos] ^= 1 << core.concretize(SI.var("bit", 0, nbits - 1))
    body = bytes(body)
    pre = SI.var("prefix", 0, 255)
    raw = SBytes([pre]) + body

    def wit(env):
        return {"p": p, "q": t.q, "raw": conc_value(raw, env).hex(), "history": history(env)}
    try:
        pt = m.S256Point.parse(raw)
        acc = True
    except (ValueError, RuntimeError):
        acc = False
    x, y = int.from_bytes(body[:32], "big"), int.from_bytes(body[32:], "big")
    valid = x < p and y < p and (y * y - x ** 3 - 7) % p == 0
    if not acc:
        check(s_not(s_and(pre == 4, valid)), "valid uncompressed encoding rejected (secp256k1)", witness=wit)
        return "rejected"
    check(s_and(pre == 4, valid), "65-byte string that does not encode a point of secp256k1 accepted", witness=wit)
    check(s_and(pt.x.num == x, pt.y.num == y), "decoded coordinates differ (secp256k1)", witness=wit)
    return "accepted"


def ob_history_real(first, k, cat, nbits):
    r = sym_run(lambda: _real_parse_path(k, first, cat, nbits), timeout_ms=60000, max_paths=400000, max_violations=12,
                expect_classes=["accepted", "rejected"])
    r["sample"] = {"curve": "secp256k1 (real constants and class)", "history": f"{first} then {k - 1} more calls; catalogue '{cat}': {CATALOGUE[cat]}",
                   "then": f"parse of prefix byte (symbolic) + sec(2G) with one of the low {nbits} bits of one of the 64 coordinate bytes flipped"}
    return r


def ob_history(p, q, target, first, k, cat):
    if target == "ctor":
        r = sym_run(lambda: _ctor_path(p, q, k, first, cat), timeout_ms=60000, max_paths=400000, max_violations=12,
                    expect_classes=["accepted", "rejected"])
    else:
        r = sym_run(lambda: _sec_parse_path(p, q, target, hist=(k, first, cat)), timeout_ms=60000, max_paths=400000, max_violations=12,
                    expect_classes=["accepted", "rejected"])
    r["sample"] = {"toy group": f"y^2=x^3+7 / F_{p}, order {q}", "history": f"{first} then {k - 1} more calls out of {list(HIST_OPS)}; catalogue '{cat}': {CATALOGUE[cat]}; "
                   f"wrong-typed operands {WRONG_KEYS}",
                   "then": "S256Point(x, y) / Point(x, y) with symbolic coordinates" if target == "ctor" else f"parse of a symbolic {target}-byte string"}
    return r


# ---------------------------------------------------------------------------------------- O5 constants (trusted base, concrete)

def _constants():
    from buidl import pecc as m
    ok = isinstance(m.P, int) and m.P % 4 == 3 and (m.G.y.num ** 2 - m.G.x.num ** 3 - 7) % m.P == 0 and (m.N * m.G).x is None
    return ok, f"P = 3 mod 4, G on curve, N*G = infinity: {ok}"


def ob_constants():
    return conc_run(_constants, "secp256k1 constants")


def obligations(tier):
    q = tier == "quick"
    obs = [Ob("O5-constants", ob_constants)]
    fprimes = [5, 7, 11, 13] if q else [p for p in range(3, 32) if isprime(p)]
    for p in fprimes:
        obs.append(Ob("O1-field", ob_field, {"primes": (p,)}, replay="field", budget_s=1500))
    obs.append(Ob("O1-field-real-prime", ob_field_real, replay="field_real", budget_s=1500))
    gprimes = [11, 13, 19] if q else [p for p in range(5, 62) if isprime(p)] + [223]
    for p in gprimes:
        obs.append(Ob("O2-group-law", ob_group, {"primes": (p,)}, replay="group", budget_s=2400))
    for p in ([11] if q else [11, 13, 17]):
        obs.append(Ob("O2-associativity", ob_assoc, {"primes": (p,)}, replay="group", budget_s=2400))
    toys = PRIME_ORDER[:2] if q else PRIME_ORDER
    for (p, qq) in toys:
        lo, hi = (-70, 200) if q else (-300, 700)
        step = 30 if q else 50
        for a0 in (range(lo, hi, step) if (not q or p == 43) else ()):
            obs.append(Ob("O3-scalar-mult", ob_smul, {"p": p, "q": qq, "lo": a0, "hi": min(a0 + step - 1, hi)}, replay="smul", budget_s=2400))
        if not q or p == 43:
            span = (-2 * p - 3, 3 * p + 3) if q else (-4 * p - 3, 5 * p + 3)
            for k0 in range(span[0], span[1] + 1, 45):
                obs.append(Ob("O3-point-plus-int", ob_plusint, {"p": p, "q": qq, "lo": k0, "hi": min(k0 + 44, span[1])}, replay="smul", budget_s=2400))
        obs.append(Ob("O4-encodings", ob_encodings, {"p": p, "q": qq}, replay="enc", budget_s=2400))
    for i, (p, qq) in enumerate(PRIME_ORDER[:1] if q else PRIME_ORDER[:3]):
        shapes = [(1, "full"), (2, "small")] if q else ([(1, "wide"), (2, "full"), (3, "small")] if i == 0 else [(1, "full"), (2, "small")])
        for target in (65, 33, "ctor"):
            tshapes = shapes
            if target == 33:   # 64 paths per history (one per x): shorter histories
                tshapes = [(1, "small")] if q else [(1, "full"), (2, "small")]
            for k, cat in tshapes:
                for first in HIST_OPS:
                    obs.append(Ob("O6-history", ob_history, {"p": p, "q": qq, "target": target, "first": first, "k": k, "cat": cat},
                                  replay="enc", budget_s=2400))
    for first in HIST_OPS:
        obs.append(Ob("O6-history-real", ob_history_real, {"first": first, "k": 1 if q else 2, "cat": "small", "nbits": 1 if q else 8},
                      replay="enc", budget_s=2400))
    return obs
