"""C18 — BIP158 compact filters / BIP37 bloom filters (DESIGN.md section 3, C18).

Oracles (all written here, over the same proxies; they also run on plain ints / bytes, which is how replays judge):
MurmurHash3_x86_32 and SipHash-2-4 as textbook fixed-width algorithms with explicit masks, the BIP158 Golomb-Rice bit
layout (q ones, a zero, P remainder bits MSB first, bits packed MSB first, zero padded, CompactSize(N) in front),
F = N*M range mapping, BIP37 bit positions (vData[i >> 3] |= 1 << (i & 7)) and filterload layout, BIP157 header chain.
"""
import random as _random

from symx import core, loader, shims, ifconv
from symx.core import (SI, SB, SBytes, check, s_and, s_or, s_not, s_ite, s_implies, norm, assume, bytes_env, Out, conc_value, lift, wrap,
                       concretize)
from vlib.run import Ob, sym_run, merge_runs

PROPERTY = "C18"

M32 = 0xFFFFFFFF
M64 = 0xFFFFFFFFFFFFFFFF
P = 19
M = 784931
BIP37_CONSTANT = 0xFBA4C795

META = {
    "bounds": {
        "quick": {"murmur3": "all messages of 0..13 bytes x all seeds in [0, 2^40) (covers every 32-bit seed and every BloomFilter seed "
                             "i*0xFBA4C795+tweak for i < 50, tweak < 2^32); the specification takes the seed mod 2^32",
                  "bloom": "bit index observed at BloomFilter.add: sizes {2,36000} bytes x 50 functions x item lengths {0,5}, sizes "
                           "{1,3,7,8} x 3 functions x item lengths {0,1,5,13}, symbolic tweak and item; whole filter_bytes/filterload layout for sizes 1..3 bytes x 1..3 functions, two symbolic items",
                  "siphash": "round lemma for all 2^320 (v0..v3, m); schedule for every message length 0..17, symbolic 16-byte key and message",
                  "range": "all h in [0,2^64), F in [1,2^32)",
                  "golomb": "all x in [0,2^26), P=19 (128 quotient paths); bit lists of 0..17 bits; byte strings of 0..3 bytes; arbitrary "
                            "3..4-byte streams decoded; serialize_gcs/decode_gcs for N = 0..3 sorted items in [0, N*M)",
                  "no false negatives": "0..2 distinct items whose SipHash values are arbitrary 64-bit values, everything real; 2 items with "
                                        "hash_to_range abstracted to its O2 contract (arbitrary function of (item, F) into [0,F)); 3 items with "
                                        "additionally the codec abstracted to its O3 round-trip contract; coinciding values included",
                  "headers": "chains of 0..3 symbolic filter hashes on a symbolic previous header"},
        "thorough": {"murmur3": "0..70 bytes, seeds [0,2^40)", "bloom": "index: sizes {1,2,3,7,8,36000} x 50 functions x item lengths 0..16; layout: sizes 1..4 x functions 1..4",
                     "siphash": "message lengths 0..70", "range": "same",
                     "golomb": "bit lists 0..40, byte strings 0..6, streams 3..6 bytes, gcs items in [0, 2^22)",
                     "no false negatives": "same", "headers": "0..8 filter hashes"}},
    "outside": ["element sets larger than 3 items / scripts as such: the items only enter through their SipHash value, which is arbitrary here",
                "duplicate items in the list handed to encode_gcs (BIP158 hashes a *set*; the caller is taken to pass distinct items)",
                "bloom filters larger than 4 bytes for the whole-array layout (the bit index itself is checked up to 36000 bytes)",
                "Golomb parameters other than P=19, M=784931", "GetCF*/CFCheckPoint message framing (C19)",
                "membership is queried with an object whose raw_serialize() returns the item bytes (Script serialisation is C04)"],
    "stubs": ["O1 schedule: sbuidl.siphash._doublesipround replaced by one uninterpreted function (4x64-bit outputs) on both sides; its "
              "equivalence with two reference SipRounds is the separate lemma obligation on the real function",
              "O2/O4/hashed_items: compactfilter._siphash replaced by arbitrary symbolic 64-bit values (one per distinct item)",
              "O4 mode=range / range+codec (3 items with everything real: > 4 min, mostly 64x22-bit multiplications and term construction): "
              "compactfilter.hash_to_range replaced by fresh values in [0,F) per (item, F) - the contract established by O2; for 3 items also "
              "serialize_gcs/decode_gcs replaced by an opaque token with decode(serialize(v)) == v - the contract established by O3-gcs",
              "O3-golomb, quotients >= 32: the bytes -> unpack_bits -> decode_golomb leg starts from the layout that the preceding assertion "
              "showed equal to pack_bits(encode_golomb(x)) (quotients < 32 use the packed bytes themselves)",
              "hash256 (sha256) as an uninterpreted function on symbolic input",
              "`set` inside sbuidl.compactfilter replaced by a list-backed set with symbolic equality (hashing a symbolic int would enumerate it)",
              "BloomFilter.bit_field replaced by list subclasses (recording / ite-updating __setitem__) after construction",
              "if-conversion from current source (symx/ifconv.py) of pack_bits, unpack_bits, decode_golomb, bit_field_to_bytes; agreement with "
              "the untransformed functions re-checked on random concrete vectors in every worker"],
    "assumptions": ["textbook MurmurHash3_x86_32 / SipHash-2-4 / BIP158 / BIP37 / BIP157 as transcribed in checks/c18.py spec_* functions",
                    "SipHash composition: lemma (real double round == reference, outputs < 2^64) + schedule (any round function) => equivalence"],
}

MANIFEST = {"technique": "symbolic execution of the real hash / codec / filter functions on symbolic bytes and integers (demand-driven bit-vector "
                         "lowering); compositional SipHash proof (round lemma + schedule over an uninterpreted round function); if-conversion of "
                         "bit loops; z3 decides each path; every witness replayed on the native code against plain-Python specifications"}


# ======================================================================================== specifications

def _conc(x):
    return concretize(x) if isinstance(x, SI) else x


def _bitval(b):
    """0/1 integer value of a bit that may be an int, a bool or a symbolic boolean"""
    if isinstance(b, SB):
        return s_ite(b, 1, 0)
    if isinstance(b, bool):
        return int(b)
    return b


def _rotl32(x, r):
    return ((x << r) | (x >> (32 - r))) & M32


def spec_murmur3(data, seed):
    """MurmurHash3_x86_32 (Appleby), seed taken mod 2^32"""
    c1, c2 = 0xCC9E2D51, 0x1B873593
    h = seed & M32
    n = len(data)
    nb = n - n % 4
    for i in range(0, nb, 4):
        k = data[i] | (data[i + 1] << 8) | (data[i + 2] << 16) | (data[i + 3] << 24)
        k = (k * c1) & M32
        k = _rotl32(k, 15)
        k = (k * c2) & M32
        h = h ^ k
        h = _rotl32(h, 13)
        h = (h * 5 + 0xE6546B64) & M32
    k = 0
    r = n % 4
    if r == 3:
        k = k ^ (data[nb + 2] << 16)
    if r >= 2:
        k = k ^ (data[nb + 1] << 8)
    if r >= 1:
        k = k ^ data[nb]
        k = (k * c1) & M32
        k = _rotl32(k, 15)
        k = (k * c2) & M32
        h = h ^ k
    h = h ^ n
    h = h ^ (h >> 16)
    h = (h * 0x85EBCA6B) & M32
    h = h ^ (h >> 13)
    h = (h * 0xC2B2AE35) & M32
    h = h ^ (h >> 16)
    return h


def _rotl64(x, r):
    return ((x << r) | (x >> (64 - r))) & M64


def spec_sipround(v0, v1, v2, v3):
    v0 = (v0 + v1) & M64
    v1 = _rotl64(v1, 13)
    v1 = v1 ^ v0
    v0 = _rotl64(v0, 32)
    v2 = (v2 + v3) & M64
    v3 = _rotl64(v3, 16)
    v3 = v3 ^ v2
    v0 = (v0 + v3) & M64
    v3 = _rotl64(v3, 21)
    v3 = v3 ^ v0
    v2 = (v2 + v1) & M64
    v1 = _rotl64(v1, 17)
    v1 = v1 ^ v2
    v2 = _rotl64(v2, 32)
    return v0, v1, v2, v3


def spec_double_round(v, m):
    """v3 ^= m; SipRound; SipRound; v0 ^= m  (the c=2 compression step; with m=0 it is two plain rounds)"""
    v0, v1, v2, v3 = v
    v3 = v3 ^ m
    v0, v1, v2, v3 = spec_sipround(v0, v1, v2, v3)
    v0, v1, v2, v3 = spec_sipround(v0, v1, v2, v3)
    v0 = v0 ^ m
    return (v0, v1, v2, v3)


def _le_word(bs):
    w = 0
    for j in range(len(bs)):
        w = w | (bs[j] << (8 * j))
    return w


def spec_siphash24(key, msg, D=spec_double_round):
    """SipHash-2-4 (Aumasson/Bernstein) with the double round D as a parameter"""
    k0 = _le_word(key[0:8])
    k1 = _le_word(key[8:16])
    v = (k0 ^ 0x736F6D6570736575, k1 ^ 0x646F72616E646F6D, k0 ^ 0x6C7967656E657261, k1 ^ 0x7465646279746573)
    n = len(msg)
    nb = n - n % 8
    for off in range(0, nb, 8):
        v = D(v, _le_word(msg[off:off + 8]))
    b = _le_word(msg[nb:]) | ((n & 0xFF) << 56)
    v = D(v, b)
    v = (v[0], v[1], v[2] ^ 0xFF, v[3])
    v = D(v, 0)
    v = D(v, 0)
    return v[0] ^ v[1] ^ v[2] ^ v[3]


def spec_golomb_bits(x, p):
    """BIP158 golomb_encode: q ones, a zero, then the p low bits of x, most significant first"""
    q = _conc(x >> p)
    return [1] * q + [0] + [(x >> (p - 1 - i)) & 1 for i in range(p)]


def spec_pack(bits):
    """BitStreamWriter: most significant bit first, final byte zero padded"""
    n = len(bits)
    out = []
    for j in range((n + 7) // 8):
        v = 0
        for k in range(8):
            i = 8 * j + k
            if i < n:
                v = v | (bits[i] << (7 - k))
        out.append(v)
    return norm(SBytes(out))


def spec_unpack(data):
    return [(data[i // 8] >> (7 - i % 8)) & 1 for i in range(8 * len(data))]


def spec_varint(n):
    if n < 0xFD:
        return bytes([n])
    if n < 0x10000:
        return b"\xfd" + n.to_bytes(2, "little")
    if n < 0x100000000:
        return b"\xfe" + n.to_bytes(4, "little")
    return b"\xff" + n.to_bytes(8, "little")


def spec_gcs(sorted_values):
    """BIP158 filter: CompactSize(N) || Golomb-Rice coded successive differences"""
    bits = []
    last = 0
    for v in sorted_values:
        bits += spec_golomb_bits(v - last, P)
        last = v
    return spec_varint(len(sorted_values)) + spec_pack(bits)


def spec_range(h, f):
    return (h * f) >> 64


def spec_sort(vals):
    """ascending order by compare-exchange (no forking)"""
    v = list(vals)
    n = len(v)
    for i in range(n):
        for j in range(n - 1 - i):
            a, b = v[j], v[j + 1]
            c = a <= b
            v[j], v[j + 1] = s_ite(c, a, b), s_ite(c, b, a)
    return v


def spec_bloom_bits(size, fc, tweak, items):
    """BIP37: for each item and i < nHashFuncs: index = murmur3(i*0xFBA4C795 + nTweak, item) % (size*8)"""
    nbits = size * 8
    idxs = []
    for it in items:
        for i in range(fc):
            idxs.append(spec_murmur3(it, (i * BIP37_CONSTANT + tweak) & M32) % nbits)
    return idxs


def spec_bloom_bytes(size, idxs):
    """vData[index >> 3] |= 1 << (index & 7)"""
    if all(isinstance(i, int) for i in idxs):
        data = [0] * size
        for i in idxs:
            data[i >> 3] |= 1 << (i & 7)
        return bytes(data)
    bits = [0] * (size * 8)
    for idx in idxs:
        for p in range(size * 8):
            bits[p] = s_ite(idx == p, 1, bits[p])
    out = []
    for j in range(size):
        v = 0
        for k in range(8):
            v = v | (bits[8 * j + k] << k)
        out.append(v)
    return norm(SBytes(out))


def spec_bloom_contains(data, idx):
    """vData[idx >> 3] & (1 << (idx & 7)) != 0 for an index known to be in range, without indexing by a symbolic value"""
    nbits = 8 * len(data)
    lo, hi = (idx, idx) if isinstance(idx, int) else (idx.lo, idx.hi)
    if not (0 <= lo and hi < nbits):
        return False
    return s_and(*[s_implies(idx == p, ((data[p >> 3] >> (p & 7)) & 1) == 1) for p in range(nbits)])


def spec_filterload(size, data, fc, tweak, flag):
    def le4(x):
        return x.to_bytes(4, "little") if isinstance(x, int) else wrap(lift(x)).to_bytes(4, "little")
    return spec_varint(size) + data + le4(fc) + le4(tweak) + bytes([flag])


def H256(data):
    return shims._H("sha256", shims._H("sha256", data).digest()).digest()


def _beq(a, b):
    """byte strings equal (length and content)"""
    return (len(a) == len(b)) and (a == b)


# ======================================================================================== module set-up (per worker)

_IFC = {}


def _bits_to_test(rng, n):
    return [rng.randrange(2) for _ in range(n)]


def _ifc_vectors(name, rng):
    if name == "pack_bits":
        return [([_bits_to_test(rng, rng.randrange(0, 41))],) for _ in range(30)]
    if name == "unpack_bits":
        return [([bytes(rng.randrange(256) for _ in range(rng.randrange(0, 7)))],) for _ in range(30)]
    if name == "decode_golomb":
        out = []
        for _ in range(30):
            q = rng.randrange(0, 9)
            out.append(([[1] * q + [0] + _bits_to_test(rng, P + 5), P],))
        return out
    if name == "bit_field_to_bytes":
        return [([_bits_to_test(rng, 8 * rng.randrange(0, 6))],) for _ in range(30)]
    raise KeyError(name)


def _install_ifconv(mod, name, also=()):
    """replace mod.name by its if-converted version (from current source); concrete agreement re-checked here"""
    key = (mod.__name__, name)
    if key in _IFC:
        return
    fn = getattr(mod, name)
    fn = getattr(fn, "__sx_original__", fn)
    new, cnt = ifconv.convert(fn)
    if cnt:
        rng = _random.Random(18)
        for (args,) in _ifc_vectors(name, rng):
            import copy
            a1, a2 = copy.deepcopy(args), copy.deepcopy(args)
            if fn(*a1) != new(*a2) or a1 != a2:
                raise RuntimeError(f"if-converted {name} disagrees with the original on {args}")
        setattr(mod, name, new)
        for m2 in also:
            setattr(m2, name, new)
    _IFC[key] = cnt


class SymSet:
    """stand-in for `set` inside sbuidl.compactfilter: membership / insertion compare symbolically (forking on equality)"""

    def __init__(self, it=()):
        self.items = []
        for x in it:
            self.add(x)

    def _has(self, x):
        if not self.items:
            return False
        return bool(s_or(*[y == x for y in self.items]))

    __contains__ = _has

    def add(self, x):
        if not self._has(x):
            self.items.append(x)

    def __len__(self):
        return len(self.items)

    def __iter__(self):
        return iter(list(self.items))

    def __eq__(self, o):
        o = list(o)
        return len(o) == len(self.items) and all(self._has(x) for x in o)

    __hash__ = None


def _cf():
    cf = loader.load("compactfilter")
    for nm in ("pack_bits", "unpack_bits", "decode_golomb"):
        _install_ifconv(cf, nm)
    cf.set = SymSet
    return cf


def _bf():
    bf = loader.load("bloomfilter")
    h = loader.load("helper")
    _install_ifconv(h, "bit_field_to_bytes", also=(bf,))
    return bf


class _Spk:
    """what CompactFilter.__contains__ needs from a script: raw_serialize()"""

    def __init__(self, raw):
        self.raw = raw

    def raw_serialize(self):
        return self.raw


# ======================================================================================== O5 murmur3 / bloom

def _murmur_path(n):
    h = loader.load("helper")
    d = SBytes.sym("d", n) if n else b""
    seed = SI.var("seed", 0, (1 << 40) - 1)
    r = h.murmur3(d, seed)
    w = lambda env: {"data": bytes_env(env, "d", n).hex(), "seed": env["seed"]}  # noqa
    check(s_and(r >= 0, r <= M32), "murmur3 result is a 32-bit value", witness=w)
    check(r == spec_murmur3(d, seed), f"murmur3 differs from MurmurHash3_x86_32 on a {n}-byte message", witness=w)
    # the default seed
    r0 = h.murmur3(d)
    check(r0 == spec_murmur3(d, 0), "murmur3 default seed is 0", witness=lambda env: {"data": bytes_env(env, "d", n).hex(), "seed": 0})
    return Out("ok", r)


def ob_murmur(lengths):
    nat = loader.native("helper")
    runs = []
    for n in lengths:
        def gen(rng, n=n):
            env = {f"d[{i}]": rng.choice([0, 0xFF, 0x80, rng.randrange(256)]) for i in range(n)}
            env["seed"] = rng.choice([0, M32, 1 << 32, (1 << 40) - 1, rng.randrange(1 << 40)])
            return env
        runs.append(sym_run(lambda: _murmur_path(n), gen_env=gen, native=lambda env, n=n: nat.murmur3(bytes_env(env, "d", n), env["seed"]),
                            n_val=6))
    m = merge_runs(runs)
    m["sample"] = {"data": f"symbolic bytes, lengths {list(lengths)}", "seed": "symbolic in [0, 2^40)"}
    return m


def replay_murmur(w):
    from buidl import helper
    d = bytes.fromhex(w["data"])
    got = helper.murmur3(d, w["seed"])
    want = spec_murmur3(d, w["seed"])
    return {"violated": got != want, "observed": f"murmur3({d.hex()}, seed={w['seed']}) = {got:#x}, MurmurHash3_x86_32 = {want:#x}"}


class _RecList(list):
    """bit_field stand-in that records the (index, value) of every assignment"""

    def __init__(self, n):
        list.__init__(self)
        self.n = n
        self.log = []

    def __setitem__(self, k, v):
        self.log.append((k, v))

    def __len__(self):
        return self.n


class _SymBitList(list):
    """bit_field stand-in: assignment at a symbolic index updates every position by ite (no forking)"""

    def __setitem__(self, k, v):
        if not isinstance(k, SI):
            return list.__setitem__(self, k, v)
        n = len(self)
        if not (k.lo >= 0 and k.hi < n):
            if bool(s_or(k < -n, k >= n)):
                raise IndexError("list assignment index out of range")
        for p in range(n):
            c = s_or(k == p, k == p - n)
            list.__setitem__(self, p, s_ite(c, v, list.__getitem__(self, p)))


def _bloom_index_path(size, fc, L):
    bfm = _bf()
    tweak = SI.var("tweak", 0, M32)
    item = SBytes.sym("item", L) if L else b""
    w = lambda env: {"size": size, "fc": fc, "tweak": env["tweak"], "items": [bytes_env(env, "item", L).hex()]}  # noqa
    bf = bfm.BloomFilter(size, fc, tweak)
    rec = _RecList(size * 8)
    bf.bit_field = rec
    bf.add(item)
    check(len(rec.log) == fc, "BloomFilter.add sets one bit per hash function", witness=w)
    want = spec_bloom_bits(size, fc, tweak, [item])
    for i, (k, v) in enumerate(rec.log[:fc]):
        check(s_and(k == want[i], v == 1), f"bit index of hash function {i} differs from murmur3(i*0xFBA4C795+tweak) % (size*8)", witness=w)
    return "ok"


def ob_bloom_index(size, fc, lengths):
    runs = [sym_run(lambda: _bloom_index_path(size, fc, L), max_violations=4) for L in lengths]
    m = merge_runs(runs)
    m["sample"] = {"size_bytes": size, "function_count": fc, "item_lengths": list(lengths), "tweak": "symbolic 32-bit", "item": "symbolic"}
    return m


def _bloom_layout_path(size, fc, lens):
    bfm = _bf()
    h = loader.load("helper")
    tweak = SI.var("tweak", 0, M32)
    items = [SBytes.sym(f"it{j}", L) if L else b"" for j, L in enumerate(lens)]
    w = lambda env: {"size": size, "fc": fc, "tweak": env["tweak"],  # noqa
                     "items": [bytes_env(env, f"it{j}", L).hex() for j, L in enumerate(lens)]}
    bf = bfm.BloomFilter(size, fc, tweak)
    check(len(bf.bit_field) == size * 8 and all(b == 0 for b in bf.bit_field), "a new filter is empty", witness=w)
    bf.bit_field = _SymBitList(bf.bit_field)
    idxs = []
    for it in items:
        bf.add(it)
        idxs += spec_bloom_bits(size, fc, tweak, [it])
        data = bf.filter_bytes()
        e = spec_bloom_bytes(size, idxs)
        check(_beq(data, e), "filter_bytes differs from the BIP37 bit layout vData[i>>3] |= 1<<(i&7)", witness=w)
        # no false negatives: every bit of every item added so far tests as set (CBloomFilter::contains)
        # (evaluated on the layout just shown equal to filter_bytes)
        check(s_and(*[spec_bloom_contains(e, i) for i in idxs]), "an inserted element is not reported present", witness=w)
        # history: the load message is asked for after every insertion (a peer is re-sent the filter as the wallet grows)
        for flag in (1, 0):
            msg = bf.filterload(flag)
            check(_beq(msg.payload, spec_filterload(size, e, fc, tweak, flag)),
                  "filterload payload after an insertion differs from the layout of the current bit field (stale message)", witness=w)
    data = bf.filter_bytes()
    back = h.bytes_to_bit_field(data)
    check(len(back) == size * 8 and s_and(*[a == b for a, b in zip(back, bf.bit_field)]), "bytes_to_bit_field does not invert bit_field_to_bytes",
          witness=w)
    for flag in (0, 1, 2):
        msg = bf.filterload(flag)
        check(msg.command == b"filterload", "filterload command", witness=w)
        check(_beq(msg.payload, spec_filterload(size, spec_bloom_bytes(size, idxs), fc, tweak, flag)),
              "filterload payload differs from CompactSize(size) || vData || nHashFuncs(LE32) || nTweak(LE32) || nFlags", witness=w)
    msg = bf.filterload()
    check(msg.payload[len(msg.payload) - 1] == 1, "filterload default flag is 1", witness=w)
    return "ok"


def ob_bloom_layout(size, fc):
    r = sym_run(lambda: _bloom_layout_path(size, fc, (3, 5)), max_violations=4)
    r["sample"] = {"size_bytes": size, "function_count": fc, "items": "two symbolic items of 3 and 5 bytes", "tweak": "symbolic 32-bit"}
    return r


def replay_bloom(w):
    from buidl.bloomfilter import BloomFilter
    size, fc, tweak = w["size"], w["fc"], w["tweak"]
    items = [bytes.fromhex(x) for x in w["items"]]
    bf = BloomFilter(size, fc, tweak)
    idxs = []
    for it in items:
        bf.add(it)
        idxs += spec_bloom_bits(size, fc, tweak, [it])
        want = spec_bloom_bytes(size, idxs)
        got = bf.filter_bytes()
        if got != want:
            return {"violated": True, "observed": f"BloomFilter({size},{fc},{tweak}) after adding {[i.hex() for i in items]}: filter_bytes "
                                                  f"{got.hex()[:80]} != BIP37 {want.hex()[:80]}"}
        for flag in (1, 0):
            p = bf.filterload(flag).payload
            e = spec_filterload(size, want, fc, tweak, flag)
            if p != e:
                return {"violated": True, "observed": f"BloomFilter({size},{fc},{tweak}): filterload({flag}) asked after each insertion of "
                                                      f"{[i.hex() for i in items]}: payload {p.hex()[:80]} != {e.hex()[:80]} (stale)"}
    for flag in (0, 1, 2):
        p = bf.filterload(flag).payload
        e = spec_filterload(size, spec_bloom_bytes(size, idxs), fc, tweak, flag)
        if p != e:
            return {"violated": True, "observed": f"filterload payload {p.hex()[:80]} != {e.hex()[:80]}"}
    return {"violated": False, "observed": "agrees"}


# ======================================================================================== O1 SipHash-2-4

def _sip_lemma_path():
    s = loader.load("siphash")
    v = tuple(SI.var(f"v{i}", 0, M64) for i in range(4))
    m = SI.var("m", 0, M64)
    w = lambda env: {"v": [env[f"v{i}"] for i in range(4)], "m": env["m"]}  # noqa
    out = s._doublesipround(v, m)
    ref = spec_double_round(v, m)
    check(len(out) == 4, "four state words", witness=w)
    for i in range(4):
        check(s_and(out[i] >= 0, out[i] <= M64), f"_doublesipround output {i} leaves the 64-bit range", witness=w)
        check(out[i] == ref[i], f"_doublesipround output v{i} differs from two SipRounds", witness=w)
    return Out("ok", tuple(out))


def _sip_lemma_list_path():
    """hash() hands the state over as a list (after v[2] ^= 0xff): same function, list argument, m = 0"""
    s = loader.load("siphash")
    v = [SI.var(f"v{i}", 0, M64) for i in range(4)]
    w = lambda env: {"v": [env[f"v{i}"] for i in range(4)], "m": 0}  # noqa
    out = s._doublesipround(v, 0)
    ref = spec_double_round(tuple(v), 0)
    check(s_and(*[out[i] == ref[i] for i in range(4)]), "_doublesipround(list, 0) differs from two SipRounds", witness=w)
    return "ok"


def ob_sip_lemma():
    nat = loader.native("siphash")

    def gen(rng):
        env = {f"v{i}": rng.choice([0, M64, rng.randrange(1 << 64)]) for i in range(4)}
        env["m"] = rng.choice([0, M64, 0xFF, rng.randrange(1 << 64)])
        return env
    r1 = sym_run(_sip_lemma_path, gen_env=gen, n_val=8,
                 native=lambda env: tuple(nat._doublesipround(tuple(env[f"v{i}"] for i in range(4)), env["m"])))
    r2 = sym_run(_sip_lemma_list_path)
    # the doctest vectors of the function itself, through the specification (concrete trusted-base sanity)
    for v, m in (((1, 2, 3, 4), 0), ((1, 2, 3, 4), 0xFF), ((0, 0, 0, 0), 0), ((0, 0, 0, 0), 0xFF)):
        if tuple(nat._doublesipround(v, m)) != tuple(spec_double_round(v, m)):
            r1["violations"].append({"label": "doctest vector", "env": {}, "witness": {"v": list(v), "m": m}})
    m_ = merge_runs([r1, r2])
    m_["sample"] = {"v0..v3": "symbolic 64-bit", "m": "symbolic 64-bit"}
    return m_


def replay_sip_lemma(w):
    from buidl import siphash
    v, m = tuple(w["v"]), w["m"]
    got = tuple(siphash._doublesipround(v, m))
    want = tuple(spec_double_round(v, m))
    return {"violated": got != want, "observed": f"_doublesipround({v}, {m}) = {got}; two SipRounds = {want}"}


def _uf_double_round(v, m):
    args = [lift(x) for x in v] + [lift(m)]
    if len(args) != 5:
        raise core.Unsupported("round function called with a state of %d words" % (len(args) - 1))
    for a in args:
        if not (a.lo >= 0 and a.hi <= M64):
            raise core.Unsupported("round function argument outside the 64-bit range of the lemma")
    return tuple(wrap(core.n_uf(f"sipD{i}", 64, args, widths=(64,) * 5)) for i in range(4))


def _sip_schedule_path(n, split):
    s = loader.load("siphash")
    cf = _cf()
    s._doublesipround = _uf_double_round
    key = SBytes.sym("key", 16)
    msg = SBytes.sym("msg", n) if n else b""
    w = lambda env: {"key": bytes_env(env, "key", 16).hex(), "msg": bytes_env(env, "msg", n).hex(), "split": split}  # noqa
    e = spec_siphash24(key, msg, _uf_double_round)
    r = cf._siphash(key, msg)
    check(r == e, f"SipHash schedule/padding/finalisation differs on a {n}-byte message (compactfilter._siphash)", witness=w)
    o = s.SipHash_2_4(key, msg)
    check(o.hash() == e, "SipHash_2_4(key, msg).hash() differs", witness=w)
    check(o.hash() == e, "hash() is not repeatable", witness=w)
    check(_beq(o.digest(), wrap(lift(e)).to_bytes(8, "little") if not isinstance(e, int) else e.to_bytes(8, "little")),
          "digest() is not the little-endian 8-byte hash", witness=w)
    # incremental hashing: update(a); update(b) == one shot
    o2 = s.SipHash_2_4(key)
    o2.update(msg[:split])
    c2 = o2.copy()
    o2.update(msg[split:])
    check(o2.hash() == e, f"incremental update split at {split} differs", witness=w)
    c2.update(msg[split:])
    check(c2.hash() == e, "copy() does not carry the state", witness=w)
    return "ok"


def ob_sip_schedule(lengths):
    runs = []
    for n in lengths:
        for split in sorted({0, n // 2, max(n - 1, 0), min(3, n), min(8, n)}):
            runs.append(sym_run(lambda: _sip_schedule_path(n, split)))
    # key length guard of compactfilter._siphash (concrete behaviour)
    cf = loader.load("compactfilter")
    m = merge_runs(runs)
    for kl in (0, 15, 17, 32):
        try:
            cf._siphash(bytes(kl), b"x")
            m["violations"].append({"label": "key length guard", "env": {}, "witness": {"key": bytes(kl).hex(), "msg": "78", "split": 0}})
        except ValueError:
            pass
    m["sample"] = {"key": "symbolic 16 bytes", "msg": f"symbolic, lengths {list(lengths)}", "round_function": "uninterpreted on both sides"}
    return m


def replay_sip(w):
    from buidl import compactfilter, siphash
    key, msg = bytes.fromhex(w["key"]), bytes.fromhex(w["msg"])
    if len(key) != 16:
        try:
            compactfilter._siphash(key, msg)
            return {"violated": True, "observed": f"_siphash accepted a {len(key)}-byte key"}
        except ValueError:
            return {"violated": False, "observed": "rejected"}
    want = spec_siphash24(key, msg)
    got = compactfilter._siphash(key, msg)
    sp = w.get("split", 0)
    o = siphash.SipHash_2_4(key)
    o.update(msg[:sp])
    o.update(msg[sp:])
    got2 = o.hash()
    got3 = siphash.SipHash_2_4(key, msg).digest()
    bad = got != want or got2 != want or got3 != want.to_bytes(8, "little")
    return {"violated": bad, "observed": f"_siphash({key.hex()}, {msg.hex()}) = {got:#x}, incremental {got2:#x}, SipHash-2-4 = {want:#x}"}


# ======================================================================================== O2 range mapping

def _range_path():
    cf = _cf()
    h = SI.var("h", 0, M64)
    f = SI.var("f", 1, M32)
    cf._siphash = lambda key, value: h
    w = lambda env: {"h": env["h"], "f": env["f"]}  # noqa
    r = cf.hash_to_range(b"\x00" * 16, b"item", f)
    check(s_and(r >= 0, r < f), "hash_to_range leaves [0, F)", witness=w)
    check(s_and(r * (1 << 64) <= h * f, h * f < (r + 1) * (1 << 64)), "hash_to_range is not floor(h*F / 2^64)", witness=w)
    return Out("ok", r)


def _hashed_items_path(n):
    cf = _cf()
    hs = [SI.var(f"h{i}", 0, M64) for i in range(n)]
    items = [bytes([0x51, i]) for i in range(n)]
    table = dict(zip(items, hs))
    cf._siphash = lambda key, value: table[bytes(value)]
    w = lambda env: {"hashes": [env[f"h{i}"] for i in range(n)]}  # noqa
    got = cf.hashed_items(b"\x00" * 16, list(items))
    want = spec_sort([spec_range(h, n * M) for h in hs])
    check(len(got) == n and s_and(*[a == b for a, b in zip(got, want)]),
          "hashed_items is not the ascending list of (siphash * N*M) >> 64", witness=w)
    return "ok"


def ob_range():
    nat = loader.native("compactfilter")
    cfm = loader.load("compactfilter")
    r = sym_run(_range_path, timeout_ms=120000)
    runs = [r] + [sym_run(lambda: _hashed_items_path(n)) for n in (0, 1, 2, 3)]
    m = merge_runs(runs)
    if (cfm.GOLOMB_P, cfm.GOLOMB_M, nat.GOLOMB_P, nat.GOLOMB_M) != (19, 784931, 19, 784931):
        m["violations"].append({"label": "BIP158 parameters P=19, M=784931", "env": {}, "witness": {"constants": True}})
    m["sample"] = {"h": "symbolic 64-bit", "F": "symbolic in [1, 2^32)", "hashed_items": "0..3 items with symbolic hashes"}
    return m


def replay_range(w):
    from buidl import compactfilter as cf
    if "constants" in w:
        return {"violated": (cf.GOLOMB_P, cf.GOLOMB_M) != (19, 784931), "observed": f"P={cf.GOLOMB_P} M={cf.GOLOMB_M}"}
    orig = cf._siphash
    try:
        if "hashes" in w:
            hs = w["hashes"]
            items = [bytes([0x51, i]) for i in range(len(hs))]
            table = dict(zip(items, hs))
            cf._siphash = lambda key, value: table[bytes(value)]
            got = cf.hashed_items(b"\x00" * 16, list(items))
            want = sorted((h * len(hs) * M) >> 64 for h in hs)
            return {"violated": got != want, "observed": f"hashed_items with siphash values {hs}: {got}, want {want}"}
        h, f = w["h"], w["f"]
        cf._siphash = lambda key, value: h
        r = cf.hash_to_range(b"\x00" * 16, b"item", f)
        return {"violated": not (0 <= r < f and r == (h * f) // (1 << 64)), "observed": f"hash_to_range with siphash={h}, F={f}: {r}"}
    finally:
        cf._siphash = orig


# ======================================================================================== O3 Golomb-Rice / bit packing

def _golomb_path(qlo, qhi):
    cf = _cf()
    direct = qhi <= 32
    x = SI.var("x", qlo << P, (qhi << P) - 1)
    w = lambda env: {"x": env["x"]}  # noqa
    bits = cf.encode_golomb(x, P)
    e = spec_golomb_bits(x, P)
    if len(bits) != len(e):
        check(False, "encode_golomb emits the wrong number of bits", witness=w)
        return "len"
    check(s_and(*[_bitval(a) == b for a, b in zip(bits, e)]), "encode_golomb differs from q ones, zero, 19 remainder bits (MSB first)", witness=w)
    # decoding the code word directly (followed by arbitrary further bits)
    t0, t1 = SI.var("t0", 0, 1), SI.var("t1", 0, 1)
    stream = list(bits) + [t0, t1]
    y = cf.decode_golomb(stream, P)
    check(y == x, "decode_golomb(encode_golomb(x)) != x", witness=w)
    check(len(stream) == 2, "decode_golomb does not consume exactly the code word", witness=w)
    # packed form and the way back through the byte string
    by = cf.pack_bits(list(bits))
    eb = spec_pack(e)
    check(_beq(by, eb), "pack_bits(encode_golomb(x)) differs from the BIP158 bit stream layout", witness=w)
    tail = SBytes.sym("tail", 1)
    # large quotients: the decode leg starts from the layout just shown equal to the packed bytes (its unary prefix is
    # concrete, which saves ~q feasibility queries per path); small quotients go through the packed bytes themselves
    ub = cf.unpack_bits((by if direct else eb) + tail)
    n0 = len(ub)
    z = cf.decode_golomb(ub, P)
    check(z == x, "decode_golomb(unpack_bits(pack_bits(encode_golomb(x)))) != x", witness=w)
    check(len(ub) == n0 - len(e), "decoding from bytes does not consume exactly the code word", witness=w)
    return Out(len(e), by)


def ob_golomb(qlo, qhi):
    nat = loader.native("compactfilter")

    def gen(rng):
        return {"x": rng.choice([qlo << P, (qhi << P) - 1, rng.randrange(qlo << P, qhi << P)]), "t0": 0, "t1": 1, "tail[0]": rng.randrange(256)}
    r = sym_run(lambda: _golomb_path(qlo, qhi), gen_env=gen, native=lambda env: nat.pack_bits(nat.encode_golomb(env["x"], P)), n_val=6,
                timeout_ms=60000, max_violations=6)
    r["sample"] = {"x": f"symbolic in [{qlo}*2^19, {qhi}*2^19)", "P": P}
    if len(r["classes"]) != qhi - qlo and not r["violations"]:
        r["inconclusive"].append(f"reachability twin: {len(r['classes'])} quotient classes reached, expected {qhi - qlo}")
    return r


def _native_gcs_codec(x):
    from buidl import compactfilter as cf
    bits = cf.encode_golomb(x, P)
    ebits = spec_golomb_bits(x, P)
    by = cf.pack_bits(list(bits))
    back = cf.decode_golomb(cf.unpack_bits(by + b"\xa5"), P)
    direct = cf.decode_golomb([int(b) for b in bits] + [1, 0], P)
    return [int(b) for b in bits], ebits, by, back, direct


def replay_golomb(w):
    x = w["x"]
    bits, ebits, by, back, direct = _native_gcs_codec(x)
    bad = bits != ebits or by != spec_pack(ebits) or back != x or direct != x
    return {"violated": bad, "observed": f"x={x}: bits ok={bits == ebits}, packed {by.hex()} (spec {bytes(spec_pack(ebits)).hex()}), decoded {back}/{direct}"}


def _pack_path(nbits):
    cf = _cf()
    bits = [SI.var(f"b{i}", 0, 1) for i in range(nbits)]
    w = lambda env: {"bits": [env[f"b{i}"] for i in range(nbits)]}  # noqa
    arg = list(bits)
    by = cf.pack_bits(arg)
    e = spec_pack(bits)
    check(_beq(by, e), "pack_bits differs from MSB-first packing with zero padding", witness=w)
    back = cf.unpack_bits(by)
    pad = (-nbits) % 8
    check(len(back) == nbits + pad and s_and(*[a == b for a, b in zip(back, bits + [0] * pad)]), "unpack_bits(pack_bits(bits)) != bits + padding",
          witness=w)
    return "ok"


def _unpack_path(nbytes):
    cf = _cf()
    data = SBytes.sym("data", nbytes) if nbytes else b""
    w = lambda env: {"data": bytes_env(env, "data", nbytes).hex()}  # noqa
    bits = cf.unpack_bits(data)
    e = spec_unpack(data)
    check(len(bits) == len(e) and s_and(*[a == b for a, b in zip(bits, e)]), "unpack_bits is not MSB first", witness=w)
    by = cf.pack_bits(list(bits))
    check(_beq(by, data), "pack_bits(unpack_bits(data)) != data", witness=w)
    return "ok"


def ob_bits(maxbits, maxbytes):
    runs = [sym_run(lambda: _pack_path(n)) for n in range(0, maxbits + 1)]
    runs += [sym_run(lambda: _unpack_path(n)) for n in range(0, maxbytes + 1)]
    m = merge_runs(runs)
    m["sample"] = {"bits": f"symbolic 0/1 lists of 0..{maxbits} bits", "data": f"symbolic byte strings of 0..{maxbytes} bytes"}
    return m


def replay_bits(w):
    from buidl import compactfilter as cf
    if "bits" in w:
        bits = w["bits"]
        by = cf.pack_bits(list(bits))
        back = cf.unpack_bits(by)
        bad = by != spec_pack(bits) or back != bits + [0] * ((-len(bits)) % 8)
        return {"violated": bad, "observed": f"pack_bits({bits}) = {by.hex()}, unpacked {back}"}
    data = bytes.fromhex(w["data"])
    bits = cf.unpack_bits(data)
    bad = bits != spec_unpack(data) or cf.pack_bits(list(bits)) != data
    return {"violated": bad, "observed": f"unpack_bits({data.hex()}) = {bits}"}


def spec_decode_stream(bits, p):
    """golomb_decode on a bit list: (value, bits consumed) or None when the stream ends early"""
    q = 0
    while q < len(bits) and bool(bits[q] == 1):
        q += 1
    if q + 1 + p > len(bits):
        return None
    r = 0
    for i in range(p):
        r = (r << 1) | bits[q + 1 + i]
    return (q << p) + r, q + 1 + p


def _stream_path(nbytes):
    cf = _cf()
    data = SBytes.sym("data", nbytes)
    w = lambda env: {"stream": bytes_env(env, "data", nbytes).hex()}  # noqa
    bits = cf.unpack_bits(data)
    ebits = spec_unpack(data)
    n0 = len(bits)
    try:
        x = cf.decode_golomb(bits, P)
        ok = True
    except IndexError:
        ok = False
    e = spec_decode_stream(ebits, P)
    if ok != (e is not None):
        check(False, f"decode_golomb {'accepts' if ok else 'rejects'} a stream the BIP158 reader {'rejects' if ok else 'accepts'}", witness=w)
        return "diff"
    if not ok:
        check(True, "both run off the end")
        return "short"
    val, used = e
    check(x == val, "decode_golomb differs from the BIP158 reader", witness=w)
    check(len(bits) == n0 - used, "decode_golomb consumes a different number of bits", witness=w)
    # encoding the decoded value reproduces the consumed prefix
    again = cf.encode_golomb(x, P)
    check(len(again) == used and s_and(*[_bitval(a) == b for a, b in zip(again, ebits[:used])]), "encode_golomb(decode_golomb(s)) != consumed prefix",
          witness=w)
    return used


def ob_stream(sizes):
    runs = [sym_run(lambda: _stream_path(n), expect_classes=["short", 20]) for n in sizes]
    m = merge_runs(runs)
    m["sample"] = {"stream": f"arbitrary symbolic byte strings of lengths {list(sizes)}"}
    return m


def replay_stream(w):
    from buidl import compactfilter as cf
    data = bytes.fromhex(w["stream"])
    bits = cf.unpack_bits(data)
    n0 = len(bits)
    e = spec_decode_stream(spec_unpack(data), P)
    try:
        x = cf.decode_golomb(bits, P)
    except IndexError:
        return {"violated": e is not None, "observed": f"decode_golomb({data.hex()}) ran off the end; reader: {e}"}
    if e is None:
        return {"violated": True, "observed": f"decode_golomb({data.hex()}) = {x} on a truncated stream"}
    bad = x != e[0] or n0 - len(bits) != e[1] or [int(b) for b in cf.encode_golomb(x, P)] != spec_unpack(data)[:e[1]]
    return {"violated": bad, "observed": f"decode_golomb({data.hex()}) = {x} using {n0 - len(bits)} bits; reader: {e}"}


def _gcs_path(n, bound, wide=None, small=2, qlo=0, qhi=128):
    cf = _cf()
    if wide is None:
        vals = [SI.var(f"a{i}", 0, bound - 1) for i in range(n)]
        for i in range(n - 1):
            assume(vals[i] <= vals[i + 1])
    else:
        # one delta (position `wide`) with a quotient anywhere in [qlo, qhi) (values up to 2^26 = the property's Golomb range),
        # the others with quotients below `small`: the unary part forks per quotient, so the wide delta moves through the positions
        vals = [SI.var(f"a{i}", 0, (qhi + n * small) << P) for i in range(n)]
        prev = 0
        for i in range(n):
            d = vals[i] - prev
            assume(d >= (qlo << P) if i == wide else d >= 0)
            assume(d < ((qhi if i == wide else small) << P))
            prev = vals[i]
    w = lambda env: {"values": [env[f"a{i}"] for i in range(n)]}  # noqa
    g = cf.serialize_gcs(list(vals))
    e = spec_gcs(vals)
    check(_beq(g, e), "serialize_gcs differs from CompactSize(N) || Golomb-Rice(deltas)", witness=w)
    key = b"\x00" * 16
    back = cf.decode_gcs(key, g)
    check(len(back) == n and s_and(*[a == b for a, b in zip(back, vals)]), "decode_gcs(serialize_gcs(values)) != values", witness=w)
    return Out("ok", g)


def ob_gcs(n, bound, wide=None, small=2, qlo=0, qhi=128):
    nat = loader.native("compactfilter")

    def gen(rng):
        if wide is not None:
            v, prev = [], 0
            for i in range(n):
                prev += rng.randrange(qlo << P, qhi << P) if i == wide else rng.randrange(small << P)
                v.append(prev)
            return {f"a{i}": v[i] for i in range(n)}
        v = sorted(rng.randrange(bound) for _ in range(n))
        if n >= 2 and rng.random() < 0.4:
            v[1] = v[0]
        return {f"a{i}": v[i] for i in range(n)}
    r = sym_run(lambda: _gcs_path(n, bound, wide, small, qlo, qhi), gen_env=gen, native=lambda env: nat.serialize_gcs([env[f"a{i}"] for i in range(n)]), n_val=6,
                timeout_ms=60000, max_violations=6)
    r["sample"] = {"values": f"{n} symbolic sorted values in [0, {bound})" if wide is None else
                   f"{n} sorted values, delta {wide} with Golomb quotient in [{qlo},{qhi}) (values up to 2^26), the other deltas with quotient < {small}"}
    return r


def replay_gcs(w):
    from buidl import compactfilter as cf
    vals = w["values"]
    g = cf.serialize_gcs(list(vals))
    e = spec_gcs(vals)
    back = cf.decode_gcs(b"\x00" * 16, g)
    return {"violated": g != e or back != vals, "observed": f"serialize_gcs({vals}) = {g.hex()} (spec {bytes(e).hex()}), decoded {back}"}


# ======================================================================================== O4 no false negatives

def _items(n):
    return [bytes([0x51, 0x20 + i]) for i in range(n)]


class _Token:
    """an encoded filter, opaque except for what decoding returns"""

    def __init__(self, values):
        self.values = list(values)

    def __len__(self):
        return len(self.values)

    def __eq__(self, o):
        return isinstance(o, _Token) and len(o) == len(self) and s_and(*[a == b for a, b in zip(self.values, o.values)])

    __hash__ = None


def _nofn_path(n, mode):
    """mode 'exact': SipHash values are arbitrary 64-bit symbols and the real (h*F)>>64 arithmetic and codec run;
    mode 'range': hash_to_range is replaced by its O2 contract - an arbitrary function of (item, F) into [0, F);
    mode 'range+codec': additionally serialize_gcs/decode_gcs are replaced by their O3 round-trip contract"""
    cf = _cf()
    items = _items(n)
    key = b"\x00" * 16
    F = n * M
    if mode == "exact":
        hs = [SI.var(f"h{i}", 0, M64) for i in range(n)]
        table = dict(zip(items, hs))
        cf._siphash = lambda key, value: table[bytes(value)]

        def w(env):
            hv = [env[f"h{i}"] for i in range(n)]
            return {"n": n, "mode": mode, "hashes": hv, "ranges": [(h * F) >> 64 for h in hv]}
    else:
        memo = {}
        if mode == "range+codec":
            # the codec is replaced by its round-trip contract decode_gcs(serialize_gcs(v)) == v (O3-gcs, N <= 3, values < N*M)
            cf.serialize_gcs = lambda sorted_items: _Token(sorted_items)
            cf.decode_gcs = lambda key, gcs: list(gcs.values)

        def h2r(key, value, f):
            k = (items.index(bytes(value)), _conc(f))
            if k not in memo:
                memo[k] = SI.var(f"r{k[0]}_{k[1]}", 0, k[1] - 1)
            return memo[k]
        cf.hash_to_range = h2r

        def w(env):
            return {"n": n, "mode": mode, "ranges": [env[f"r{i}_{F}"] for i in range(n)]}
    g = cf.encode_gcs(key, list(items))
    flt = cf.CompactFilter.parse(key, g)
    for i in range(n):
        present = _Spk(items[i]) in flt
        check(bool(present), f"inserted item {i} of {n} is not reported present (false negative)", witness=w)
    g2 = flt.serialize()
    check(_beq(g2, g), "CompactFilter.parse(filter).serialize() != filter", witness=w)
    if mode != "range+codec":
        check(_beq(flt.hash(), H256(g)), "CompactFilter.hash() is not hash256 of the filter it was parsed from", witness=w)
    return "ok"


def ob_nofn(n, mode):
    r = sym_run(lambda: _nofn_path(n, mode), timeout_ms=60000, max_violations=6)
    r["sample"] = {"items": n, "siphash values": "arbitrary symbolic 64-bit (coinciding values allowed)" if mode == "exact" else
                   "range values arbitrary in [0, F) per (item, F) (coinciding values allowed)"}
    return r


def _real_items_with_pattern(key, n, pattern, budget=400000):
    """distinct concrete scripts whose real SipHash range values (F = n*M) coincide exactly as in `pattern`
    (pattern[i] == pattern[j] <=> same value); deterministic search"""
    from buidl import compactfilter as cf
    groups = {}
    for i, p in enumerate(pattern):
        groups.setdefault(p, []).append(i)
    need = sorted((len(v) for v in groups.values()), reverse=True)
    byval = {}
    f = n * M
    chosen = []
    for c in range(budget):
        it = b"\x51\x03" + c.to_bytes(3, "big")
        v = cf.hash_to_range(key, it, f)
        byval.setdefault(v, []).append(it)
        if len(byval[v]) == need[0]:
            chosen = [list(byval[v])]
            used = {v}
            for k in need[1:]:
                for v2, lst in byval.items():
                    if v2 not in used and len(lst) >= k:
                        chosen.append(lst[:k])
                        used.add(v2)
                        break
            if len(chosen) == len(need):
                return [x for grp in chosen for x in grp]
    return None


def replay_nofn(w):
    """1) the real encode_gcs / parse / __contains__ with the witness' SipHash values substituted; 2) the same on entirely real inputs:
    concrete scripts found by search whose real SipHash-2-4 values coincide in the same pattern"""
    from buidl import compactfilter as cf
    n = w["n"]
    items = _items(n)
    key = b"\x00" * 16
    if w.get("mode") == "exact":
        table = dict(zip(items, w["hashes"]))
        orig = cf._siphash
        try:
            cf._siphash = lambda k, v: table[bytes(v)]
            g = cf.encode_gcs(key, list(items))
            flt = cf.CompactFilter.parse(key, g)
            stub_missing = [i for i in range(n) if not (_Spk(items[i]) in flt)]
            stub_rt = flt.serialize() == g
        finally:
            cf._siphash = orig
        if not stub_missing and stub_rt:
            return {"violated": False, "observed": "all items present with the witness' SipHash values"}
    real = _real_items_with_pattern(key, n, w["ranges"])
    if real is None:
        return {"violated": None, "error": "no real items with the coincidence pattern found within the search budget"}
    g = cf.encode_gcs(key, list(real))
    flt = cf.CompactFilter.parse(key, g)
    missing = [x.hex() for x in real if not (_Spk(x) in flt)]
    rt = flt.serialize() == g
    vals = [cf.hash_to_range(key, x, n * M) for x in real]
    return {"violated": bool(missing) or not rt,
            "observed": f"key={key.hex()} items={[x.hex() for x in real]} (range values {vals}, F={n}*M): filter {g.hex()}; parse() gives f={flt.f}; "
                        f"not reported present: {missing}; parse().serialize()==filter: {rt}"}


# ======================================================================================== O6 header chain

def _header_path(n):
    cf = _cf()
    prev = SBytes.sym("prev", 32)
    stop = SBytes.sym("stop", 32)
    fhs = [SBytes.sym(f"fh{i}", 32) for i in range(n)]
    w = lambda env: {"prev": bytes_env(env, "prev", 32).hex(), "stop": bytes_env(env, "stop", 32).hex(),  # noqa
                     "hashes": [bytes_env(env, f"fh{i}", 32).hex() for i in range(n)]}
    m = cf.CFHeadersMessage(0, stop, prev, list(fhs))
    e = prev
    for fh in fhs:
        e = H256(fh + e)
    check(_beq(m.last_header, e), "last_header is not the fold of hash256(filter_hash || previous_header)", witness=w)
    raw = b"\x00" + stop[::-1] + prev + spec_varint(n)
    for fh in fhs:
        raw = raw + fh
    m2 = cf.CFHeadersMessage.parse(shims.BytesIOShim(raw + b"\x77"))
    ok = (m2.filter_type == 0) and _beq(m2.stop_hash, stop) and _beq(m2.previous_filter_header, prev) and len(m2.filter_hashes) == n
    check(ok and s_and(*[_beq(a, b) for a, b in zip(m2.filter_hashes, fhs)]), "CFHeadersMessage.parse fields", witness=w)
    check(_beq(m2.last_header, e), "parsed message: last_header is not the chained header", witness=w)
    return "ok"


def _filter_hash_path():
    """filter hash = hash256(filter bytes); header = hash256(filter hash || previous header)"""
    cf = _cf()
    a = SI.var("a", 0, 2 * M - 1)
    b = SI.var("b", 0, 2 * M - 1)
    assume(a < b)
    w = lambda env: {"values": [env["a"], env["b"]], "prev": bytes_env(env, "prev", 32).hex(), "block": bytes_env(env, "blk", 32).hex()}  # noqa
    fb = spec_gcs([a, b])
    blk = SBytes.sym("blk", 32)
    prev = SBytes.sym("prev", 32)
    msg = cf.CFilterMessage(0, blk, fb)
    check(_beq(msg.hash(), H256(fb)), "CFilterMessage.hash() is not hash256(filter_bytes)", witness=w)
    check(_beq(msg.cf.key, blk[::-1][:16]), "filter key is not the first 16 bytes of the block hash in wire order", witness=w)
    check(_beq(msg.cf.hash(), H256(fb)), "CompactFilter.hash() is not hash256 of the filter bytes it was parsed from", witness=w)
    hdr = cf.CFHeadersMessage(0, blk, prev, [msg.hash()]).last_header
    check(_beq(hdr, H256(H256(fb) + prev)), "filter header is not hash256(hash256(filter) || previous header)", witness=w)
    wire = b"\x00" + blk[::-1] + spec_varint(len(fb)) + fb
    m2 = cf.CFilterMessage.parse(shims.BytesIOShim(wire))
    check((m2.filter_type == 0) and _beq(m2.block_hash, blk) and _beq(m2.filter_bytes, fb), "CFilterMessage.parse fields", witness=w)
    return "ok"


def ob_headers(maxn):
    runs = [sym_run(lambda: _header_path(n)) for n in range(0, maxn + 1)]
    runs.append(sym_run(_filter_hash_path, timeout_ms=60000, max_violations=4))
    m = merge_runs(runs)
    m["sample"] = {"previous_header": "symbolic 32 bytes", "filter_hashes": f"0..{maxn} symbolic 32-byte hashes",
                   "filter": "two symbolic distinct values, symbolic block hash"}
    return m


def replay_headers(w):
    from buidl import compactfilter as cf
    from buidl.helper import hash256
    from io import BytesIO
    prev = bytes.fromhex(w["prev"])
    if "values" in w:
        fb = bytes(spec_gcs(w["values"]))
        blk = bytes.fromhex(w["block"])
        msg = cf.CFilterMessage(0, blk, fb)
        hdr = cf.CFHeadersMessage(0, blk, prev, [msg.hash()]).last_header
        m2 = cf.CFilterMessage.parse(BytesIO(b"\x00" + blk[::-1] + spec_varint(len(fb)) + fb))
        bad = msg.hash() != H256(fb) or msg.cf.key != blk[::-1][:16] or msg.cf.hash() != H256(fb) or hdr != H256(H256(fb) + prev) or \
            m2.block_hash != blk or m2.filter_bytes != fb
        return {"violated": bad, "observed": f"filter {fb.hex()}: hash {msg.hash().hex()}, cf.hash {msg.cf.hash().hex()}, header {hdr.hex()}"}
    fhs = [bytes.fromhex(x) for x in w["hashes"]]
    stop = bytes.fromhex(w["stop"])
    m = cf.CFHeadersMessage(0, stop, prev, list(fhs))
    e = prev
    for fh in fhs:
        e = H256(fh + e)
    raw = b"\x00" + stop[::-1] + prev + spec_varint(len(fhs)) + b"".join(fhs)
    m2 = cf.CFHeadersMessage.parse(BytesIO(raw))
    bad = m.last_header != e or m2.last_header != e or m2.stop_hash != stop or m2.previous_filter_header != prev or m2.filter_hashes != fhs
    return {"violated": bad, "observed": f"last_header {m.last_header.hex()} vs chained {e.hex()}"}


# ======================================================================================== registry

def obligations(tier):
    q = tier == "quick"
    obs = []
    # O1
    obs.append(Ob("O1-sipround-lemma", ob_sip_lemma, replay="sip_lemma"))
    lens = list(range(0, 18)) if q else list(range(0, 71))
    chunk = 6 if q else 9
    for i in range(0, len(lens), chunk):
        obs.append(Ob("O1-siphash-schedule", ob_sip_schedule, {"lengths": tuple(lens[i:i + chunk])}, replay="sip"))
    # the length byte of the last block wraps at 256: scripts of 255 bytes and more (bare multisig, long tapscripts)
    for big in ((254, 255), (256, 257), (511, 512)) if q else ((254, 255), (256, 257), (300, 511), (512, 513), (600, 767), (768, 1023), (1024, 1025)):
        obs.append(Ob("O1-siphash-schedule", ob_sip_schedule, {"lengths": big}, replay="sip"))
    # O2
    obs.append(Ob("O2-range", ob_range, replay="range"))
    # O3
    step = 16
    for qlo in range(0, 128, step):
        obs.append(Ob("O3-golomb", ob_golomb, {"qlo": qlo, "qhi": qlo + step}, replay="golomb", budget_s=900))
    obs.append(Ob("O3-bits", ob_bits, {"maxbits": 17 if q else 40, "maxbytes": 3 if q else 6}, replay="bits"))
    for sizes in ((3,), (4,)) if q else ((3,), (4,), (5,), (6,)):
        obs.append(Ob("O3-decode-stream", ob_stream, {"sizes": sizes}, replay="stream", budget_s=1500))
    for n in (0, 1, 2, 3):
        # quick: the range a real N-item filter uses, [0, N*M); thorough: [0, 2^22)
        obs.append(Ob("O3-gcs", ob_gcs, {"n": n, "bound": max(n, 1) * M if q else (1 << 22)}, replay="gcs", budget_s=1500))
    # one wide delta: every quotient 0..127 for a one-item filter; for 2 and 3 items the quotients around the powers of two
    # (window / byte boundaries of a unary reader) with the wide delta at every position
    for qlo in (0, 32, 64, 96):
        obs.append(Ob("O3-gcs-wide", ob_gcs, {"n": 1, "bound": 0, "wide": 0, "small": 2, "qlo": qlo, "qhi": qlo + 32}, replay="gcs", budget_s=1500))
    edges = ((7, 10), (15, 18), (31, 34), (63, 66), (126, 128)) if q else ((6, 11), (14, 19), (22, 27), (30, 35), (46, 51), (62, 67), (94, 99), (123, 128))
    for n in (2, 3):
        for wide in range(n):
            for lo, hi in edges:
                obs.append(Ob("O3-gcs-wide", ob_gcs, {"n": n, "bound": 0, "wide": wide, "small": 2, "qlo": lo, "qhi": hi}, replay="gcs", budget_s=1500))
    # O4
    for n, mode in ((0, "exact"), (1, "exact"), (2, "exact"), (2, "range"), (3, "range+codec")):
        obs.append(Ob("O4-no-false-negative", ob_nofn, {"n": n, "mode": mode}, replay="nofn", budget_s=1500))
    # O5
    mlens = list(range(0, 14)) if q else list(range(0, 71))
    chunk = 7 if q else 10
    for i in range(0, len(mlens), chunk):
        obs.append(Ob("O5-murmur3", ob_murmur, {"lengths": tuple(mlens[i:i + chunk])}, replay="murmur"))
    for size in (1, 2, 3, 7, 8, 36000):
        # the function index only enters through the seed and the size only through the modulus: 50 functions for two sizes
        full = size in (2, 36000)
        obs.append(Ob("O5-bloom-index", ob_bloom_index,
                      {"size": size, "fc": 50 if full or not q else 3, "lengths": ((0, 5) if full else (0, 1, 5, 13)) if q else tuple(range(0, 17))},
                      replay="bloom", budget_s=900))
    top = 3 if q else 4
    for size in range(1, top + 1):
        for fc in range(1, top + 1):
            obs.append(Ob("O5-bloom-layout", ob_bloom_layout, {"size": size, "fc": fc}, replay="bloom", budget_s=900))
    # O6
    obs.append(Ob("O6-header-chain", ob_headers, {"maxn": 3 if q else 8}, replay="headers"))
    return obs
