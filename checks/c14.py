"""C14 — BIP39 mnemonics and seed derivation (DESIGN.md section 3, C14).

O1  entropy <-> words.  The real bytes_to_mnemonic / mnemonic_to_bytes / WordList.__getitem__ / normalize /
    __contains__ run on symbolic entropy bytes and symbolic 11-bit word indices.  Strings stay concrete in this engine,
    so the *data* of the word list (WordList.words, WordList.lookup) is replaced by handles: indexing with a symbolic
    index hands out a concrete token ("w7" = the full word of handle 7, "p7" = its first four letters) and the lookup
    maps both tokens back to the symbolic index; " ".join / .split() / .lower() run natively on the tokens.
    sha256 is an uninterpreted function (the same symbol in implementation and specification).
O2  PBKDF2 wiring.  The vendored PBKDF2 class with HMAC as a hash-consed uninterpreted function against RFC 8018,
    helper.hmac_sha512_kdf (2048 rounds, 64 bytes), HDPrivateKey.from_mnemonic and from_seed (the generator point G
    is a stand-in: EC multiplication is not run; the real PrivateKey/HDPrivateKey constructors are).
O3  concrete word-list facts (trusted base of the handle model), reported as non-solver.

Replays use the real word list file, real hashlib/hmac and the native buidl package.
"""
import ast
import hashlib as _hashlib
import hmac as _hmac
import os
import sys

from symx import core, loader, shims
from symx.core import SI, SBytes, check, s_and, s_or, s_not, norm, bytes_env, Out, wrapb, b_cmp, b_and
from vlib.run import Ob, sym_run, merge_runs, conc_run

PROPERTY = "C14"

VALID_WORDS = (12, 15, 18, 21, 24)
VALID_BITS = (128, 160, 192, 224, 256)

META = {
    "bounds": {
        "quick": {"encode": "all byte strings of 16/20/24/28/32 bytes (every byte symbolic)",
                  "decode": "all index sequences of 12/15/18/21/24 words over [0,2048) (every index symbolic), each word given as the full "
                            "word or as its four-letter prefix (patterns: all full, all prefix, alternating)",
                  "lengths": "word counts 0..33 and 48 other than 12/15/18/21/24 (indices symbolic); num_bits in {0,8,64,96,127,129,136,255,"
                             "264,512}; one token outside the list at position 0, 5 or 11 of a 12-word sequence",
                  "secure_mnemonic": "num_bits in the five valid sizes (and five invalid ones), randbits(num_bits) and the microsecond clock "
                                     "symbolic, extra_entropy in {0, 1, 2^num_bits-1, 2^num_bits+5, 2^300+7}",
                  "pbkdf2": "passphrase lengths {1,5,129} (rounds 2,3) and {1, block-1, block, block+1} (rounds 1) x salt lengths {0,8,20}, all bytes symbolic, rounds {1,2,3}, SHA-512 (64-byte "
                            "blocks) and the class default SHA-1 (20-byte blocks), read patterns (64), (20,44,1), (130), (1): 1..4 blocks, "
                            "buffered partial reads",
                  "kdf": "hmac_sha512_kdf (2048 rounds, one 64-byte block): 60 symbolic passphrase bytes with 12 symbolic salt bytes; a 59-"
                         "character str passphrase with 8 symbolic salt bytes",
                  "seed": "from_mnemonic, hmac_sha512_kdf as a seam: 12/15/18/21/24 symbolic words x (forms, password bytes) in {(full,0), "
                          "(alternating,1), (prefix,4), (full,9)}, password bytes symbolic over all 256 values (non-ASCII included); "
                          "from_mnemonic end to end through the 2048-round chain: (12 words, alternating, 4 password bytes) and (24 words, "
                          "full, 9 password bytes); from_seed for seeds of 16/32/64 symbolic bytes"},
        "thorough": {"encode": "same", "decode": "same plus the patterns 'prefix for the last word only' and 'full for the last word only'",
                     "lengths": "word counts 0..64 and 96", "secure_mnemonic": "same",
                     "pbkdf2": "passphrase lengths {0,1,5,64,128,129,200} x salt lengths {0,1,8,20,64}, rounds {1,2,3,4,10}; rounds 2048 for "
                               "passphrase {1,129} x salt {0,8,20}",
                     "kdf": "passphrase {1,5,60,150} (bytes and str) x salt {8,9,12,40}",
                     "seed": "seam: all five word counts x three form patterns x password lengths {0,1,2,4,9,33}; end to end: five word "
                             "counts x {(full,0),(alternating,1),(prefix,9),(full,33)}"}},
    "outside": ["Unicode NFKD normalisation of mnemonic and passphrase (the library does none; passwords are bytes in this API, a str "
                "password raises TypeError at b'mnemonic' + password)",
                "upper-case or otherwise non-list words beyond 'one unknown token is rejected'",
                "bytes_to_mnemonic called with num_bits != 8*len(b) (outside the property's quantifier; the function then encodes the low "
                "bits only)",
                "randomness quality of secure_mnemonic; a symbolic extra_entropy (bin() of it is a string operation) - concrete values only",
                "EC multiplication secret*G in PrivateKey.__init__ (the generator is a stand-in; C03/C12 own the group law and child "
                "derivation); from_mnemonic with a path other than 'm'; xprv() serialisation of the master key (C12)",
                "'accepted exactly when' is decided up to the uninterpreted sha256: the implementation accepts iff the specification's "
                "checksum equation holds for the same hash symbol",
                "from_mnemonic -> master key is shown compositionally: (a) the real chain up to the seed handed to from_seed, (b) with "
                "hmac_sha512_kdf replaced by a recorder returning 64 fresh symbolic bytes, the real from_seed/PrivateKey/HDPrivateKey code "
                "on that output, (c) from_seed alone; the 2048-deep HMAC term is compared by term identity and never sent to z3"],
    "stubs": ["WordList.words / WordList.lookup replaced by handle tables (token <-> symbolic index); the real WordList methods run on them; "
              "the table facts the handles assume are checked concretely in O3",
              "sha256 / HMAC-SHA512 / HMAC-SHA1 as hash-consed uninterpreted functions on symbolic input",
              "secp256k1 generator G replaced by a recorder (secret * G returns an opaque point)",
              "secrets.randbits and time.time return arbitrary symbolic values",
              "pbkdf2.py: `b('').join(blocks)` is routed through the engine's bytes join by a source-level patch (same result on bytes)",
              "hd.hmac_sha512_kdf recorder (seam variant of O2-from-mnemonic only); HDPrivateKey.from_seed recorder (end-to-end variant only)"],
    "assumptions": ["BIP39 bit layout and RFC 8018 section 5.2 as transcribed in checks/c14.py spec_* functions",
                    "BIP32 master key generation: I = HMAC-SHA512(key='Bitcoin seed', data=seed), IL = secret (invalid if 0 or >= n), IR = chain code",
                    "int(time()*1e6) < 2^63 in secure_mnemonic",
                    "a mismatch found on uninterpreted hashes is reported only when it reproduces with the real hashlib (replay)"],
}

MANIFEST = {"technique": "symbolic execution of the real BIP39 / PBKDF2 / HD functions: entropy bytes, word indices (through a handle word "
                         "list), passphrase and salt bytes symbolic; sha256 and HMAC uninterpreted and hash-consed; outputs compared by z3 "
                         "with an independent bit-layout / RFC 8018 specification"}


# ---------------------------------------------------------------------------------------- source-level patch (pbkdf2.py)

class _JoinPatch(ast.NodeTransformer):
    """b("").join(blocks) -> __sx_bjoin__(b(""), blocks): str/bytes methods of a *call result* cannot be shadowed"""

    def visit_Call(self, node):
        self.generic_visit(node)
        f = node.func
        if isinstance(f, ast.Attribute) and f.attr == "join" and isinstance(f.value, ast.Call) and isinstance(f.value.func, ast.Name) \
                and f.value.func.id == "b":
            return ast.copy_location(ast.Call(func=ast.Name(id="__sx_bjoin__", ctx=ast.Load()), args=[f.value] + node.args, keywords=[]), node)
        return node


loader.PATCHES["sbuidl.pbkdf2"] = lambda tree: _JoinPatch().visit(tree)


# ---------------------------------------------------------------------------------------- specification (plain values and proxies)

def spec_bits(bs, nbits=None):
    """bits of a byte sequence, most significant first"""
    out = []
    for b in bs:
        for j in range(8):
            out.append((b >> (7 - j)) & 1)
    return out if nbits is None else out[:nbits]


def _pack(bits):
    v = 0
    for b in bits:
        v = v * 2 + b
    return v


def spec_indices(ent, sha):
    """BIP39: ENT entropy bits || first ENT/32 bits of sha256(entropy), cut into 11-bit groups"""
    n = 8 * len(ent)
    cs = n // 32
    bits = spec_bits(ent) + spec_bits([sha(ent)[0]], cs)
    return [_pack(bits[k:k + 11]) for k in range(0, len(bits), 11)]


def spec_decode(indices, sha):
    """-> (entropy bytes (list of byte values), checksum_ok)"""
    bits = []
    for i in indices:
        for j in range(11):
            bits.append((i >> (10 - j)) & 1)
    total = len(bits)
    cs = total // 33
    n = total - cs
    ent = [_pack(bits[k:k + 8]) for k in range(0, n, 8)]
    if any(isinstance(x, SI) for x in ent):
        entb = norm(SBytes(ent))
    else:
        entb = bytes(ent)
    want = spec_bits([sha(entb)[0]], cs)
    conds = [bits[n + k] == want[k] for k in range(cs)]
    return entb, s_and(*conds)


def bxor(a, b):
    items = [x ^ y for x, y in zip(a, b)]
    if all(isinstance(i, int) for i in items):
        return bytes(items)
    return norm(SBytes(items))


def spec_pbkdf2(prf, hlen, P, S, c, dklen):
    """RFC 8018 5.2: DK = T_1 || T_2 || ... truncated; T_i = U_1 xor ... xor U_c; U_1 = PRF(P, S || INT(i)); U_j = PRF(P, U_{j-1})"""
    out = b""
    nblocks = -(-dklen // hlen)
    for i in range(1, nblocks + 1):
        U = prf(P, S + i.to_bytes(4, "big"))
        T = U
        for _ in range(c - 1):
            U = prf(P, U)
            T = bxor(T, U)
        out = out + T
    return out[:dklen]


def _sym_sha(b):
    return shims._H("sha256", b).digest()


def _real_sha(b):
    return _hashlib.sha256(bytes(b)).digest()


def _sym_prf(algo):
    return lambda k, m: shims._HMAC(k, m, algo).digest()


SECP_N = 0xFFFFFFFFFFFFFFFFFFFFFFFFFFFFFFFEBAAEDCE6AF48A03BBFD25E8CD0364141


# ---------------------------------------------------------------------------------------- handle word list

class Handles:
    """token <-> (symbolic) index.  'w<j>' is the full word of handle j, 'p<j>' its four-letter prefix form.
    Handles are hash-consed on the index expression, so BIP39[BIP39[tok]] of a full-word token is that token."""

    def __init__(self):
        self.by_key = {}
        self.index = {}
        self.kind = {}
        self.n = 0

    def _h(self, idx):
        key = ("n", idx.n.id) if isinstance(idx, SI) else ("c", int(idx))
        j = self.by_key.get(key)
        if j is None:
            j = self.by_key[key] = self.n
            self.n += 1
            for pre, kind in (("w", "full"), ("p", "prefix")):
                self.index[f"{pre}{j}"] = idx
                self.kind[f"{pre}{j}"] = kind
        return j

    def word(self, idx):
        return f"w{self._h(idx)}"

    def prefix(self, idx):
        return f"p{self._h(idx)}"

    def token(self, idx, form):
        return self.word(idx) if form == "full" else self.prefix(idx)


class _Words:
    """stands for WordList.words (a list of 2048 strings)"""

    def __init__(self, hs):
        self.hs = hs

    def __getitem__(self, k):
        if k < 0:
            k = k + 2048
        if k < 0 or k >= 2048:
            raise IndexError("list index out of range")
        return self.hs.word(k)

    def __contains__(self, tok):
        return self.hs.kind.get(tok) == "full"

    def __len__(self):
        return 2048

    def __iter__(self):
        raise core.Unsupported("iteration over the handle word list")


class _Lookup:
    """stands for WordList.lookup (dict word / 4-letter prefix -> index)"""

    def __init__(self, hs):
        self.hs = hs

    def __getitem__(self, tok):
        if tok not in self.hs.index:
            raise KeyError(tok)
        return self.hs.index[tok]

    def __contains__(self, tok):
        return tok in self.hs.index

    def get(self, tok, default=None):
        return self.hs.index.get(tok, default)


_ORIG = {}


def _mods():
    mn = loader.load("mnemonic")
    hd = loader.load("hd")
    if "obj" not in _ORIG:
        _ORIG["obj"] = mn.BIP39
    return mn, hd


def install_handles():
    """a real WordList object (real methods) over handle tables, installed where the code under test looks BIP39 up"""
    mn, hd = _mods()
    hs = Handles()
    wl = object.__new__(mn.WordList)
    wl.words = _Words(hs)
    wl.lookup = _Lookup(hs)
    mn.BIP39 = wl
    hd.BIP39 = wl
    return hs, mn, hd


FORM_PATTERNS = {
    "full": lambda k, n: "full",
    "prefix": lambda k, n: "prefix",
    "alternating": lambda k, n: "prefix" if k % 2 else "full",
    "last-prefix": lambda k, n: "prefix" if k == n - 1 else "full",
    "last-full": lambda k, n: "full" if k == n - 1 else "prefix",
}


def _forms(pattern, n):
    return [FORM_PATTERNS[pattern](k, n) for k in range(n)]


# ---------------------------------------------------------------------------------------- replay helpers (real data)

def _real_words():
    repo = os.environ.get("VERIF_REPO", "/repo")
    with open(os.path.join(repo, "buidl", "bip39_words.txt")) as f:
        return f.read().split()


def _real_mnemonic(indices, forms, words=None):
    words = words or _real_words()
    out = []
    for i, f in zip(indices, forms):
        if f == "unknown":
            out.append("zzzzzz")
        else:
            out.append(words[i] if f == "full" else words[i][:4])
    return " ".join(out)


def _with_checksum(indices, cs_value):
    """the index sequence with its checksum bits replaced"""
    nw = len(indices)
    cs = nw // 3
    out = list(indices)
    out[-1] = (out[-1] & ~((1 << cs) - 1) & 0x7FF) | (cs_value & ((1 << cs) - 1))
    return out


def _valid_indices(indices):
    """repair the checksum bits with the real sha256"""
    nw = len(indices)
    cs = nw // 3
    ent, _ = spec_decode(indices, _real_sha)
    return _with_checksum(indices, _real_sha(ent)[0] >> (8 - cs))


# ---------------------------------------------------------------------------------------- O1 encode

def _encode_path(nb):
    hs, mn, hd = install_handles()
    e = SBytes.sym("e", nb)
    wit = lambda env: {"entropy": bytes_env(env, "e", nb).hex()}  # noqa
    try:
        m = mn.bytes_to_mnemonic(e, 8 * nb)
    except Exception as ex:
        check(False, f"bytes_to_mnemonic raised {type(ex).__name__} on {8 * nb} bits of entropy", witness=wit)
        return Out("error", "error")
    toks = m.split(" ")
    check(all(hs.kind.get(t) == "full" for t in toks), "bytes_to_mnemonic emits a token that is not a full list word", witness=wit)
    got = [hs.index.get(t, -1) for t in toks]
    want = spec_indices(e, _sym_sha)
    check(len(got) == len(want), f"{8 * nb} bits of entropy give {len(got)} words, BIP39 says {len(want)}", witness=wit)
    check(s_and(*[a == b for a, b in zip(got, want)]), "word indices differ from the BIP39 layout entropy || checksum, 11 bits per word",
          witness=wit)
    try:
        back = mn.mnemonic_to_bytes(m)
    except Exception as ex:
        check(False, f"mnemonic_to_bytes(bytes_to_mnemonic(e)) raised {type(ex).__name__}", witness=wit)
        return Out("error", "error")
    check((len(back) == nb) and (back == e), "mnemonic_to_bytes(bytes_to_mnemonic(e)) != e", witness=wit)
    # the prefix form of the same words decodes to the same bytes
    m4 = " ".join(hs.prefix(i) for i in got)
    try:
        back4 = mn.mnemonic_to_bytes(m4)
    except Exception as ex:
        check(False, f"the four-letter-prefix form of a generated mnemonic is rejected ({type(ex).__name__})", witness=wit)
        return Out("error", "error")
    check((len(back4) == nb) and (back4 == e), "the four-letter-prefix form decodes to different bytes", witness=wit)
    return Out("ok", list(got))


def ob_encode(nbs):
    words = _real_words()
    nat = loader.native("mnemonic")
    runs = []
    for nb in nbs:
        def native(env):
            return [words.index(w) for w in nat.bytes_to_mnemonic(bytes_env(env, "e", nb), 8 * nb).split()]
        runs.append(sym_run(lambda: _encode_path(nb), expect_classes=["ok"],
                            gen_env=lambda rng: {f"e[{i}]": rng.choice([0, 255, rng.randrange(256)]) for i in range(nb)}, native=native, n_val=12))
    m = merge_runs(runs)
    m["sample"] = {"entropy": f"symbolic bytes, length in {list(nbs)}", "words": [3 * nb * 8 // 32 for nb in nbs]}
    return m


def replay_encode(w):
    from buidl import mnemonic
    e = bytes.fromhex(w["entropy"])
    words = _real_words()
    want = [words[i] for i in spec_indices(e, _real_sha)]
    try:
        m = mnemonic.bytes_to_mnemonic(e, 8 * len(e))
    except Exception as ex:
        return {"violated": True, "observed": f"bytes_to_mnemonic({e.hex()}, {8 * len(e)}) raised {ex!r}"}
    if m.split(" ") != want or m != " ".join(want):
        return {"violated": True, "observed": f"bytes_to_mnemonic({e.hex()}) = {m!r} ({len(m.split())} words); BIP39: {' '.join(want)!r}"}
    for form, text in (("full", m), ("prefix", " ".join(x[:4] for x in want))):
        try:
            back = mnemonic.mnemonic_to_bytes(text)
        except Exception as ex:
            return {"violated": True, "observed": f"mnemonic_to_bytes({text!r}) raised {ex!r}"}
        if back != e:
            return {"violated": True, "observed": f"mnemonic_to_bytes({text!r}) = {back.hex()} != {e.hex()}"}
    return {"violated": False, "observed": "agrees"}


# ---------------------------------------------------------------------------------------- O1 decode

def _decode_path(nw, pattern):
    hs, mn, hd = install_handles()
    idx = [SI.var(f"w[{k}]", 0, 2047) for k in range(nw)]
    forms = _forms(pattern, nw)
    wit = lambda env: {"indices": [env[f"w[{k}]"] for k in range(nw)], "forms": forms}  # noqa
    text = " ".join(hs.token(i, f) for i, f in zip(idx, forms))
    ent, ok = spec_decode(idx, _sym_sha)
    try:
        s = mn.mnemonic_to_bytes(text)
    except mn.InvalidChecksumWordsError:
        check(s_not(ok), "a sequence of valid length whose checksum bits match sha256(entropy) is rejected", witness=wit)
        return Out("bad-checksum", "bad-checksum")
    except Exception as ex:
        check(False, f"mnemonic_to_bytes raised {type(ex).__name__} on a {nw}-word sequence of list words", witness=wit)
        return Out("error", "error")
    check(ok, "a sequence whose checksum bits do not match sha256(entropy) is accepted", witness=wit)
    check((len(s) == len(ent)) and (s == ent), "decoded bytes are not the entropy bits of the words", witness=wit)
    # WordList: `in` holds for full words only; normalize maps either form to the full word
    wl = mn.BIP39
    for k in (0, nw - 1):
        t = hs.token(idx[k], forms[k])
        check(wl.normalize(t) == hs.word(idx[k]), "normalize does not return the full word of the same index", witness=wit)
        check((t in wl) == (forms[k] == "full"), "`in` on the word list", witness=wit)
    return Out("accepted", s)


def _gen_decode_env(nw):
    def gen(rng):
        idx = [rng.randrange(2048) for _ in range(nw)]
        if rng.random() < 0.6:
            idx = _valid_indices(idx)
        return {f"w[{k}]": idx[k] for k in range(nw)}
    return gen


def ob_decode(nw, patterns):
    nat = loader.native("mnemonic")
    words = _real_words()
    runs = []
    for pattern in patterns:
        forms = _forms(pattern, nw)

        def native(env):
            try:
                return nat.mnemonic_to_bytes(_real_mnemonic([env[f"w[{k}]"] for k in range(nw)], forms, words))
            except nat.InvalidChecksumWordsError:
                return "bad-checksum"
        runs.append(sym_run(lambda: _decode_path(nw, pattern), expect_classes=["accepted", "bad-checksum"], gen_env=_gen_decode_env(nw),
                            native=native, n_val=12))
    m = merge_runs(runs)
    m["sample"] = {"words": nw, "indices": "all symbolic in [0,2048)", "forms": list(patterns)}
    return m


def _decode_judge(mnemonic, indices, forms, words):
    """(disagrees, text) for one concrete sequence"""
    text = _real_mnemonic(indices, forms, words)
    valid_len = len(indices) in VALID_WORDS
    known = all(f != "unknown" for f in forms)
    want = None
    if valid_len and known:
        ent, ok = spec_decode(indices, _real_sha)
        want = bytes(ent) if ok else None
    try:
        got = mnemonic.mnemonic_to_bytes(text)
        exc = None
    except Exception as ex:
        got, exc = None, ex
    if want is None:
        return (got is not None), f"mnemonic_to_bytes({text!r}) = {got.hex() if got is not None else repr(exc)}; must be rejected"
    return (got != want), f"mnemonic_to_bytes({text!r}) = {got.hex() if got is not None else repr(exc)}; BIP39: {want.hex()}"


def replay_decode(w):
    """the solver's checksum bits refer to the uninterpreted sha256: the witness is tried as is, then with every value of the
    checksum bits of its last word (same entropy part, real sha256)"""
    from buidl import mnemonic
    words = _real_words()
    indices, forms = list(w["indices"]), list(w["forms"])
    cands = [indices]
    if len(indices) in VALID_WORDS:
        cands += [_with_checksum(indices, v) for v in range(1 << (len(indices) // 3))]
    for c in cands:
        bad, text = _decode_judge(mnemonic, c, forms, words)
        if bad:
            return {"violated": True, "observed": text}
    return {"violated": False, "observed": f"agrees on {len(cands)} checksum variants of the witness"}


# ---------------------------------------------------------------------------------------- O1 invalid lengths / unknown words

def _length_path(nw):
    hs, mn, hd = install_handles()
    idx = [SI.var(f"w[{k}]", 0, 2047) for k in range(nw)]
    forms = ["full"] * nw
    text = " ".join(hs.token(i, f) for i, f in zip(idx, forms))
    try:
        mn.mnemonic_to_bytes(text)
    except Exception as ex:
        check(True, "rejected")
        return type(ex).__name__
    check(False, f"a sequence of {nw} words is accepted", witness=lambda env: {"indices": [env[f"w[{k}]"] for k in range(nw)], "forms": forms})
    return "accepted"


def _unknown_word_path(pos):
    hs, mn, hd = install_handles()
    nw = 12
    idx = [SI.var(f"w[{k}]", 0, 2047) for k in range(nw)]
    forms = ["unknown" if k == pos else "full" for k in range(nw)]
    toks = ["zzzzzz" if f == "unknown" else hs.token(i, f) for i, f in zip(idx, forms)]
    try:
        mn.mnemonic_to_bytes(" ".join(toks))
    except Exception as ex:
        check(True, "rejected")
        return type(ex).__name__
    check(False, "a sequence containing a word outside the list is accepted",
          witness=lambda env: {"indices": [env[f"w[{k}]"] for k in range(nw)], "forms": forms})
    return "accepted"


def _numbits_path(num_bits):
    hs, mn, hd = install_handles()
    nb = max(num_bits // 8, 1)
    e = SBytes.sym("e", nb)
    try:
        mn.bytes_to_mnemonic(e, num_bits)
    except mn.InvalidBIP39Length:
        check(True, "rejected")
        return "InvalidBIP39Length"
    check(False, f"bytes_to_mnemonic accepts num_bits={num_bits}", witness=lambda env: {"indices": [], "forms": [], "num_bits": num_bits})
    return "accepted"


def ob_lengths(counts, num_bits):
    runs = [sym_run(lambda: _length_path(nw), expect_classes=["InvalidBIP39Length"]) for nw in counts]
    runs += [sym_run(lambda: _unknown_word_path(pos), expect_classes=["KeyError"]) for pos in (0, 5, 11)]
    runs += [sym_run(lambda: _numbits_path(nbits), expect_classes=["InvalidBIP39Length"]) for nbits in num_bits]
    m = merge_runs(runs)
    m["sample"] = {"word_counts": list(counts)[:12], "num_bits": list(num_bits), "unknown_word_positions": [0, 5, 11]}
    return m


def replay_lengths(w):
    from buidl import mnemonic
    if w.get("num_bits") is not None:
        nbits = w["num_bits"]
        try:
            m = mnemonic.bytes_to_mnemonic(bytes(max(nbits // 8, 1)), nbits)
        except mnemonic.InvalidBIP39Length:
            return {"violated": False, "observed": "rejected"}
        return {"violated": nbits not in VALID_BITS, "observed": f"bytes_to_mnemonic(.., {nbits}) = {m!r}"}
    bad, text = _decode_judge(mnemonic, w["indices"], w["forms"], _real_words())
    return {"violated": bad, "observed": text}


# ---------------------------------------------------------------------------------------- O1 secure_mnemonic self-check wiring

class _Clock:
    """time() whose product with 1_000_000, truncated, is an arbitrary integer"""

    def __init__(self, us):
        self.us = us

    def __mul__(self, k):
        assert k == 1_000_000
        return self.us

    __rmul__ = __mul__


def _secure_path(num_bits, extra):
    hs, mn, hd = install_handles()
    rnd = SI.var("rnd", 0, (1 << num_bits) - 1)
    us = SI.var("time_us", 0, (1 << 63) - 1)
    shims.set_env(randbits=lambda k: rnd if k == num_bits else SI.var(f"rnd{k}", 0, (1 << k) - 1), time=lambda: _Clock(us))
    wit = lambda env: {"num_bits": num_bits, "extra": str(extra), "rnd": str(env["rnd"]), "time_us": env["time_us"]}  # noqa
    try:
        m = mn.secure_mnemonic(num_bits, extra)
    except Exception as ex:
        check(False, f"secure_mnemonic raised {type(ex).__name__}", witness=wit)
        return "error"
    toks = m.split()
    check(len(toks) == 3 * num_bits // 32, "secure_mnemonic word count", witness=wit)
    idx = [hs.index.get(t, -1) for t in toks]
    ent, ok = spec_decode(idx, _sym_sha)
    check(ok, "secure_mnemonic returns a mnemonic with a wrong checksum", witness=wit)
    want = (rnd ^ (extra % (1 << num_bits)) ^ us).to_bytes(num_bits // 8, "big")
    check((len(ent) == len(want)) and (ent == want), "secure_mnemonic does not encode randbits ^ extra_entropy ^ clock", witness=wit)
    return "ok"


def _secure_invalid_path(num_bits):
    hs, mn, hd = install_handles()
    shims.set_env(randbits=lambda k: SI.var("rnd", 0, (1 << max(k, 1)) - 1), time=lambda: _Clock(SI.var("time_us", 0, (1 << 63) - 1)))
    try:
        mn.secure_mnemonic(num_bits)
    except ValueError:
        check(True, "rejected")
        return "ValueError"
    check(False, f"secure_mnemonic accepts num_bits={num_bits}",
          witness=lambda env: {"num_bits": num_bits, "extra": "0", "rnd": "1", "time_us": 0})
    return "accepted"


def ob_secure(num_bits):
    extras = [0, 1, (1 << num_bits) - 1, (1 << num_bits) + 5, (1 << 300) + 7]
    runs = [sym_run(lambda: _secure_path(num_bits, x), expect_classes=["ok"]) for x in extras]
    if num_bits == 128:
        runs += [sym_run(lambda: _secure_invalid_path(nb), expect_classes=["ValueError"]) for nb in (0, 64, 127, 129, 512)]
    m = merge_runs(runs)
    m["sample"] = {"num_bits": num_bits, "randbits": "symbolic", "clock": "symbolic", "extra_entropy": [str(x)[:20] for x in extras]}
    return m


def replay_secure(w):
    from buidl import mnemonic
    nb, extra, rnd, us = w["num_bits"], int(w["extra"]), int(w["rnd"]), int(w["time_us"])
    o_r, o_t = mnemonic.randbits, mnemonic.time
    mnemonic.randbits = lambda k: rnd
    mnemonic.time = lambda: _Clock(us)
    try:
        try:
            m = mnemonic.secure_mnemonic(nb, extra)
        except Exception as ex:
            return {"violated": nb in VALID_BITS, "observed": f"secure_mnemonic({nb}, {extra}) raised {ex!r}"}
    finally:
        mnemonic.randbits, mnemonic.time = o_r, o_t
    if nb not in VALID_BITS:
        return {"violated": True, "observed": f"secure_mnemonic({nb}) returned {m!r}"}
    words = _real_words()
    e = (rnd ^ (extra % (1 << nb)) ^ us).to_bytes(nb // 8, "big")
    want = " ".join(words[i] for i in spec_indices(e, _real_sha))
    return {"violated": m != want, "observed": f"secure_mnemonic -> {m!r}; expected the encoding of {e.hex()}: {want!r}"}


# ---------------------------------------------------------------------------------------- O2 PBKDF2 vs RFC 8018

HLEN = {"sha512": 64, "sha1": 20}


def _localise(a, b, c, label, wit):
    """the implementation made the PRF calls HASH_CALLS[a:b], the specification HASH_CALLS[b:c].  When the outputs are not
    identical terms, a small query on the first differing call yields a witness without sending the whole chain to z3.
    Returns True when a violation candidate was recorded (the replay on real hashes decides whether it is genuine)."""
    sys.setrecursionlimit(max(sys.getrecursionlimit(), 60000))  # the arguments of a late call are deep terms
    impl = shims.HASH_CALLS[a:b]
    spec = shims.HASH_CALLS[b:c]
    for j in range(max(len(impl), len(spec))):
        if j >= len(impl) or j >= len(spec):
            return not check(False, f"{label}: the implementation makes {len(impl)} PRF calls, RFC 8018 needs {len(spec)}", witness=wit)
        (fa, na), (fb, nb) = impl[j], spec[j]
        if na is nb:
            continue
        if fa != fb:
            return not check(False, f"{label}: PRF call #{j + 1} has argument lengths {fa}, RFC 8018: {fb}", witness=wit)
        same = b_and(*[b_cmp("eq", x, y) for x, y in zip(na.args[3:], nb.args[3:])])
        if not check(wrapb(same), f"{label}: key/message of PRF call #{j + 1} differ from RFC 8018", witness=wit):
            return True
    return False


def _sym_or_empty(name, n):
    return SBytes.sym(name, n) if n else b""


def _pbkdf2_path(algo, lp, ls, rounds, reads):
    pb = loader.load("pbkdf2")
    P = _sym_or_empty("P", lp)
    S = _sym_or_empty("S", ls)
    wit = lambda env: {"algo": algo, "P": bytes_env(env, "P", lp).hex(), "S": bytes_env(env, "S", ls).hex(), "rounds": rounds,  # noqa
                       "reads": list(reads)}
    hl = shims.SHIM_MODULES["hashlib"]
    kw = {} if algo == "sha1" else {"digestmodule": getattr(hl, algo), "macmodule": shims.SHIM_MODULES["hmac"]}
    a = len(shims.HASH_CALLS)
    try:
        k = pb.PBKDF2(P, S, iterations=rounds, **kw)
        pieces = [k.read(n) for n in reads]
    except Exception as ex:
        check(False, f"PBKDF2(...).read raised {type(ex).__name__}", witness=wit)
        return Out("error", "error")
    b = len(shims.HASH_CALLS)
    total = sum(reads)
    want = spec_pbkdf2(_sym_prf(algo), HLEN[algo], P, S, rounds, total)
    c = len(shims.HASH_CALLS)
    got = b""
    for p in pieces:
        got = got + p
    got = norm(got)
    okl = all(len(p) == n for p, n in zip(pieces, reads))
    check(okl, "read(n) returns a different number of bytes", witness=wit)
    eq = (len(got) == len(want)) and (got == want)
    if eq is not True and _localise(a, b, c, "PBKDF2", wit):
        return Out("diff", "diff")
    check(eq, f"PBKDF2-HMAC-{algo} output differs from RFC 8018 (rounds={rounds}, reads={list(reads)})", witness=wit,
          timeout_ms=60000 if rounds <= 10 else 20000)
    return Out("ok", got)


def ob_pbkdf2(algo, rounds, lps, lss, readsets):
    nat = loader.native("pbkdf2")
    runs = []
    for lp in lps:
        for ls in lss:
            for reads in readsets:
                def native(env):
                    P, S = bytes_env(env, "P", lp), bytes_env(env, "S", ls)
                    kw = {} if algo == "sha1" else {"digestmodule": getattr(_hashlib, algo), "macmodule": _hmac}
                    k = nat.PBKDF2(P, S, iterations=rounds, **kw)
                    return b"".join(k.read(n) for n in reads)

                def gen(rng):
                    env = {f"P[{i}]": rng.randrange(256) for i in range(lp)}
                    env.update({f"S[{i}]": rng.randrange(256) for i in range(ls)})
                    return env
                light = rounds <= 10
                runs.append(sym_run(lambda: _pbkdf2_path(algo, lp, ls, rounds, reads), expect_classes=["ok"], gen_env=gen if light else None,
                                    native=native if light else None, n_val=3, timeout_ms=60000, max_violations=4, max_paths=400))
    m = merge_runs(runs)
    m["sample"] = {"algo": algo, "rounds": rounds, "passphrase_lengths": list(lps), "salt_lengths": list(lss), "reads": [list(r) for r in readsets]}
    return m


def replay_pbkdf2(w):
    from buidl import pbkdf2
    P, S, c, reads, algo = bytes.fromhex(w["P"]), bytes.fromhex(w["S"]), w["rounds"], w["reads"], w["algo"]
    kw = {} if algo == "sha1" else {"digestmodule": getattr(_hashlib, algo), "macmodule": _hmac}
    try:
        k = pbkdf2.PBKDF2(P, S, iterations=c, **kw)
        got = b"".join(k.read(n) for n in reads)
    except Exception as ex:
        return {"violated": True, "observed": f"PBKDF2({P.hex()}, {S.hex()}, {c}).read{reads} raised {ex!r}"}
    want = _hashlib.pbkdf2_hmac(algo, P, S, c, sum(reads))
    if got == want and (P or S):
        # the model's HMAC values are uninterpreted; witness classes that depend on hash *values* (a block T_i that starts with zero
        # bytes) are rebuilt with the real HMAC by stepping the passphrase (or the salt): about 256 trials per hit
        hlen = getattr(_hashlib, algo)().digest_size
        total = max(sum(reads), 2 * hlen)
        hits = 0
        for ctr in range(6000):
            cb = ctr.to_bytes(4, "big")
            P2, S2 = (cb[-len(P):].rjust(len(P), b"\x01"), S) if P else (P, cb[-len(S):].rjust(len(S), b"\x01"))
            ref = _hashlib.pbkdf2_hmac(algo, P2, S2, c, total)
            if not any(ref[i] == 0 for i in range(0, total, hlen)):
                continue
            hits += 1
            try:
                g2 = pbkdf2.PBKDF2(P2, S2, iterations=c, **kw).read(total)
            except Exception as ex:
                return {"violated": True, "observed": f"PBKDF2({P2.hex()}, {S2.hex()}, {c}).read({total}) raised {ex!r}"}
            if g2 != ref:
                return {"violated": True, "observed": f"PBKDF2-HMAC-{algo}(P={P2.hex()}, S={S2.hex()}, c={c}), a block starts with a zero byte: vendored "
                                                      f"{g2.hex()[:40]}.. hashlib.pbkdf2_hmac {ref.hex()[:40]}.."}
            if hits >= 4:
                break
    return {"violated": got != want, "observed": f"PBKDF2-HMAC-{algo}(P={P.hex()}, S={S.hex()}, c={c}) reads {reads}: vendored {got.hex()[:48]}.. "
                                                 f"hashlib.pbkdf2_hmac {want.hex()[:48]}.."}


# ---- helper.hmac_sha512_kdf: 2048 rounds, 64 bytes, SHA-512

def _kdf_path(lp, ls, as_str):
    hp = loader.load("helper")
    if as_str:
        msg = "w0 p1 w2 " * (lp // 9) + "x" * (lp % 9)
        P = msg.encode("utf-8")
    else:
        msg = P = SBytes.sym("P", lp)
    S = SBytes.sym("S", ls)
    wit = lambda env: {"algo": "sha512", "P": (P if as_str else bytes_env(env, "P", lp)).hex(), "S": bytes_env(env, "S", ls).hex(),  # noqa
                       "rounds": 2048, "reads": [64], "kdf": True, "as_str": as_str}
    a = len(shims.HASH_CALLS)
    try:
        got = hp.hmac_sha512_kdf(msg, S)
    except Exception as ex:
        check(False, f"hmac_sha512_kdf raised {type(ex).__name__}", witness=wit)
        return "error"
    b = len(shims.HASH_CALLS)
    want = spec_pbkdf2(_sym_prf("sha512"), 64, P, S, 2048, 64)
    c = len(shims.HASH_CALLS)
    eq = (len(got) == len(want)) and (got == want)
    if eq is not True and _localise(a, b, c, "hmac_sha512_kdf", wit):
        return "diff"
    check(eq, "hmac_sha512_kdf is not PBKDF2-HMAC-SHA512 with 2048 rounds and 64 bytes", witness=wit)
    return "ok"


def ob_kdf(cases):
    runs = [sym_run(lambda: _kdf_path(lp, ls, as_str), expect_classes=["ok"], timeout_ms=30000) for (lp, ls, as_str) in cases]
    m = merge_runs(runs)
    m["sample"] = {"cases (passphrase bytes, salt bytes, passphrase given as str)": [list(c) for c in cases], "rounds": 2048,
                   "note": "a str passphrase goes through the UTF-8 seam of PBKDF2._setup"}
    return m


def replay_kdf(w):
    from buidl import helper
    P, S = bytes.fromhex(w["P"]), bytes.fromhex(w["S"])
    got = helper.hmac_sha512_kdf(P.decode("utf-8") if w.get("as_str") else P, S)
    want = _hashlib.pbkdf2_hmac("sha512", P, S, 2048, 64)
    return {"violated": got != want, "observed": f"hmac_sha512_kdf(P={P.hex()}, S={S.hex()}) = {got.hex()[:48]}.. hashlib {want.hex()[:48]}.."}


# ---------------------------------------------------------------------------------------- O2 from_mnemonic / from_seed

class _OpaquePoint:
    def __init__(self, scalar):
        self.scalar = scalar


class _G:
    """stand-in for the secp256k1 generator: records the scalar, no EC arithmetic"""

    def __rmul__(self, k):
        return _OpaquePoint(k)


def _stub_generator(hd):
    mod = sys.modules[hd.PrivateKey.__module__]
    mod.G = _G()
    return mod


def _master_checks(key, seed, wit, what):
    """BIP32 master key generation from `seed` (bytes or SBytes)"""
    I = shims._HMAC(b"Bitcoin seed", seed, "sha512").digest()  # noqa: E741
    IL = int_from(I[:32])
    sec = key.private_key.secret
    check(sec == IL, f"{what}: master secret is not the left half of HMAC-SHA512(key='Bitcoin seed', data=seed)", witness=wit)
    cc = key.chain_code
    check((len(cc) == 32) and (cc == I[32:]), f"{what}: chain code is not the right half of HMAC-SHA512('Bitcoin seed', seed)", witness=wit)
    pt = key.private_key.point
    check(s_and(isinstance(pt, _OpaquePoint), key.pub.point is pt, getattr(pt, "scalar", None) == sec), f"{what}: public point is not secret*G",
          witness=wit)
    meta = key.depth == 0 and key.parent_fingerprint == b"\x00\x00\x00\x00" and key.child_number == 0 and key.pub.depth == 0 and \
        key.network == "mainnet" and key.pub.chain_code is key.chain_code
    check(meta, f"{what}: master key metadata (depth 0, zero fingerprint, child number 0)", witness=wit)


def int_from(b):
    return core.int_from_bytes(b, "big")


def _invalid_master_checks(seed, exc, wit, what):
    I = shims._HMAC(b"Bitcoin seed", seed, "sha512").digest()  # noqa: E741
    IL = int_from(I[:32])
    check(s_or(IL == 0, IL >= SECP_N), f"{what}: raised {exc} although the left half is a valid secret", witness=wit)


def _from_seed_path(n):
    hs, mn, hd = install_handles()
    _stub_generator(hd)
    seed = SBytes.sym("seed", n)
    wit = lambda env: {"seed": bytes_env(env, "seed", n).hex()}  # noqa
    try:
        key = hd.HDPrivateKey.from_seed(seed)
    except RuntimeError as ex:
        _invalid_master_checks(seed, repr(ex), wit, "from_seed")
        return "invalid-master:" + str(ex)
    except Exception as ex:
        check(False, f"from_seed raised {type(ex).__name__}", witness=wit)
        return "error"
    _master_checks(key, seed, wit, "from_seed")
    return "ok"


def ob_from_seed(lengths):
    runs = [sym_run(lambda: _from_seed_path(n), expect_classes=["ok"]) for n in lengths]
    m = merge_runs(runs)
    m["sample"] = {"seed": f"symbolic bytes, length in {list(lengths)}", "G": "stand-in"}
    return m


def replay_from_seed(w):
    from buidl import hd
    seed = bytes.fromhex(w["seed"])
    I = _hmac.new(b"Bitcoin seed", seed, "sha512").digest()  # noqa: E741
    IL = int.from_bytes(I[:32], "big")
    try:
        key = hd.HDPrivateKey.from_seed(seed)
    except Exception as ex:
        return {"violated": 0 < IL < SECP_N, "observed": f"from_seed({seed.hex()}) raised {ex!r}"}
    bad = key.private_key.secret != IL or key.chain_code != I[32:] or key.depth != 0 or key.child_number != 0 or \
        key.parent_fingerprint != b"\x00" * 4
    return {"violated": bad, "observed": f"from_seed({seed.hex()}): secret {key.private_key.secret:x}, chain code {key.chain_code.hex()}; "
                                         f"BIP32: {I.hex()}"}


class _SeamSeed:
    """what from_mnemonic handed to from_seed (end-to-end variant: from_seed itself is not run there)"""

    def __init__(self, seed, kw):
        self.seed = seed
        self.kw = kw
        self.path = None

    def traverse(self, path):
        self.path = path
        return self


def _seed_path(nw, pattern, lpw, e2e):
    """e2e=True : the real from_mnemonic -> hmac_sha512_kdf -> PBKDF2 (2048 x HMAC as uninterpreted function) chain, stopped at the seed
                  handed to from_seed (the 2048-deep term never reaches z3: equality with the RFC 8018 chain is term identity).
       e2e=False: hmac_sha512_kdf is a seam (arguments recorded, output 64 fresh symbolic bytes; the function itself is O2-kdf's subject)
                  and the real from_seed / PrivateKey / HDPrivateKey constructors run on that output."""
    sys.setrecursionlimit(max(sys.getrecursionlimit(), 60000))
    hs, mn, hd = install_handles()
    hp = loader.load("helper")
    _stub_generator(hd)
    idx = [SI.var(f"w[{k}]", 0, 2047) for k in range(nw)]
    forms = _forms(pattern, nw)
    pw = _sym_or_empty("pw", lpw)
    wit = lambda env: {"indices": [env[f"w[{k}]"] for k in range(nw)], "forms": forms, "password": bytes_env(env, "pw", lpw).hex()}  # noqa
    text = " ".join(hs.token(i, f) for i, f in zip(idx, forms))
    ent, ok = spec_decode(idx, _sym_sha)
    seam = {}

    class Probe(hd.HDPrivateKey):
        if e2e:
            @classmethod
            def from_seed(cls, seed, **kw):
                seam["from_seed"] = _SeamSeed(seed, kw)
                return seam["from_seed"]

    def kdf(msg, salt):
        seam["kdf"] = (msg, salt)
        seam["kdf_out"] = SBytes.sym("kdf_out", 64)
        return seam["kdf_out"]

    if "orig_kdf" not in _ORIG:
        _ORIG["orig_kdf"] = hd.hmac_sha512_kdf
    check(_ORIG["orig_kdf"] is hp.hmac_sha512_kdf, "hd.hmac_sha512_kdf is not helper.hmac_sha512_kdf")
    hd.hmac_sha512_kdf = _ORIG["orig_kdf"] if e2e else kdf
    a = len(shims.HASH_CALLS)
    try:
        if lpw:
            key = Probe.from_mnemonic(text, pw)
        else:
            key = Probe.from_mnemonic(text)  # default password
    except mn.InvalidChecksumWordsError:
        check(s_not(ok), "from_mnemonic rejects a mnemonic whose checksum matches", witness=wit)
        return "bad-checksum"
    except RuntimeError as ex:
        if e2e or "kdf_out" not in seam:
            check(False, f"from_mnemonic raised {ex!r}", witness=wit)
            return "error"
        _invalid_master_checks(seam["kdf_out"], repr(ex), wit, "from_mnemonic")
        return "invalid-master:" + str(ex)
    except Exception as ex:
        check(False, f"from_mnemonic raised {type(ex).__name__}", witness=wit)
        return "error"
    finally:
        hd.hmac_sha512_kdf = _ORIG["orig_kdf"]
    b = len(shims.HASH_CALLS)
    check(ok, "from_mnemonic accepts a mnemonic whose checksum does not match", witness=wit)
    # BIP39: seed = PBKDF2-HMAC-SHA512(password = mnemonic sentence (full words, single spaces, UTF-8), salt = "mnemonic" + passphrase,
    #                                  c = 2048, dkLen = 64)
    sentence = " ".join(hs.word(i) for i in idx)
    salt = b"mnemonic" + pw
    if e2e:
        got = seam.get("from_seed")
        if got is None or key is not got:
            check(False, "from_mnemonic does not return from_seed(seed).traverse(path)", witness=wit)
            return "error"
        want = spec_pbkdf2(_sym_prf("sha512"), 64, sentence.encode("utf-8"), salt, 2048, 64)
        c = len(shims.HASH_CALLS)
        eq = (len(got.seed) == 64) and (got.seed == want)
        if eq is not True and _localise(a, b, c, "from_mnemonic seed", wit):
            return "diff"
        check(eq, "the seed handed to from_seed is not PBKDF2-HMAC-SHA512(sentence, 'mnemonic'+password, 2048, 64)", witness=wit)
        check(got.path == "m" and got.kw == {"network": "mainnet", "priv_version": None, "pub_version": None},
              "from_seed arguments / default path", witness=wit)
        return "ok"
    if "kdf" not in seam:
        check(False, "from_mnemonic does not derive the seed through hmac_sha512_kdf", witness=wit)
        return "error"
    msg, s = seam["kdf"]
    check(isinstance(msg, str) and msg == sentence, "PBKDF2 password is not the sentence of full words joined by single spaces", witness=wit)
    check((len(s) == len(salt)) and (s == salt), "PBKDF2 salt is not b'mnemonic' + password", witness=wit)
    _master_checks(key, seam["kdf_out"], wit, "from_mnemonic")
    return "ok"


def ob_seed(cases, e2e):
    runs = [sym_run(lambda: _seed_path(nw, pattern, lpw, e2e), expect_classes=["ok", "bad-checksum"], timeout_ms=30000)
            for (nw, pattern, lpw) in cases]
    m = merge_runs(runs)
    m["sample"] = {"cases (words, forms, password bytes)": [list(c) for c in cases], "rounds": 2048,
                   "mode": "end to end up to the seed handed to from_seed" if e2e else "hmac_sha512_kdf seam + real from_seed"}
    return m


def replay_seed(w):
    """the witness's checksum bits refer to the uninterpreted sha256: they are recomputed with the real sha256 (the seed
    obligation concerns valid mnemonics); the raw witness is tried too"""
    from buidl import hd
    words = _real_words()
    pw = bytes.fromhex(w["password"])
    last = None
    for indices in (_valid_indices(w["indices"]), list(w["indices"])):
        text = _real_mnemonic(indices, w["forms"], words)
        _, ok = spec_decode(indices, _real_sha)
        try:
            key = hd.HDPrivateKey.from_mnemonic(text, pw) if pw else hd.HDPrivateKey.from_mnemonic(text)
        except Exception as ex:
            if ok:
                return {"violated": True, "observed": f"from_mnemonic({text!r}, {pw!r}) raised {ex!r}"}
            last = f"rejected {ex!r}"
            continue
        if not ok:
            return {"violated": True, "observed": f"from_mnemonic accepts {text!r} (bad checksum)"}
        sentence = " ".join(words[i] for i in indices)
        seed = _hashlib.pbkdf2_hmac("sha512", sentence.encode("utf-8"), b"mnemonic" + pw, 2048, 64)
        I = _hmac.new(b"Bitcoin seed", seed, "sha512").digest()  # noqa: E741
        bad = key.private_key.secret != int.from_bytes(I[:32], "big") or key.chain_code != I[32:] or key.depth != 0
        last = f"from_mnemonic({text!r}, password={pw.hex()}): xprv {key.xprv()}; BIP39/BIP32 master secret {I[:32].hex()} chain code {I[32:].hex()}"
        if bad:
            return {"violated": True, "observed": last}
    return {"violated": False, "observed": last}


# ---------------------------------------------------------------------------------------- O3 word list facts (concrete, trusted base)

def _wordlist_facts():
    mn, hd = _mods()
    wl = _ORIG["obj"]
    words = _real_words()
    problems = []
    if len(words) != 2048 or list(wl.words) != words:
        problems.append(f"{len(words)} words in the file / WordList.words differs")
    if words != sorted(words):
        problems.append("not sorted")
    if len(set(words)) != len(words):
        problems.append("duplicate words")
    if not all(w.isascii() and w.isalpha() and w == w.lower() and 3 <= len(w) <= 8 for w in words):
        problems.append("a word is not 3..8 lower-case ASCII letters")
    if len({w[:4] for w in words}) != len(words):
        problems.append("four-letter prefixes are not unique")
    expected = {}
    for i, w in enumerate(words):
        expected[w] = i
        expected[w[:4]] = i
    if dict(wl.lookup) != expected:
        problems.append("WordList.lookup is not exactly {word: i, word[:4]: i}")
    for i, w in enumerate(words):
        try:
            if not (wl[w] == i and wl[w[:4]] == i and wl[i] == w and wl.normalize(w[:4]) == w and wl.normalize(w) == w and (w in wl)
                    and ((w[:4] in wl) == (w[:4] in words))):
                problems.append(f"lookup of word {i} ({w})")
        except Exception as ex:
            problems.append(f"lookup of word {i} ({w}) raised {ex!r}")
    if list(iter(wl)) != words:
        problems.append("iteration order")
    nat = loader.native("mnemonic").BIP39
    if nat.words != words or nat.lookup != expected:
        problems.append("native buidl.mnemonic.BIP39 differs")
    return (not problems), ("2048 sorted unique words, 2048 unique 4-letter prefixes, prefix lookup == full lookup for all words"
                            if not problems else "; ".join(problems[:5]))


def ob_wordlist():
    return conc_run(_wordlist_facts, "BIP39 word list: 2048 words, sorted, unique four-letter prefixes, WordList prefix lookup agrees with "
                                     "full-word lookup (the facts the handle model assumes)")


BIP39_ENGLISH_SHA256 = "2f5eed53a4727b4bf8880d8f3f199efc90e58503646d9ff8eff3a2ed3b24dbda"  # bips/bip-0039/english.txt


def _words_digest(words):
    import hashlib
    return hashlib.sha256(("\n".join(words) + "\n").encode()).hexdigest()


def ob_wordlist_spec():
    """the word list is data, not code: nothing for a solver to quantify over.  Concrete comparison of the list the library actually
    loads with the BIP39 specification's list (by its SHA-256); reported as engine 'concrete'.  A mismatch is a violation of
    'the mnemonic encodes the entropy ... as defined by BIP39' for every entropy that selects a differing index."""
    import time
    t0 = time.time()
    words = list(loader.native("mnemonic").BIP39.words)
    got = _words_digest(words)
    viol = []
    if got != BIP39_ENGLISH_SHA256:
        viol.append({"label": "the BIP39 word list loaded by the library is not the specification's english.txt",
                     "witness": {"sha256": got, "n_words": len(words)}, "replay": "wordlist_spec"})
    return {"engine": "concrete", "stats": core.Stats().asdict(), "classes": {}, "violations": viol, "inconclusive": [],
            "wall_s": round(time.time() - t0, 3), "sample": {"trusted_base": "sha256 of the loaded BIP39 word list", "sha256": got},
            "symbolic": False, "vars": []}


def replay_wordlist_spec(w):
    from buidl import mnemonic
    got = _words_digest(list(mnemonic.BIP39.words))
    return {"violated": got != BIP39_ENGLISH_SHA256, "observed": f"sha256 of the loaded word list {got}, BIP39 english.txt {BIP39_ENGLISH_SHA256}"}


# ---------------------------------------------------------------------------------------- registry

def obligations(tier):
    q = tier == "quick"
    obs = [Ob("O1-encode", ob_encode, {"nbs": (16, 20, 24, 28, 32)}, replay="encode")]
    patterns = ("full", "prefix", "alternating") if q else ("full", "prefix", "alternating", "last-prefix", "last-full")
    for nw in VALID_WORDS:
        obs.append(Ob("O1-decode", ob_decode, {"nw": nw, "patterns": patterns}, replay="decode"))
    counts = [n for n in (list(range(0, 34)) + [48] if q else list(range(0, 65)) + [96]) if n not in VALID_WORDS]
    obs.append(Ob("O1-lengths", ob_lengths, {"counts": tuple(counts), "num_bits": (0, 8, 64, 96, 127, 129, 136, 255, 264, 512)}, replay="lengths"))
    for nbits in VALID_BITS:
        obs.append(Ob("O1-secure-mnemonic", ob_secure, {"num_bits": nbits}, replay="secure"))
    # O2
    readsets = ((64,), (20, 44, 1), (130,), (1,))
    if q:
        for algo in ("sha512", "sha1"):
            for rounds in (1, 2, 3):
                # passphrase lengths around the hash block size (HMAC hashes keys strictly longer than the block): 64 for SHA-1, 128 for SHA-512
                blk = 128 if algo == "sha512" else 64
                lps = (1, 5, 129) if rounds > 1 else (1, blk - 1, blk, blk + 1)
                obs.append(Ob("O2-pbkdf2", ob_pbkdf2, {"algo": algo, "rounds": rounds, "lps": lps, "lss": (0, 8, 20), "readsets": readsets},
                              replay="pbkdf2"))
        kdfs = [((60, 12, False),), ((59, 8, True),)]
        seam = [tuple((nw, p, l) for nw in VALID_WORDS) for p, l in (("full", 0), ("alternating", 1), ("prefix", 4), ("full", 9))]
        e2e = [((12, "alternating", 4),), ((24, "full", 9),)]
    else:
        for algo in ("sha512", "sha1"):
            for rounds in (1, 2, 3, 4, 10):
                obs.append(Ob("O2-pbkdf2", ob_pbkdf2, {"algo": algo, "rounds": rounds, "lps": (0, 1, 5, 64, 128, 129, 200),
                                                       "lss": (0, 1, 8, 20, 64), "readsets": readsets}, replay="pbkdf2", budget_s=1800))
            for lp in (1, 129):
                obs.append(Ob("O2-pbkdf2", ob_pbkdf2, {"algo": algo, "rounds": 2048, "lps": (lp,), "lss": (0, 8, 20), "readsets": ((64,), (20, 44, 1))},
                              replay="pbkdf2", budget_s=1800))
        kdfs = [((lp, ls, st),) for lp in (1, 5, 60, 150) for ls in (8, 9, 12, 40) for st in (False, True)]
        seam = [tuple((nw, p, l) for nw in VALID_WORDS for p in ("full", "prefix", "alternating")) for l in (0, 1, 2, 4, 9, 33)]
        e2e = [((nw, p, l),) for nw in VALID_WORDS for p, l in (("full", 0), ("alternating", 1), ("prefix", 9), ("full", 33))]
    for cases in kdfs:
        obs.append(Ob("O2-kdf", ob_kdf, {"cases": cases}, replay="kdf", budget_s=900))
    for cases in seam:
        obs.append(Ob("O2-from-mnemonic", ob_seed, {"cases": cases, "e2e": False}, replay="seed"))
    for cases in e2e:
        obs.append(Ob("O2-from-mnemonic", ob_seed, {"cases": cases, "e2e": True}, replay="seed", budget_s=900))
    obs.append(Ob("O2-from-seed", ob_from_seed, {"lengths": (16, 32, 64)}, replay="from_seed"))
    obs.append(Ob("O3-wordlist", ob_wordlist))
    obs.append(Ob("O3-wordlist-spec", ob_wordlist_spec, replay="wordlist_spec"))
    return obs
