"""C08 — BIP32 derivation: public/private consistency, composition, lossless extended keys (DESIGN.md section 3, C08)."""
from symx import core, loader, shims, field
from symx.core import SI, SBytes, check, s_and, s_or, s_not, s_implies, assume, bytes_env, Out, conc_value, wrapb, lift, branch
from vlib.run import Ob, sym_run, merge_runs, conc_run
from checks._group import Env, with_env, N, P

PROPERTY = "C08"

META = {
    "bounds": {
        "quick": {"child": "all parent secrets k in [1,N-1], chain codes (32 bytes), indexes in [0, 2^32) (hardened and not), depth 0..254, "
                           "parent fingerprint / child number symbolic",
                  "codec": "78-byte xprv/xpub: depth, fingerprint, child number, chain code, key all symbolic, for each of the 20 version prefixes; every 2- and 3-step history of raw_serialize / xpub() / xpub(zpub) / xprv() on one object",
                  "traverse": "paths of 1..4 components from a fixed list of renderings (' / h / H, upper- and lower-case m) over symbolic key material"},
        "thorough": {"traverse": "paths up to 6 components"}},
    "outside": ["is_valid_bip32_path / combine_bip32_paths / blind_xpub path bookkeeping on arbitrary path *strings* beyond the renderings enumerated by O4-blinding-paths-concrete (regex and str methods on symbolic "
                "text are beyond the engine; strings stay concrete)", "from_seed beyond the HMAC wiring (covered in C14)",
                "the BIP32 invalid-child cases IL >= N and child key 0 (probability < 2^-127): assumed not to occur",
                "Base58Check text layer (C09)"],
    "stubs": ["abstract prime-order group (symx/field.py)", "HMAC-SHA512, SHA-256, RIPEMD-160 uninterpreted on symbolic input"],
    "assumptions": ["prime-order group (C03)", "IL < N and IL + k != 0 mod N"],
}
MANIFEST = {"technique": "symbolic execution of the real HDPrivateKey/HDPublicKey child/traverse/codec code over an abstract prime-order group with "
                         "uninterpreted HMAC-SHA512; GF(N) canonical form + z3 (LIA); the path-string bookkeeping of combine_bip32_paths / blind_xpub "
                         "has no symbolic content in this engine and is an enumerated structural obligation (engine 'concrete', reported "
                         "separately, not solver evidence)"}


def hmac512(key, data):
    return shims._HMAC(key, data, "sha512").digest()


def h160(data):
    return shims._H("ripemd160", shims._H("sha256", data).digest()).digest()


def spec_sec(e, d):
    xn, pn = e.grp.coords(d)
    return (b"\x03" if branch(pn) else b"\x02") + core.wrap(xn).to_bytes(32, "big")


def _mk_parent(e, hd):
    k = SI.var("k", 1, N - 1)
    cc = SBytes.sym("cc", 32)
    depth = SI.var("depth", 0, 254)
    pfp = SBytes.sym("pfp", 4)
    cn = SI.var("cn", 0, (1 << 32) - 1)
    pk = e.pecc.PrivateKey(k)
    parent = hd.HDPrivateKey(pk, cc, depth=depth, parent_fingerprint=pfp, child_number=cn, network="mainnet")
    return k, cc, depth, pfp, cn, parent


@with_env("hd")
def _child_path(e, hardened, prior=False):
    hd = loader.load("hd")
    F = e.fld
    k, cc, depth, pfp, cn, parent = _mk_parent(e, hd)
    idx = SI.var("index", 0x80000000 if hardened else 0, 0xFFFFFFFF if hardened else 0x7FFFFFFF)
    if prior:
        # history: the same parent objects (private and public) have already derived other children
        idx0 = SI.var("index0", 0, 0xFFFFFFFF)
        idx0p = SI.var("index0p", 0, 0x7FFFFFFF)
        # ... and an unrelated extended key with the same key material but another chain code has derived the very same index
        cc2 = SBytes.sym("cc2", 32)
        twin = hd.HDPrivateKey(e.pecc.PrivateKey(k), cc2, depth=depth, parent_fingerprint=pfp, child_number=cn, network="mainnet")
        for f, i0 in ((parent.child, idx0), (parent.pub.child, idx0p), (twin.child, idx), (twin.pub.child, idx)):
            try:
                f(i0)
            except (ValueError, RuntimeError):   # IL >= n or a zero child key (probability 2^-127), hardened public derivation: refused
                pass

    def wit(env):
        w = {"k": env["k"], "cc": bytes_env(env, "cc", 32).hex(), "index": env["index"], "depth": env["depth"]}
        if prior:
            w["index0"], w["index0p"] = env["index0"], env["index0p"]
            w["cc2"] = bytes_env(env, "cc2", 32).hex()
        return w
    # specification (BIP32 CKDpriv / CKDpub)
    psec = spec_sec(e, k)
    if hardened:
        data = b"\x00" + k.to_bytes(32, "big") + idx.to_bytes(4, "big")
    else:
        data = psec + idx.to_bytes(4, "big")
    I = hmac512(cc, data)
    IL = core.int_from_bytes(I[:32], "big")
    child_k = F.reduce(field.lift_si(IL) + field.lift_si(k))
    assume(IL < N)
    assume(wrapb(core.b_not(F.is_zero_cond(field.lift_si(child_k)))))
    try:
        ch = parent.child(idx)
    except Exception as ex:
        check(False, f"child() raised {type(ex).__name__} for a valid derivation", witness=wit)
        return "raised"
    check(F.same(ch.private_key.secret, child_k) and bool(ch.private_key.secret == child_k), "child secret is not (IL + k) mod n for the BIP32 HMAC input", witness=wit)
    check(ch.chain_code == I[32:], "child chain code is not IR", witness=wit)
    check(s_and(ch.depth == depth + 1, ch.child_number == idx), "depth / child number", witness=wit)
    check(ch.parent_fingerprint == h160(psec)[:4], "parent fingerprint is not hash160(serP(parent))[:4]", witness=wit)
    check(F.same(ch.pub.point.d, child_k), "child public key is not child secret * G", witness=wit)
    if hardened:
        try:
            parent.pub.child(idx)
            check(False, "public derivation of a hardened index was not refused", witness=wit)
        except ValueError:
            check(True, "refused")
        return "hardened"
    try:
        pc = parent.pub.child(idx)
    except Exception as ex:
        check(False, f"public child() raised {type(ex).__name__} for a non-hardened index", witness=wit)
        return "raised"
    check(F.same(pc.point.d, child_k), "public derivation differs from private derivation followed by neutering", witness=wit)
    check(s_and(pc.chain_code == ch.chain_code, pc.depth == ch.depth, pc.child_number == ch.child_number,
                pc.parent_fingerprint == ch.parent_fingerprint), "public child metadata differs from the private child's", witness=wit)
    return "normal"


def ob_child():
    runs = [sym_run(lambda: _child_path(h, pr), mode="int", timeout_ms=60000) for h in (False, True) for pr in (False, True)]
    m = merge_runs(runs)
    for cls in ("'hardened'", "'normal'"):
        if cls not in m["classes"]:
            m["inconclusive"].append(f"reachability twin: class {cls} missing")
    m["sample"] = {"parent": "secret, chain code, depth, fingerprint, child number symbolic", "index": "symbolic in [0,2^31) / [2^31,2^32)"}
    return m


# reference BIP32 on the real curve, for replays
def ref_ckd_priv(k, cc, i):
    import hmac
    import hashlib
    from buidl import pecc
    if i >= 0x80000000:
        data = b"\x00" + k.to_bytes(32, "big") + i.to_bytes(4, "big")
    else:
        data = (k * pecc.G).sec() + i.to_bytes(4, "big")
    I = hmac.new(cc, data, hashlib.sha512).digest()
    return (int.from_bytes(I[:32], "big") + k) % N, I[32:]


def replay_child(w):
    from buidl import hd, pecc
    k, cc, i = w["k"], bytes.fromhex(w["cc"]), w["index"]
    parent = hd.HDPrivateKey(pecc.PrivateKey(k), cc, depth=w.get("depth", 0))
    if "index0" in w:
        cc2 = bytes.fromhex(w["cc2"])
        if cc2 == cc:
            cc2 = bytes([cc[0] ^ 1]) + cc[1:]
        twin = hd.HDPrivateKey(pecc.PrivateKey(k), cc2, depth=w.get("depth", 0))
        for f in (twin.child, twin.pub.child):
            try:
                f(i)
            except (ValueError, RuntimeError):
                pass
        i0s = [w["index0"], i ^ 1, i ^ 0x80000000]
        for i0 in i0s:
            try:
                parent.child(i0)
                parent.pub.child(w["index0p"] if i0 == w["index0"] else i0 & 0x7FFFFFFF)
            except (ValueError, RuntimeError):
                pass
    ck, ccc = ref_ckd_priv(k, cc, i)
    ch = parent.child(i)
    probs = []
    if ch.private_key.secret != ck:
        probs.append("private child secret")
    if ch.chain_code != ccc:
        probs.append("private child chain code")
    if ch.pub.point != ck * pecc.G:
        probs.append("private child's public point")
    if ch.depth != w.get("depth", 0) + 1:
        probs.append("depth")
    if i < 0x80000000:
        pc = parent.pub.child(i)
        if pc.point != ck * pecc.G:
            probs.append("public child point != private child neutered")
        if pc.chain_code != ccc:
            probs.append("public child chain code")
    else:
        try:
            parent.pub.child(i)
            probs.append("hardened public derivation not refused")
        except ValueError:
            pass
    hist = " (after earlier derivations on the same parent objects and on an extended key with the same key and another chain code)" if "index0" in w else ""
    return {"violated": bool(probs), "observed": f"k={k:#x} chain code {cc.hex()} index={i}{hist}: differs from BIP32 in {probs or 'nothing'}"}


# ---------------------------------------------------------------------------------------- O2 codec

@with_env("hd")
def _codec_path(e, priv, vi):
    hd = loader.load("hd")
    F = e.fld
    k, cc, depth, pfp, cn, parent = _mk_parent(e, hd)
    versions = sorted(hd.ALL_MAINNET_XPRVS | hd.ALL_TESTNET_XPRVS) if priv else sorted(hd.ALL_MAINNET_XPUBS | hd.ALL_TESTNET_XPUBS)
    ver = versions[vi % len(versions)]

    def wit(env):
        return {"k": env["k"], "cc": bytes_env(env, "cc", 32).hex(), "depth": env["depth"], "pfp": bytes_env(env, "pfp", 4).hex(),
                "cn": env["cn"], "priv": priv, "version": ver.hex()}
    if priv:
        raw = parent.raw_serialize(ver)
        want = ver + core.sbytes(SBytes([depth])) + pfp + cn.to_bytes(4, "big") + cc + b"\x00" + k.to_bytes(32, "big")
        check((len(raw) == 78) and (raw == want), "xprv layout (version, depth, fingerprint, child number, chain code, 00 || key)", witness=wit)
        back = hd.HDPrivateKey.raw_parse(shims.BytesIOShim(raw))
        check(s_and(back.private_key.secret == k, back.chain_code == cc, back.depth == depth, back.parent_fingerprint == pfp,
                    back.child_number == cn, back.priv_version == ver), "raw_parse(raw_serialize(xprv)) != xprv", witness=wit)
        check((back.network == "mainnet") == (ver in hd.ALL_MAINNET_XPRVS), "network inferred from the version bytes", witness=wit)
        check(back.raw_serialize(ver) == raw, "re-serialisation differs", witness=wit)
    else:
        pub = parent.pub
        raw = pub._serialize(ver)
        want = ver + core.sbytes(SBytes([depth])) + pfp + cn.to_bytes(4, "big") + cc + spec_sec(e, k)
        check((len(raw) == 78) and (raw == want), "xpub layout", witness=wit)
        back = hd.HDPublicKey.raw_parse(shims.BytesIOShim(raw))
        check(F.same(back.point.d, k) and s_and(back.chain_code == cc, back.depth == depth, back.parent_fingerprint == pfp,
                                                 back.child_number == cn, back.pub_version == ver), "raw_parse(serialize(xpub)) != xpub", witness=wit)
        check(back._serialize(ver) == raw, "re-serialisation differs", witness=wit)
    return "ok"


class _B58(str):
    """stand-in for the Base58Check text of a payload (the text layer is C09's): remembers the raw bytes"""
    def __new__(cls, raw):
        o = str.__new__(cls, "<base58check>")
        o.raw = raw
        return o


@with_env("hd")
def _codec_history_path(e, order):
    """one object, several serialisations in different orders: every call must give the layout for the version asked for
    (the extended-key text must not depend on what was serialised earlier on the same object)"""
    hd = loader.load("hd")
    k, cc, depth, pfp, cn, parent = _mk_parent(e, hd)
    saved = hd.encode_base58_checksum
    hd.encode_base58_checksum = lambda raw: _B58(raw)
    try:
        pub = parent.pub
        zpub = bytes.fromhex("04b24746")
        default = hd.XPUB["mainnet"]
        body = core.sbytes(SBytes([depth])) + pfp + cn.to_bytes(4, "big") + cc + spec_sec(e, k)
        wit = lambda env: {"k": env["k"], "cc": bytes_env(env, "cc", 32).hex(), "order": list(order)}  # noqa
        for step in order:
            if step == "raw":
                got, ver = pub.raw_serialize(), default
            elif step == "xpub":
                got, ver = pub.xpub().raw, default
            elif step == "zpub":
                got, ver = pub.xpub(version=zpub).raw, zpub
            elif step == "priv.xpub-z":
                got, ver = parent.xpub(version=zpub).raw, zpub
            else:
                got, ver = parent.xprv().raw, None
            if ver is None:
                want = hd.XPRV["mainnet"] + core.sbytes(SBytes([depth])) + pfp + cn.to_bytes(4, "big") + cc + b"\x00" + k.to_bytes(32, "big")
            else:
                want = ver + body
            check((len(got) == 78) and (got == want), f"after {order}: step {step} does not serialise the key with the requested version", witness=wit)
        return "ok"
    finally:
        hd.encode_base58_checksum = saved


def ob_codec_history():
    import itertools
    steps = ("raw", "xpub", "zpub", "priv.xpub-z", "xprv")
    orders = [o for n in (2, 3) for o in itertools.permutations(steps, n)]
    runs = [sym_run(lambda: _codec_history_path(o), mode="int", timeout_ms=60000) for o in orders]
    m = merge_runs(runs)
    m["sample"] = {"object": "one HDPrivateKey / its .pub with symbolic fields", "histories": len(orders), "steps": list(steps)}
    return m


def replay_codec_history(w):
    from buidl import hd, pecc, helper
    parent = hd.HDPrivateKey(pecc.PrivateKey(w["k"]), bytes.fromhex(w["cc"]))
    pub = parent.pub
    zpub = bytes.fromhex("04b24746")
    bad = []
    for step in w["order"]:
        if step == "raw":
            got, ver = pub.raw_serialize(), hd.XPUB["mainnet"]
        elif step == "xpub":
            got, ver = helper.raw_decode_base58(pub.xpub()), hd.XPUB["mainnet"]
        elif step == "zpub":
            got, ver = helper.raw_decode_base58(pub.xpub(version=zpub)), zpub
        elif step == "priv.xpub-z":
            got, ver = helper.raw_decode_base58(parent.xpub(version=zpub)), zpub
        else:
            got, ver = helper.raw_decode_base58(parent.xprv()), hd.XPRV["mainnet"]
        if got[:4] != ver:
            bad.append(f"{step}: version {got[:4].hex()} instead of {ver.hex()}")
    return {"violated": bool(bad), "observed": f"history {w['order']}: {bad}"}


def ob_codec(priv):
    runs = [sym_run(lambda: _codec_path(priv, vi), mode="int", timeout_ms=60000) for vi in range(10)]
    m = merge_runs(runs)
    m["sample"] = {"kind": "xprv" if priv else "xpub", "fields": "all symbolic", "versions": 10}
    return m


def replay_codec(w):
    from buidl import hd, pecc
    from io import BytesIO
    ver = bytes.fromhex(w["version"])
    parent = hd.HDPrivateKey(pecc.PrivateKey(w["k"]), bytes.fromhex(w["cc"]), depth=w["depth"], parent_fingerprint=bytes.fromhex(w["pfp"]),
                             child_number=w["cn"])
    if w["priv"]:
        raw = parent.raw_serialize(ver)
        back = hd.HDPrivateKey.raw_parse(BytesIO(raw))
        bad = len(raw) != 78 or back.private_key.secret != w["k"] or back.raw_serialize(ver) != raw or back.depth != w["depth"]
    else:
        raw = parent.pub._serialize(ver)
        back = hd.HDPublicKey.raw_parse(BytesIO(raw))
        bad = len(raw) != 78 or back.point != parent.pub.point or back._serialize(ver) != raw
    return {"violated": bad, "observed": f"version {w['version']} priv={w['priv']}"}


# ---------------------------------------------------------------------------------------- O3 composition

PATHS = [("m/0", [0]), ("m/0'", [0x80000000]), ("M/1H/2", [0x80000001, 2]), ("m/44h/0h/7'", [0x8000002C, 0x80000000, 0x80000007]),
         ("m/2147483647/0/1/2", [0x7FFFFFFF, 0, 1, 2]), ("m/1/2'/3h/4H", [1, 0x80000002, 0x80000003, 0x80000004])]
LONG_PATHS = [("m/0/1/2/3/4/5", list(range(6))), ("m/48h/1h/0h/2h/0/5", [0x80000030, 0x80000001, 0x80000000, 0x80000002, 0, 5])]


@with_env("hd")
def _traverse_path(e, path, idxs):
    hd = loader.load("hd")
    F = e.fld
    k, cc, depth, pfp, cn, parent = _mk_parent(e, hd)
    wit = lambda env: {"k": env["k"], "cc": bytes_env(env, "cc", 32).hex(), "path": path}  # noqa
    # one CKD at a time, by hand
    cur_k, cur_cc = k, cc
    for i in idxs:
        if i >= 0x80000000:
            data = b"\x00" + field.lift_si(cur_k).to_bytes(32, "big") + i.to_bytes(4, "big")
        else:
            data = spec_sec(e, cur_k) + i.to_bytes(4, "big")
        I = hmac512(cur_cc, data)
        IL = core.int_from_bytes(I[:32], "big")
        assume(IL < N)
        cur_k = F.reduce(field.lift_si(IL) + field.lift_si(cur_k))
        assume(wrapb(core.b_not(F.is_zero_cond(field.lift_si(cur_k)))))
        cur_cc = I[32:]
    try:
        got = parent.traverse(path)
    except Exception as ex:
        check(False, f"traverse raised {type(ex).__name__}", witness=wit)
        return "raised"
    check(F.same(got.private_key.secret, cur_k) and bool(got.chain_code == cur_cc), "traverse(path) differs from deriving its components one by one", witness=wit)
    check(got.depth == depth + len(idxs), "depth after traverse", witness=wit)
    if all(i < 0x80000000 for i in idxs):
        gp = parent.pub.traverse(path)
        check(F.same(gp.point.d, cur_k) and bool(gp.chain_code == cur_cc), "public traverse differs from private traverse", witness=wit)
    else:
        try:
            parent.pub.traverse(path)
            check(False, "public traverse through a hardened component was not refused", witness=wit)
        except ValueError:
            check(True, "refused")
    return "ok"


def ob_traverse(which):
    sel = [(p, ix) for p, ix in (PATHS + LONG_PATHS) if p in which]
    runs = [sym_run(lambda: _traverse_path(p, ix), mode="int", timeout_ms=120000) for p, ix in sel]
    m = merge_runs(runs)
    m["sample"] = {"paths": [p for p, _ in sel], "key material": "symbolic"}
    return m


def replay_traverse(w):
    from buidl import hd, pecc
    k, cc = w["k"], bytes.fromhex(w["cc"])
    parent = hd.HDPrivateKey(pecc.PrivateKey(k), cc)
    idxs = dict(PATHS + LONG_PATHS)[w["path"]]
    ck, ccc = k, cc
    for i in idxs:
        ck, ccc = ref_ckd_priv(ck, ccc, i)
    got = parent.traverse(w["path"])
    return {"violated": got.private_key.secret != ck or got.chain_code != ccc, "observed": f"path {w['path']}"}


# ---------------------------------------------------------------------------------------- O4 path bookkeeping of blind_xpub (concrete)

def ref_parse_path(path):
    """independent BIP32 path reader: 'm', then /index with an optional hardened marker (', h or H)"""
    t = path.strip()
    assert t[:1] in ("m", "M"), path
    out = []
    for comp in [c for c in t[1:].split("/") if c != ""]:
        hard = comp[-1] in "'hH"
        n = int(comp[:-1] if hard else comp)
        assert 0 <= n < 2 ** 31, path
        out.append(n + (0x80000000 if hard else 0))
    return out


def path_shapes(maxc):
    comps = [f"{i}{mk}" for i in (0, 44, 2147483647) for mk in ("", "'", "h", "H")]
    out = ["m"]
    level = ["m"]
    for _ in range(maxc):
        level = [p + "/" + c for p in level for c in comps]
        out += level
    return out


def _path_facts(mod_blinding, mod_hd, maxc, nblind):
    """combine_bip32_paths(a, b) reads as index list(a) + index list(b) for every pair of renderings; blind_xpub returns the key at
    the combined path from the root.  Strings carry no symbolic content in this engine, so this obligation is an enumerated
    structural fact (engine 'concrete', not solver evidence); every failure is replayed on the native code."""
    paths = path_shapes(maxc)
    variants = lambda p: (p, " " + p + " ", p.upper() if p != "m" else "M")  # noqa
    for a in paths:
        for b in paths:
            for av in variants(a)[:2 if len(paths) > 200 else 3]:
                try:
                    got = mod_blinding.combine_bip32_paths(av, b)
                    if ref_parse_path(got) != ref_parse_path(a) + ref_parse_path(b):
                        return False, {"first": av, "second": b, "got": got}
                except Exception as ex:
                    return False, {"first": av, "second": b, "got": "raised " + repr(ex)}
    # blind_xpub on a few starting depths with hardened tails in every notation
    root = mod_hd.HDPrivateKey.from_seed(bytes(range(1, 33)), network="mainnet")
    count = 0
    for sp in [p for p in paths if p != "m"][:nblind] + ["m/48'/0'/0'/2'", "m/48h/0h/0h/2h", "m/1'", "m/0/2147483647'"]:
        acct = root.traverse(sp)
        for secret in ("m/5/7", "m/2147483647/0/1", "m/3"):
            try:
                r = mod_blinding.blind_xpub(acct.xpub(), sp, secret)
                full = r["blinded_full_path"]
                if ref_parse_path(full) != ref_parse_path(sp) + ref_parse_path(secret) or root.traverse(full).xpub() != r["blinded_child_xpub"]:
                    return False, {"blind": [sp, secret], "got": full}
            except Exception as ex:
                return False, {"blind": [sp, secret], "got": "raised " + repr(ex)}
            count += 1
    return True, {"pairs": len(paths) ** 2, "blinded": count}


def ob_paths(maxc, nblind):
    from symx import loader as _l
    bl, hdm = _l.native("blinding"), _l.native("hd")
    res = {}

    def fn():
        ok, d = _path_facts(bl, hdm, maxc, nblind)
        res["d"] = d
        return ok, (f"{d}" if ok else f"path bookkeeping differs from index-list concatenation: {d}")
    fn()
    ok = "pairs" in res["d"]
    return conc_run(lambda: (ok, str(res["d"])), "combine_bip32_paths / blind_xpub: combined path == concatenated index lists, key at combined path == blinded key",
                    replay="paths", witness=res["d"] if not ok else {})


def replay_paths(w):
    from buidl import blinding, hd
    if "blind" in w:
        sp, secret = w["blind"]
        root = hd.HDPrivateKey.from_seed(bytes(range(1, 33)), network="mainnet")
        try:
            r = blinding.blind_xpub(root.traverse(sp).xpub(), sp, secret)
        except Exception as ex:
            return {"violated": True, "observed": f"blind_xpub(xpub at {sp!r}, {sp!r}, {secret!r}) raised {ex!r}"}
        full = r["blinded_full_path"]
        bad = ref_parse_path(full) != ref_parse_path(sp) + ref_parse_path(secret) or root.traverse(full).xpub() != r["blinded_child_xpub"]
        return {"violated": bad, "observed": f"blind_xpub(xpub at {sp!r}, {sp!r}, {secret!r}) -> full path {full!r}; the key at that path from the root "
                                             f"{'is not' if bad else 'is'} the blinded child key"}
    a, b = w["first"], w["second"]
    try:
        got = blinding.combine_bip32_paths(a, b)
    except Exception as ex:
        return {"violated": True, "observed": f"combine_bip32_paths({a!r}, {b!r}) raised {ex!r}"}
    want = ref_parse_path(a) + ref_parse_path(b)
    return {"violated": ref_parse_path(got) != want, "observed": f"combine_bip32_paths({a!r}, {b!r}) = {got!r}; index lists {ref_parse_path(got)} vs {want}"}


def obligations(tier):
    q = tier == "quick"
    return [Ob("O1-child", ob_child, replay="child"), Ob("O2-codec", ob_codec, {"priv": True}, replay="codec"),
            Ob("O2-codec", ob_codec, {"priv": False}, replay="codec"), Ob("O2-codec-history", ob_codec_history, replay="codec_history"),
            Ob("O4-blinding-paths-concrete", ob_paths, {"maxc": 2, "nblind": 30 if q else 157}, replay="paths"),
            Ob("O3-traverse", ob_traverse, {"which": tuple(p for p, _ in PATHS)}, replay="traverse", budget_s=1800)] + \
        ([] if q else [Ob("O3-traverse", ob_traverse, {"which": (p,)}, replay="traverse", budget_s=6000) for p, _ in LONG_PATHS])
