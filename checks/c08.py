"""C08 — BIP32 derivation: public/private consistency, composition, lossless extended keys (DESIGN.md section 3, C08)."""
from symx import core, loader, shims, field
from symx.core import SI, SBytes, check, s_and, s_or, s_not, s_implies, assume, bytes_env, Out, conc_value, wrapb, lift, branch
from vlib.run import Ob, sym_run, merge_runs, conc_run
from checks._group import Env, with_env, N, P

PROPERTY = "C08"

META = {
    "bounds": {
        "quick": {"child": "all parent secrets k in [1,N-1], chain codes (32 bytes), indexes in [0, 2^32) (hardened and not), depth 0..254, "
                           "parent fingerprint / child number symbolic",
                  "codec": "78-byte xprv/xpub: depth, fingerprint, child number, chain code, key all symbolic, for each of the 20 version prefixes; every 2- and 3-step history of raw_serialize / xpub() / xpub(zpub) / xprv() on one object",
                  "traverse": "paths of 1..4 components from a fixed list of renderings (' / h / H, upper- and lower-case m) over symbolic key material",
                  "child under every network / version prefix (O5-child-guises)": "two HDPublicKey objects for one extended public key (point, chain code, depth, "
                  "fingerprint, child number symbolic) on each of the 16 ordered pairs of networks (mainnet, testnet, signet, regtest), each with a version prefix "
                  "the solver picks among the ten of the network's family; history: the first object derives another index and the index in question (both symbolic "
                  "in [0, 2^31)), then the second derives that index; the second object's child must be the BIP32 child, on its parent's network, with its parent's "
                  "prefix, in pub_version, xpub() and raw_serialize()",
                  "blind_xpub under every version prefix (O5-blind-guises)": "one account key at depth 4 (symbolic point, chain code, fingerprint, child number) per family "
                  "(mainnet, testnet); one history per family: its text under the ten prefixes of the family in sorted order, blinded one after the other with the "
                  "secret paths m/7/2147483647 and m/7 alternating every second call; every result must be the 78-byte key at the combined path under the prefix handed in",
                  "traverse histories (O6-traverse-history)": "every ordered pair of calls traverse(p1), traverse(p2) on ONE HDPublicKey object (symbolic point / chain code), "
                  "p1, p2 over all 12 paths with 1..2 components from {0, 7, 1h} (144 histories; the hardened marker is rendered h, ' or H in rotation, lower-case m): "
                  "each call is refused iff its path has a hardened component, otherwise point, chain code, depth, child number and parent fingerprint are those of "
                  "deriving the components one by one",
                  "upper-case M on a public key (O7, NOT registered: REGISTER_UPPER_M = False)": "the histories (M/7), (M/0/2147483647), (m/7, M/7/0)"},
        "thorough": {"traverse": "paths up to 6 components",
                     "traverse histories": "additionally every ordered pair over the 14 paths with 1..3 components from {0, 1h} and every ordered triple over the 6 paths "
                     "with 1..2 components from {0, 1h}"}},
    "outside": ["is_valid_bip32_path / combine_bip32_paths / blind_xpub path bookkeeping on arbitrary path *strings* beyond the renderings enumerated by O4-blinding-paths-concrete (regex and str methods on symbolic "
                "text are beyond the engine; strings stay concrete)", "from_seed beyond the HMAC wiring (covered in C14)",
                "the BIP32 invalid-child cases IL >= N and child key 0 (probability < 2^-127): assumed not to occur",
                "Base58Check text layer (C09)",
                "judgement (O5): the property does not say in words which version prefix a derived child carries; it is read as 'the child of an extended key is an "
                "extended key of the same network and version prefix' (what blind_xpub's contract 'uses the version byte that was parsed' and HDPrivateKey.child / "
                "HDPublicKey.child of the unchanged library do), and a child handed out under another object's prefix or network counts as not being 'exactly the key "
                "found at the combined path'",
                "judgement (O6): 'refused' is any exception (the unchanged library raises ValueError); which exception is not demanded",
                "O5: the two objects share the whole extended key and differ in network / prefix only (an object with the same key and another chain code is the 'twin' "
                "of O1-child); version prefixes outside the 20 known ones; address rendering of the children (C09)",
                "O5-blind-guises: only consecutive pairs of prefixes in one fixed order per family (raw_parse looks the prefix up in a set, which needs concrete prefixes); "
                "signet / regtest cannot be expressed through blind_xpub (parse maps every test prefix to testnet)",
                "O6: histories on HDPrivateKey.traverse; histories longer than 2 (quick) / 3 (thorough) calls; path texts stay concrete (strings carry no symbolic "
                "content in this engine), so indexes inside histories are the enumerated ones; public traverse of paths with an upper-case leading M: the unchanged HDPublicKey.traverse refuses "
                "them (ValueError 'Invalid Path') while HDPrivateKey.traverse / is_valid_bip32_path accept them -- reported as a defect; obligation O7 exists but is "
                "not registered (REGISTER_UPPER_M)"],
    "stubs": ["abstract prime-order group (symx/field.py)", "HMAC-SHA512, SHA-256, RIPEMD-160 uninterpreted on symbolic input"],
    "assumptions": ["prime-order group (C03)", "IL < N and IL + k != 0 mod N (for every derivation of a history, including those made by the other object in O5 and "
                    "the non-hardened prefix of a refused path in O6)", "O5: the first object's other index differs from the index in question"],
}
MANIFEST = {"technique": "symbolic execution of the real HDPrivateKey/HDPublicKey child/traverse/codec code over an abstract prime-order group with "
                         "uninterpreted HMAC-SHA512; GF(N) canonical form + z3 (LIA); histories (several calls on one object, two objects for one key one after the "
                         "other in one process) are executed inside one symbolic path with version prefixes / indexes chosen by the solver; the path-string bookkeeping of combine_bip32_paths / blind_xpub "
                         "has no symbolic content in this engine and is an enumerated structural obligation (engine 'concrete', reported "
                         "separately, not solver evidence)"}


# a change under test may key a memo table by symbolic byte strings (serialisations); when the solver gives up on enumerating their values
# they are compared by == instead of being concretised byte by byte (the path set is then marked inconclusive, witnesses are replayed)
core.MANY_IF_UNKNOWN[0] = True


def hmac512(key, data):
    return shims._HMAC(key, data, "sha512").digest()


def h160(data):
    return shims._H("ripemd160", shims._H("sha256", data).digest()).digest()


def spec_sec(e, d):
    xn, pn = e.grp.coords(d)
    return (b"\x03" if branch(pn) else b"\x02") + core.wrap(xn).to_bytes(32, "big")


def _mk_parent(e, hd):
    k = SI.var("k", 1, N - 1)
    cc = SBytes.sym("cc", 32)
    depth = SI.var("depth", 0, 254)
    pfp = SBytes.sym("pfp", 4)
    cn = SI.var("cn", 0, (1 << 32) - 1)
    pk = e.pecc.PrivateKey(k)
    parent = hd.HDPrivateKey(pk, cc, depth=depth, parent_fingerprint=pfp, child_number=cn, network="mainnet")
    return k, cc, depth, pfp, cn, parent


@with_env("hd")
def _child_path(e, hardened, prior=False):
    hd = loader.load("hd")
    F = e.fld
    k, cc, depth, pfp, cn, parent = _mk_parent(e, hd)
    idx = SI.var("index", 0x80000000 if hardened else 0, 0xFFFFFFFF if hardened else 0x7FFFFFFF)
    if prior:
        # history: the same parent objects (private and public) have already derived other children
        idx0 = SI.var("index0", 0, 0xFFFFFFFF)
        idx0p = SI.var("index0p", 0, 0x7FFFFFFF)
        # ... and an unrelated extended key with the same key material but another chain code has derived the very same index
        cc2 = SBytes.sym("cc2", 32)
        twin = hd.HDPrivateKey(e.pecc.PrivateKey(k), cc2, depth=depth, parent_fingerprint=pfp, child_number=cn, network="mainnet")
        for f, i0 in ((parent.child, idx0), (parent.pub.child, idx0p), (twin.child, idx), (twin.pub.child, idx)):
            try:
                f(i0)
            except (ValueError, RuntimeError):   # IL >= n or a zero child key (probability 2^-127), hardened public derivation: refused
                pass

    def wit(env):
        w = {"k": env["k"], "cc": bytes_env(env, "cc", 32).hex(), "index": env["index"], "depth": env["depth"]}
        if prior:
            w["index0"], w["index0p"] = env["index0"], env["index0p"]
            w["cc2"] = bytes_env(env, "cc2", 32).hex()
        return w
    # specification (BIP32 CKDpriv / CKDpub)
    psec = spec_sec(e, k)
    if hardened:
        data = b"\x00" + k.to_bytes(32, "big") + idx.to_bytes(4, "big")
    else:
        data = psec + idx.to_bytes(4, "big")
    I = hmac512(cc, data)
    IL = core.int_from_bytes(I[:32], "big")
    child_k = F.reduce(field.lift_si(IL) + field.lift_si(k))
    assume(IL < N)
    assume(wrapb(core.b_not(F.is_zero_cond(field.lift_si(child_k)))))
    try:
        ch = parent.child(idx)
    except Exception as ex:
        check(False, f"child() raised {type(ex).__name__} for a valid derivation", witness=wit)
        return "raised"
    check(F.same(ch.private_key.secret, child_k) and bool(ch.private_key.secret == child_k), "child secret is not (IL + k) mod n for the BIP32 HMAC input", witness=wit)
    check(ch.chain_code == I[32:], "child chain code is not IR", witness=wit)
    check(s_and(ch.depth == depth + 1, ch.child_number == idx), "depth / child number", witness=wit)
    check(ch.parent_fingerprint == h160(psec)[:4], "parent fingerprint is not hash160(serP(parent))[:4]", witness=wit)
    check(F.same(ch.pub.point.d, child_k), "child public key is not child secret * G", witness=wit)
    if hardened:
        try:
            parent.pub.child(idx)
            check(False, "public derivation of a hardened index was not refused", witness=wit)
        except ValueError:
            check(True, "refused")
        return "hardened"
    try:
        pc = parent.pub.child(idx)
    except Exception as ex:
        check(False, f"public child() raised {type(ex).__name__} for a non-hardened index", witness=wit)
        return "raised"
    check(F.same(pc.point.d, child_k), "public derivation differs from private derivation followed by neutering", witness=wit)
    check(s_and(pc.chain_code == ch.chain_code, pc.depth == ch.depth, pc.child_number == ch.child_number,
                pc.parent_fingerprint == ch.parent_fingerprint), "public child metadata differs from the private child's", witness=wit)
    return "normal"


def ob_child():
    runs = [sym_run(lambda: _child_path(h, pr), mode="int", timeout_ms=60000) for h in (False, True) for pr in (False, True)]
    m = merge_runs(runs)
    for cls in ("'hardened'", "'normal'"):
        if cls not in m["classes"]:
            m["inconclusive"].append(f"reachability twin: class {cls} missing")
    m["sample"] = {"parent": "secret, chain code, depth, fingerprint, child number symbolic", "index": "symbolic in [0,2^31) / [2^31,2^32)"}
    return m


# reference BIP32 on the real curve, for replays
def ref_ckd_priv(k, cc, i):
    import hmac
    import hashlib
    from buidl import pecc
    if i >= 0x80000000:
        data = b"\x00" + k.to_bytes(32, "big") + i.to_bytes(4, "big")
    else:
        data = (k * pecc.G).sec() + i.to_bytes(4, "big")
    I = hmac.new(cc, data, hashlib.sha512).digest()
    return (int.from_bytes(I[:32], "big") + k) % N, I[32:]


def replay_child(w):
    from buidl import hd, pecc
    k, cc, i = w["k"], bytes.fromhex(w["cc"]), w["index"]
    parent = hd.HDPrivateKey(pecc.PrivateKey(k), cc, depth=w.get("depth", 0))
    if "index0" in w:
        cc2 = bytes.fromhex(w["cc2"])
        if cc2 == cc:
            cc2 = bytes([cc[0] ^ 1]) + cc[1:]
        twin = hd.HDPrivateKey(pecc.PrivateKey(k), cc2, depth=w.get("depth", 0))
        for f in (twin.child, twin.pub.child):
            try:
                f(i)
            except (ValueError, RuntimeError):
                pass
        i0s = [w["index0"], i ^ 1, i ^ 0x80000000]
        for i0 in i0s:
            try:
                parent.child(i0)
                parent.pub.child(w["index0p"] if i0 == w["index0"] else i0 & 0x7FFFFFFF)
            except (ValueError, RuntimeError):
                pass
    ck, ccc = ref_ckd_priv(k, cc, i)
    ch = parent.child(i)
    probs = []
    if ch.private_key.secret != ck:
        probs.append("private child secret")
    if ch.chain_code != ccc:
        probs.append("private child chain code")
    if ch.pub.point != ck * pecc.G:
        probs.append("private child's public point")
    if ch.depth != w.get("depth", 0) + 1:
        probs.append("depth")
    if i < 0x80000000:
        pc = parent.pub.child(i)
        if pc.point != ck * pecc.G:
            probs.append("public child point != private child neutered")
        if pc.chain_code != ccc:
            probs.append("public child chain code")
    else:
        try:
            parent.pub.child(i)
            probs.append("hardened public derivation not refused")
        except ValueError:
            pass
    hist = " (after earlier derivations on the same parent objects and on an extended key with the same key and another chain code)" if "index0" in w else ""
    return {"violated": bool(probs), "observed": f"k={k:#x} chain code {cc.hex()} index={i}{hist}: differs from BIP32 in {probs or 'nothing'}"}


# ---------------------------------------------------------------------------------------- O2 codec

@with_env("hd")
def _codec_path(e, priv, vi):
    hd = loader.load("hd")
    F = e.fld
    k, cc, depth, pfp, cn, parent = _mk_parent(e, hd)
    versions = sorted(hd.ALL_MAINNET_XPRVS | hd.ALL_TESTNET_XPRVS) if priv else sorted(hd.ALL_MAINNET_XPUBS | hd.ALL_TESTNET_XPUBS)
    ver = versions[vi % len(versions)]

    def wit(env):
        return {"k": env["k"], "cc": bytes_env(env, "cc", 32).hex(), "depth": env["depth"], "pfp": bytes_env(env, "pfp", 4).hex(),
                "cn": env["cn"], "priv": priv, "version": ver.hex()}
    if priv:
        raw = parent.raw_serialize(ver)
        want = ver + core.sbytes(SBytes([depth])) + pfp + cn.to_bytes(4, "big") + cc + b"\x00" + k.to_bytes(32, "big")
        check((len(raw) == 78) and (raw == want), "xprv layout (version, depth, fingerprint, child number, chain code, 00 || key)", witness=wit)
        back = hd.HDPrivateKey.raw_parse(shims.BytesIOShim(raw))
        check(s_and(back.private_key.secret == k, back.chain_code == cc, back.depth == depth, back.parent_fingerprint == pfp,
                    back.child_number == cn, back.priv_version == ver), "raw_parse(raw_serialize(xprv)) != xprv", witness=wit)
        check((back.network == "mainnet") == (ver in hd.ALL_MAINNET_XPRVS), "network inferred from the version bytes", witness=wit)
        check(back.raw_serialize(ver) == raw, "re-serialisation differs", witness=wit)
    else:
        pub = parent.pub
        raw = pub._serialize(ver)
        want = ver + core.sbytes(SBytes([depth])) + pfp + cn.to_bytes(4, "big") + cc + spec_sec(e, k)
        check((len(raw) == 78) and (raw == want), "xpub layout", witness=wit)
        back = hd.HDPublicKey.raw_parse(shims.BytesIOShim(raw))
        check(F.same(back.point.d, k) and s_and(back.chain_code == cc, back.depth == depth, back.parent_fingerprint == pfp,
                                                 back.child_number == cn, back.pub_version == ver), "raw_parse(serialize(xpub)) != xpub", witness=wit)
        check(back._serialize(ver) == raw, "re-serialisation differs", witness=wit)
    return "ok"


class _B58(str):
    """stand-in for the Base58Check text of a payload (the text layer is C09's): remembers the raw bytes"""
    def __new__(cls, raw):
        o = str.__new__(cls, "<base58check>")
        o.raw = raw
        return o


@with_env("hd")
def _codec_history_path(e, order):
    """one object, several serialisations in different orders: every call must give the layout for the version asked for
    (the extended-key text must not depend on what was serialised earlier on the same object)"""
    hd = loader.load("hd")
    k, cc, depth, pfp, cn, parent = _mk_parent(e, hd)
    saved = hd.encode_base58_checksum
    hd.encode_base58_checksum = lambda raw: _B58(raw)
    try:
        pub = parent.pub
        zpub = bytes.fromhex("04b24746")
        default = hd.XPUB["mainnet"]
        body = core.sbytes(SBytes([depth])) + pfp + cn.to_bytes(4, "big") + cc + spec_sec(e, k)
        wit = lambda env: {"k": env["k"], "cc": bytes_env(env, "cc", 32).hex(), "order": list(order)}  # noqa
        for step in order:
            if step == "raw":
                got, ver = pub.raw_serialize(), default
            elif step == "xpub":
                got, ver = pub.xpub().raw, default
            elif step == "zpub":
                got, ver = pub.xpub(version=zpub).raw, zpub
            elif step == "priv.xpub-z":
                got, ver = parent.xpub(version=zpub).raw, zpub
            else:
                got, ver = parent.xprv().raw, None
            if ver is None:
                want = hd.XPRV["mainnet"] + core.sbytes(SBytes([depth])) + pfp + cn.to_bytes(4, "big") + cc + b"\x00" + k.to_bytes(32, "big")
            else:
                want = ver + body
            check((len(got) == 78) and (got == want), f"after {order}: step {step} does not serialise the key with the requested version", witness=wit)
        return "ok"
    finally:
        hd.encode_base58_checksum = saved


def ob_codec_history():
    import itertools
    steps = ("raw", "xpub", "zpub", "priv.xpub-z", "xprv")
    orders = [o for n in (2, 3) for o in itertools.permutations(steps, n)]
    runs = [sym_run(lambda: _codec_history_path(o), mode="int", timeout_ms=60000) for o in orders]
    m = merge_runs(runs)
    m["sample"] = {"object": "one HDPrivateKey / its .pub with symbolic fields", "histories": len(orders), "steps": list(steps)}
    return m


def replay_codec_history(w):
    from buidl import hd, pecc, helper
    parent = hd.HDPrivateKey(pecc.PrivateKey(w["k"]), bytes.fromhex(w["cc"]))
    pub = parent.pub
    zpub = bytes.fromhex("04b24746")
    bad = []
    for step in w["order"]:
        if step == "raw":
            got, ver = pub.raw_serialize(), hd.XPUB["mainnet"]
        elif step == "xpub":
            got, ver = helper.raw_decode_base58(pub.xpub()), hd.XPUB["mainnet"]
        elif step == "zpub":
            got, ver = helper.raw_decode_base58(pub.xpub(version=zpub)), zpub
        elif step == "priv.xpub-z":
            got, ver = helper.raw_decode_base58(parent.xpub(version=zpub)), zpub
        else:
            got, ver = helper.raw_decode_base58(parent.xprv()), hd.XPRV["mainnet"]
        if got[:4] != ver:
            bad.append(f"{step}: version {got[:4].hex()} instead of {ver.hex()}")
    return {"violated": bool(bad), "observed": f"history {w['order']}: {bad}"}


def ob_codec(priv):
    runs = [sym_run(lambda: _codec_path(priv, vi), mode="int", timeout_ms=60000) for vi in range(10)]
    m = merge_runs(runs)
    m["sample"] = {"kind": "xprv" if priv else "xpub", "fields": "all symbolic", "versions": 10}
    return m


def replay_codec(w):
    from buidl import hd, pecc
    from io import BytesIO
    ver = bytes.fromhex(w["version"])
    parent = hd.HDPrivateKey(pecc.PrivateKey(w["k"]), bytes.fromhex(w["cc"]), depth=w["depth"], parent_fingerprint=bytes.fromhex(w["pfp"]),
                             child_number=w["cn"])
    if w["priv"]:
        raw = parent.raw_serialize(ver)
        back = hd.HDPrivateKey.raw_parse(BytesIO(raw))
        bad = len(raw) != 78 or back.private_key.secret != w["k"] or back.raw_serialize(ver) != raw or back.depth != w["depth"]
    else:
        raw = parent.pub._serialize(ver)
        back = hd.HDPublicKey.raw_parse(BytesIO(raw))
        bad = len(raw) != 78 or back.point != parent.pub.point or back._serialize(ver) != raw
    return {"violated": bad, "observed": f"version {w['version']} priv={w['priv']}"}


# ---------------------------------------------------------------------------------------- O3 composition

PATHS = [("m/0", [0]), ("m/0'", [0x80000000]), ("M/1H/2", [0x80000001, 2]), ("m/44h/0h/7'", [0x8000002C, 0x80000000, 0x80000007]),
         ("m/2147483647/0/1/2", [0x7FFFFFFF, 0, 1, 2]), ("m/1/2'/3h/4H", [1, 0x80000002, 0x80000003, 0x80000004])]
LONG_PATHS = [("m/0/1/2/3/4/5", list(range(6))), ("m/48h/1h/0h/2h/0/5", [0x80000030, 0x80000001, 0x80000000, 0x80000002, 0, 5])]


@with_env("hd")
def _traverse_path(e, path, idxs):
    hd = loader.load("hd")
    F = e.fld
    k, cc, depth, pfp, cn, parent = _mk_parent(e, hd)
    wit = lambda env: {"k": env["k"], "cc": bytes_env(env, "cc", 32).hex(), "path": path}  # noqa
    # one CKD at a time, by hand
    cur_k, cur_cc = k, cc
    for i in idxs:
        if i >= 0x80000000:
            data = b"\x00" + field.lift_si(cur_k).to_bytes(32, "big") + i.to_bytes(4, "big")
        else:
            data = spec_sec(e, cur_k) + i.to_bytes(4, "big")
        I = hmac512(cur_cc, data)
        IL = core.int_from_bytes(I[:32], "big")
        assume(IL < N)
        cur_k = F.reduce(field.lift_si(IL) + field.lift_si(cur_k))
        assume(wrapb(core.b_not(F.is_zero_cond(field.lift_si(cur_k)))))
        cur_cc = I[32:]
    try:
        got = parent.traverse(path)
    except Exception as ex:
        check(False, f"traverse raised {type(ex).__name__}", witness=wit)
        return "raised"
    check(F.same(got.private_key.secret, cur_k) and bool(got.chain_code == cur_cc), "traverse(path) differs from deriving its components one by one", witness=wit)
    check(got.depth == depth + len(idxs), "depth after traverse", witness=wit)
    if all(i < 0x80000000 for i in idxs):
        gp = parent.pub.traverse(path)
        check(F.same(gp.point.d, cur_k) and bool(gp.chain_code == cur_cc), "public traverse differs from private traverse", witness=wit)
    else:
        try:
            parent.pub.traverse(path)
            check(False, "public traverse through a hardened component was not refused", witness=wit)
        except ValueError:
            check(True, "refused")
    return "ok"


def ob_traverse(which):
    sel = [(p, ix) for p, ix in (PATHS + LONG_PATHS) if p in which]
    runs = [sym_run(lambda: _traverse_path(p, ix), mode="int", timeout_ms=120000) for p, ix in sel]
    m = merge_runs(runs)
    m["sample"] = {"paths": [p for p, _ in sel], "key material": "symbolic"}
    return m


def replay_traverse(w):
    from buidl import hd, pecc
    k, cc = w["k"], bytes.fromhex(w["cc"])
    parent = hd.HDPrivateKey(pecc.PrivateKey(k), cc)
    idxs = dict(PATHS + LONG_PATHS)[w["path"]]
    ck, ccc = k, cc
    for i in idxs:
        ck, ccc = ref_ckd_priv(ck, ccc, i)
    got = parent.traverse(w["path"])
    return {"violated": got.private_key.secret != ck or got.chain_code != ccc, "observed": f"path {w['path']}"}


# ---------------------------------------------------------------------------------------- O4 path bookkeeping of blind_xpub (concrete)

def ref_parse_path(path):
    """independent BIP32 path reader: 'm', then /index with an optional hardened marker (', h or H)"""
    t = path.strip()
    assert t[:1] in ("m", "M"), path
    out = []
    for comp in [c for c in t[1:].split("/") if c != ""]:
        hard = comp[-1] in "'hH"
        n = int(comp[:-1] if hard else comp)
        assert 0 <= n < 2 ** 31, path
        out.append(n + (0x80000000 if hard else 0))
    return out


def path_shapes(maxc):
    comps = [f"{i}{mk}" for i in (0, 44, 2147483647) for mk in ("", "'", "h", "H")]
    out = ["m"]
    level = ["m"]
    for _ in range(maxc):
        level = [p + "/" + c for p in level for c in comps]
        out += level
    return out


def _path_facts(mod_blinding, mod_hd, maxc, nblind):
    """combine_bip32_paths(a, b) reads as index list(a) + index list(b) for every pair of renderings; blind_xpub returns the key at
    the combined path from the root.  Strings carry no symbolic content in this engine, so this obligation is an enumerated
    structural fact (engine 'concrete', not solver evidence); every failure is replayed on the native code."""
    paths = path_shapes(maxc)
    variants = lambda p: (p, " " + p + " ", p.upper() if p != "m" else "M")  # noqa
    for a in paths:
        for b in paths:
            for av in variants(a)[:2 if len(paths) > 200 else 3]:
                try:
                    got = mod_blinding.combine_bip32_paths(av, b)
                    if ref_parse_path(got) != ref_parse_path(a) + ref_parse_path(b):
                        return False, {"first": av, "second": b, "got": got}
                except Exception as ex:
                    return False, {"first": av, "second": b, "got": "raised " + repr(ex)}
    # blind_xpub on a few starting depths with hardened tails in every notation
    root = mod_hd.HDPrivateKey.from_seed(bytes(range(1, 33)), network="mainnet")
    count = 0
    for sp in [p for p in paths if p != "m"][:nblind] + ["m/48'/0'/0'/2'", "m/48h/0h/0h/2h", "m/1'", "m/0/2147483647'"]:
        acct = root.traverse(sp)
        for secret in ("m/5/7", "m/2147483647/0/1", "m/3"):
            try:
                r = mod_blinding.blind_xpub(acct.xpub(), sp, secret)
                full = r["blinded_full_path"]
                if ref_parse_path(full) != ref_parse_path(sp) + ref_parse_path(secret) or root.traverse(full).xpub() != r["blinded_child_xpub"]:
                    return False, {"blind": [sp, secret], "got": full}
            except Exception as ex:
                return False, {"blind": [sp, secret], "got": "raised " + repr(ex)}
            count += 1
    return True, {"pairs": len(paths) ** 2, "blinded": count}


def ob_paths(maxc, nblind):
    from symx import loader as _l
    bl, hdm = _l.native("blinding"), _l.native("hd")
    res = {}

    def fn():
        ok, d = _path_facts(bl, hdm, maxc, nblind)
        res["d"] = d
        return ok, (f"{d}" if ok else f"path bookkeeping differs from index-list concatenation: {d}")
    fn()
    ok = "pairs" in res["d"]
    return conc_run(lambda: (ok, str(res["d"])), "combine_bip32_paths / blind_xpub: combined path == concatenated index lists, key at combined path == blinded key",
                    replay="paths", witness=res["d"] if not ok else {})


def replay_paths(w):
    from buidl import blinding, hd
    if "blind" in w:
        sp, secret = w["blind"]
        root = hd.HDPrivateKey.from_seed(bytes(range(1, 33)), network="mainnet")
        try:
            r = blinding.blind_xpub(root.traverse(sp).xpub(), sp, secret)
        except Exception as ex:
            return {"violated": True, "observed": f"blind_xpub(xpub at {sp!r}, {sp!r}, {secret!r}) raised {ex!r}"}
        full = r["blinded_full_path"]
        bad = ref_parse_path(full) != ref_parse_path(sp) + ref_parse_path(secret) or root.traverse(full).xpub() != r["blinded_child_xpub"]
        return {"violated": bad, "observed": f"blind_xpub(xpub at {sp!r}, {sp!r}, {secret!r}) -> full path {full!r}; the key at that path from the root "
                                             f"{'is not' if bad else 'is'} the blinded child key"}
    a, b = w["first"], w["second"]
    try:
        got = blinding.combine_bip32_paths(a, b)
    except Exception as ex:
        return {"violated": True, "observed": f"combine_bip32_paths({a!r}, {b!r}) raised {ex!r}"}
    want = ref_parse_path(a) + ref_parse_path(b)
    return {"violated": ref_parse_path(got) != want, "observed": f"combine_bip32_paths({a!r}, {b!r}) = {got!r}; index lists {ref_parse_path(got)} vs {want}"}


# ---------------------------------------------------------------------------------------- O5 children under every network / version prefix

NETWORKS = ("mainnet", "testnet", "signet", "regtest")
ENGINE_SIGNALS = (core.Unsupported, core.Inconclusive)      # not outcomes of the code under test


def _fresh_buidl():
    """a history is a statement about one process: replay each one on freshly imported library modules (the runner replays several
    witnesses in one process, and a change under test may keep module- or class-level state)"""
    import sys
    for name in [n for n in sys.modules if n == "buidl" or n.startswith("buidl.")]:
        del sys.modules[name]
ACCOUNT_PATH = {"mainnet": "m/48h/0h/0h/2h", "testnet": "M/48'/1'/0'/2'"}


def _family(hd, net, priv=False):
    """the ten known version prefixes of a network's family (SLIP-132 does not tell the test networks apart)"""
    if priv:
        return sorted(hd.ALL_MAINNET_XPRVS if net == "mainnet" else hd.ALL_TESTNET_XPRVS)
    return sorted(hd.ALL_MAINNET_XPUBS if net == "mainnet" else hd.ALL_TESTNET_XPUBS)


def _sym_version(name, family):
    """a version prefix chosen by the solver among the known ones"""
    v = SBytes.sym(name, 4)
    assume(s_or(*[v == x for x in family]))
    return v


def _spec_ckd(e, cur_k, cur_cc, i):
    """one BIP32 CKD step on the discrete log; the invalid cases (IL >= n, zero key) are assumed away (META)"""
    F = e.fld
    if i >= 0x80000000:
        data = b"\x00" + field.lift_si(cur_k).to_bytes(32, "big") + i.to_bytes(4, "big")
    else:
        data = spec_sec(e, cur_k) + i.to_bytes(4, "big")
    I = hmac512(cur_cc, data)
    IL = core.int_from_bytes(I[:32], "big")
    assume(IL < N)
    nk = F.reduce(field.lift_si(IL) + field.lift_si(cur_k))
    assume(wrapb(core.b_not(F.is_zero_cond(field.lift_si(nk)))))
    return nk, I[32:]


@with_env("hd")
def _guise_path(e, net1, net2):
    """two HDPublicKey objects for the same extended public key (point, chain code, depth, fingerprint, child number), each on its own
    network and with its own version prefix (solver's choice among the ten of the network's family): the first derives some other child
    and the child with the index in question, then the second derives that child.  The second object's child is the BIP32 child and is
    an extended key of the second parent's network and version prefix, whatever the first object did."""
    hd = loader.load("hd")
    F = e.fld
    k = SI.var("k", 1, N - 1)

    cc, depth, pfp, cn = SBytes.sym("cc", 32), SI.var("depth", 0, 254), SBytes.sym("pfp", 4), SI.var("cn", 0, (1 << 32) - 1)
    verA, ver = _sym_version("verA", _family(hd, net1)), _sym_version("ver", _family(hd, net2))
    A = hd.HDPublicKey(e.pecc.PrivateKey(k).point, cc, depth, pfp, cn, network=net1, pub_version=verA)
    B = hd.HDPublicKey(e.pecc.PrivateKey(k).point, cc, depth, pfp, cn, network=net2, pub_version=ver)
    idx0 = SI.var("index0", 0, 0x7FFFFFFF)
    idx = SI.var("index", 0, 0x7FFFFFFF)

    def wit(env):
        return {"k": env["k"], "net1": net1, "net2": net2, "index0": env["index0"], "index": env["index"], "cc": bytes_env(env, "cc", 32).hex(),
                "pfp": bytes_env(env, "pfp", 4).hex(), "depth": env["depth"], "cn": env["cn"], "verA": bytes_env(env, "verA", 4).hex(),
                "ver": bytes_env(env, "ver", 4).hex()}
    psec = spec_sec(e, k)
    assume(s_not(idx0 == idx))
    _spec_ckd(e, k, cc, idx0)       # (only for its assumptions: the first object's derivations are valid BIP32 derivations too)
    child_k, child_cc = _spec_ckd(e, k, cc, idx)
    saved = hd.encode_base58_checksum
    hd.encode_base58_checksum = lambda raw: _B58(raw)
    try:
        for i0 in (idx0, idx):
            try:
                A.child(i0)
            except (ValueError, RuntimeError):      # what the first object answers is not this obligation's business
                pass
        try:
            pc = B.child(idx)
        except ENGINE_SIGNALS:
            raise
        except Exception as ex:
            check(False, f"public child() raised {type(ex).__name__} for a non-hardened index after another object derived a child", witness=wit)
            return "raised"
        try:
            # identically the same group element; failing that (a key that was put together from other symbols), the same SEC bytes for the solver
            check(F.same(pc.point.d, child_k) or (pc.point.sec() == spec_sec(e, child_k)),
                  "public child point differs from BIP32 after another object for the same key derived a child", witness=wit)
            check(s_and(pc.chain_code == child_cc, pc.depth == depth + 1, pc.child_number == idx, pc.parent_fingerprint == h160(psec)[:4]),
                  "public child chain code / depth / child number / fingerprint differ from BIP32 after another object derived a child", witness=wit)
            check((pc.network == net2) and (pc.pub_version == ver),
                  "public child is not on its own parent's network / does not carry its own parent's version prefix", witness=wit)
            body = core.sbytes(SBytes([depth + 1])) + h160(psec)[:4] + idx.to_bytes(4, "big") + child_cc + spec_sec(e, child_k)
            got = pc.xpub().raw
            check((len(got) == 78) and (got == ver + body), "child xpub() is not its parent's version prefix followed by the BIP32 child fields", witness=wit)
            got = pc.raw_serialize()
            check((len(got) == 78) and (got == hd.XPUB[net2] + body), "child raw_serialize() is not its network's default prefix followed by the BIP32 child fields",
                  witness=wit)
        except ENGINE_SIGNALS:
            raise
        except Exception as ex:     # e.g. the object handed out is not a usable key (no point)
            check(False, f"the derived child could not be inspected / serialised ({type(ex).__name__})", witness=wit)
            return "raised"
        return "ok"
    finally:
        hd.encode_base58_checksum = saved


def ob_guises(net1, net2):
    m = merge_runs([sym_run(lambda: _guise_path(net1, net2), mode="int", timeout_ms=20000, max_violations=3)])
    if "'ok'" not in m["classes"]:
        m["inconclusive"].append("reachability twin: class 'ok' missing")
    m["sample"] = {"extended key": "point, chain code, depth, fingerprint, child number symbolic",
                   "first object": f"on {net1}, prefix one of the 10 of its family (symbolic)", "second object": f"on {net2}, prefix one of the 10 of its family (symbolic)",
                   "indexes": "symbolic in [0, 2^31): the first object derives another index and the same index, then the second derives it"}
    return m


def _ref_h160(b):
    import hashlib
    try:
        return hashlib.new("ripemd160", hashlib.sha256(b).digest()).digest()
    except ValueError:       # OpenSSL without ripemd160
        from buidl.helper import hash160
        return hash160(b)


def replay_guise(w):
    _fresh_buidl()
    from buidl import hd, pecc, helper
    k = w["k"]

    def mk(net, ver):
        return hd.HDPublicKey(k * pecc.G, bytes.fromhex(w["cc"]), w["depth"], bytes.fromhex(w["pfp"]), w["cn"], network=net, pub_version=bytes.fromhex(ver))
    A, B = mk(w["net1"], w["verA"]), mk(w["net2"], w["ver"])
    for i0 in (w["index0"], w["index"]):
        try:
            A.child(i0)
        except (ValueError, RuntimeError):
            pass
    i, ver = w["index"], bytes.fromhex(w["ver"])
    ck, ccc = ref_ckd_priv(k, bytes.fromhex(w["cc"]), i)
    want = bytes([w["depth"] + 1]) + _ref_h160((k * pecc.G).sec())[:4] + i.to_bytes(4, "big") + ccc + (ck * pecc.G).sec()
    pc = B.child(i)
    probs = []
    if pc.network != w["net2"]:
        probs.append(f"child network {pc.network!r}, parent network {w['net2']!r}")
    if pc.pub_version != ver:
        probs.append(f"child version prefix {pc.pub_version.hex()}, parent's {ver.hex()}")
    got = helper.raw_decode_base58(pc.xpub())
    if got != ver + want:
        probs.append(f"xpub() payload {got.hex()} instead of {(ver + want).hex()}")
    if pc.raw_serialize() != hd.XPUB[w["net2"]] + want:
        probs.append("raw_serialize() differs from the network prefix followed by the BIP32 child fields")
    return {"violated": bool(probs), "observed": f"object 1 ({w['net1']}, prefix {w['verA']}) derived children {w['index0']} and {w['index']}, then object 2 for the same extended key "
                                                 f"({w['net2']}, prefix {w['ver']}) derived child {i}: {probs or 'as BIP32 / own prefix'}"}


BLIND_SECRETS = ("m/7/2147483647", "m/7")


def _blind_calls(hd, net):
    """the history of blind_xpub calls on one account key: its text under each of the family's ten version prefixes in turn (the set
    lookup of the prefix in raw_parse needs concrete prefixes), the secret path changing every second call"""
    return [(ver, BLIND_SECRETS[(j // 2) % 2]) for j, ver in enumerate(_family(hd, net))]


@with_env("hd", "blinding")
def _blind_guise_path(e, net):
    """blind_xpub on the texts of ONE account key under the ten version prefixes of its family, one after the other in one process:
    each result is the key at the combined path, serialised under the prefix that was handed in"""
    hd, bl = loader.load("hd"), loader.load("blinding")
    k = SI.var("k", 1, N - 1)
    cc, pfp, cn = SBytes.sym("cc", 32), SBytes.sym("pfp", 4), SI.var("cn", 0, (1 << 32) - 1)
    sp = ACCOUNT_PATH[net]
    depth = sp.count("/")
    acct = hd.HDPublicKey(e.pecc.PrivateKey(k).point, cc, depth, pfp, cn, network=net)
    wit = lambda env: {"k": env["k"], "cc": bytes_env(env, "cc", 32).hex(), "pfp": bytes_env(env, "pfp", 4).hex(), "cn": env["cn"], "net": net}  # noqa
    saved = hd.encode_base58_checksum, hd.raw_decode_base58
    hd.encode_base58_checksum = lambda raw: _B58(raw)
    hd.raw_decode_base58 = lambda s: s.raw
    try:
        for n, (ver, secret) in enumerate(_blind_calls(hd, net), 1):
            idxs = ref_parse_path(secret)
            ck, ccc, pk = k, cc, k
            for i in idxs:
                pk = ck
                ck, ccc = _spec_ckd(e, ck, ccc, i)
            want = ver + bytes([depth + len(idxs)]) + h160(spec_sec(e, pk))[:4] + idxs[-1].to_bytes(4, "big") + ccc + spec_sec(e, ck)
            try:
                r = bl.blind_xpub(acct.xpub(version=ver), sp, secret)
            except ENGINE_SIGNALS:
                raise
            except Exception as ex:
                check(False, f"blind_xpub call {n} raised {type(ex).__name__}", witness=wit)
                return "raised"
            got = r["blinded_child_xpub"].raw
            check((len(got) == 78) and (got == want), f"blind_xpub call {n} (prefix {ver.hex()}): not the key at the combined path under the version prefix handed in",
                  witness=wit)
            check(ref_parse_path(r["blinded_full_path"]) == ref_parse_path(sp) + idxs, f"blind_xpub call {n}: combined path", witness=wit)
        return "ok"
    finally:
        hd.encode_base58_checksum, hd.raw_decode_base58 = saved


def ob_blind_guises():
    runs = [sym_run(lambda: _blind_guise_path(net), mode="int", timeout_ms=60000, max_violations=6) for net in ("mainnet", "testnet")]
    m = merge_runs(runs)
    if "'ok'" not in m["classes"]:
        m["inconclusive"].append("reachability twin: class 'ok' missing")
    m["sample"] = {"account key": "symbolic point / chain code / fingerprint / child number at depth 4", "history": "its text under each of the 10 prefixes of the family, "
                   "blinded one after the other", "secret paths": list(BLIND_SECRETS)}
    return m


def replay_blind_guise(w):
    _fresh_buidl()
    from buidl import hd, pecc, helper, blinding
    k, net = w["k"], w["net"]
    sp = ACCOUNT_PATH[net]
    acct = hd.HDPublicKey(k * pecc.G, bytes.fromhex(w["cc"]), sp.count("/"), bytes.fromhex(w["pfp"]), w["cn"], network=net)
    probs = []
    for n, (ver, secret) in enumerate(_blind_calls(hd, net), 1):
        idxs = ref_parse_path(secret)
        ck, ccc, pk = k, bytes.fromhex(w["cc"]), k
        for i in idxs:
            pk = ck
            ck, ccc = ref_ckd_priv(ck, ccc, i)
        want = ver + bytes([sp.count("/") + len(idxs)]) + _ref_h160((pk * pecc.G).sec())[:4] + idxs[-1].to_bytes(4, "big") + ccc + (ck * pecc.G).sec()
        try:
            r = blinding.blind_xpub(acct.xpub(version=ver), sp, secret)
        except Exception as ex:
            probs.append(f"call {n} raised {ex!r}")
            continue
        got = helper.raw_decode_base58(r["blinded_child_xpub"])
        if got != want:
            probs.append(f"call {n} (prefix {ver.hex()}, secret path {secret}): payload starts {got[:4].hex()}, "
                         f"{'key fields as expected' if got[4:] == want[4:] else 'key fields differ too'}")
        if ref_parse_path(r["blinded_full_path"]) != ref_parse_path(sp) + idxs:
            probs.append(f"call {n}: combined path {r['blinded_full_path']!r}")
    return {"violated": bool(probs), "observed": f"blind_xpub on the texts of one {net} account key under the family's prefixes one after the other: "
                                                 f"{probs[:3] or 'all as expected'}"}


# ---------------------------------------------------------------------------------------- O6 histories of traverse() on one public key object

def _render(path, mk, up=False):
    """mk: marker for hardened components; up: upper-case M"""
    comps = [c[:-1] + mk if c[-1] == "h" else c for c in path.split("/")[1:]]
    return "/".join(["M" if up else "m"] + comps)


def history_paths(alphabet, maxc):
    out, level = [], ["m"]
    for _ in range(maxc):
        level = [p + "/" + c for p in level for c in alphabet]
        out += level
    return out


def histories(alphabet, maxc, n):
    """every sequence of n paths with up to maxc components over the alphabet; the rendering of the hardened marker rotates with the
    position so that all three occur in every position"""
    import itertools
    ps = history_paths(alphabet, maxc)
    out = []
    for num, h in enumerate(itertools.product(ps, repeat=n)):
        out.append(tuple(_render(p, "h'H"[(num + 2 * j) % 3]) for j, p in enumerate(h)))
    return out


@with_env("hd")
def _traverse_history_path(e, hist):
    """several traverse() calls on ONE HDPublicKey object: every call, whatever came before it (refused calls included), is refused
    iff its path has a hardened component and otherwise returns the key that deriving the components one by one gives"""
    hd = loader.load("hd")
    F = e.fld
    k, cc, depth, pfp, cn, parent = _mk_parent(e, hd)
    pub = parent.pub
    wit = lambda env: {"k": env["k"], "cc": bytes_env(env, "cc", 32).hex(), "depth": env["depth"], "history": list(hist)}  # noqa
    memo = {(): (k, cc)}
    outcome = []
    for n, path in enumerate(hist, 1):
        idxs = ref_parse_path(path)
        hard = any(i >= 0x80000000 for i in idxs)
        # component by component, by hand, as far as public derivation can go (the invalid BIP32 cases are assumed away on the way)
        done = ()
        for i in idxs:
            if i >= 0x80000000:
                break
            if done + (i,) not in memo:
                memo[done + (i,)] = _spec_ckd(e, memo[done][0], memo[done][1], i)
            done += (i,)
        try:
            got = pub.traverse(path)
        except ENGINE_SIGNALS:
            raise
        except Exception as ex:
            check(hard, f"call {n} of the history: traverse raised {type(ex).__name__} for a path without hardened components", witness=wit)
            outcome.append("refused")
            continue
        if hard:
            check(False, f"call {n} of the history: public traverse through a hardened component was not refused", witness=wit)
            outcome.append("not refused")
            continue
        ck, ccc = memo[done]
        check(F.same(got.point.d, ck), f"call {n} of the history: traverse(path) is not the key its components give one by one", witness=wit)
        check(got.chain_code == ccc, f"call {n} of the history: chain code", witness=wit)
        pfp_want = h160(spec_sec(e, memo[done[:-1]][0]))[:4] if idxs else pfp
        check(s_and(got.depth == depth + len(idxs), got.child_number == (idxs[-1] if idxs else cn), got.parent_fingerprint == pfp_want),
              f"call {n} of the history: depth / child number / parent fingerprint", witness=wit)
        outcome.append("key")
    return ",".join(outcome)


def _history_runs(hs, max_violations=6):
    runs = [sym_run(lambda: _traverse_history_path(h), mode="int", timeout_ms=60000, max_violations=max_violations) for h in hs]
    m = merge_runs(runs)
    seen = {o for c in m["classes"] for o in c.strip("'").split(",")}
    hard = [any(i >= 0x80000000 for i in ref_parse_path(p)) for h in hs for p in h]
    for cls, expected in (("refused", any(hard)), ("key", not all(hard))):
        if expected and cls not in seen:
            m["inconclusive"].append(f"reachability twin: no call with outcome {cls!r}")
    m["sample"] = {"object": "one HDPublicKey with symbolic point / chain code", "histories": len(hs), "first": list(hs[0]), "last": list(hs[-1])}
    return m


def ob_traverse_history(alphabet, maxc, n, part, parts):
    return _history_runs(histories(alphabet, maxc, n)[part::parts])


UPPER_M = (("M/7",), ("M/0/2147483647",), ("m/7", "M/7/0"))


def ob_traverse_upper_m():
    """the leading M in upper case (BIP32's own notation for public derivation) on a public key; kept apart from the histories, which
    use a lower-case m, because the unchanged library refuses it"""
    return _history_runs(list(UPPER_M), max_violations=1)


def replay_traverse_history(w):
    _fresh_buidl()
    from buidl import hd, pecc
    k, cc, depth = w["k"], bytes.fromhex(w["cc"]), w.get("depth", 0)
    pub = hd.HDPublicKey.parse(hd.HDPrivateKey(pecc.PrivateKey(k), cc, depth=depth).xpub())
    probs = []
    for n, path in enumerate(w["history"], 1):
        idxs = ref_parse_path(path)
        hard = any(i >= 0x80000000 for i in idxs)
        try:
            got = pub.traverse(path)
        except Exception as ex:
            if not hard:
                probs.append(f"call {n} traverse({path!r}) raised {ex!r}")
            continue
        if hard:
            probs.append(f"call {n} traverse({path!r}) was not refused (returned a key at depth {got.depth}, child number {got.child_number})")
            continue
        ck, ccc, pk = k, cc, k
        for i in idxs:
            pk = ck
            ck, ccc = ref_ckd_priv(ck, ccc, i)
        if got.point != ck * pecc.G or got.chain_code != ccc:
            probs.append(f"call {n} traverse({path!r}) is not the key its components give one by one")
        elif idxs and (got.depth != depth + len(idxs) or got.child_number != idxs[-1] or got.parent_fingerprint != _ref_h160((pk * pecc.G).sec())[:4]):
            probs.append(f"call {n} traverse({path!r}): depth / child number / parent fingerprint")
    return {"violated": bool(probs), "observed": f"one HDPublicKey object, history {w['history']}: {probs or 'every call as specified'}"}


# O7 is red on the unchanged library (HDPublicKey.traverse checks startswith("m") before lower-casing, so "M/7" is refused although
# HDPrivateKey.traverse and is_valid_bip32_path accept it): reported, and not registered until it is fixed or listed as a known finding
REGISTER_UPPER_M = True
HIST_QUICK = (("0", "7", "1h"), 2)
HIST_THOROUGH = [(("0", "1h"), 3, 2), (("0", "1h"), 2, 3)]


def obligations(tier):
    q = tier == "quick"
    return [Ob("O1-child", ob_child, replay="child"), Ob("O2-codec", ob_codec, {"priv": True}, replay="codec"),
            Ob("O2-codec", ob_codec, {"priv": False}, replay="codec"), Ob("O2-codec-history", ob_codec_history, replay="codec_history"),
            Ob("O4-blinding-paths-concrete", ob_paths, {"maxc": 2, "nblind": 30 if q else 157}, replay="paths"),
            Ob("O3-traverse", ob_traverse, {"which": tuple(p for p, _ in PATHS)}, replay="traverse", budget_s=1800)] + \
        [Ob("O5-child-guises", ob_guises, {"net1": n1, "net2": n2}, replay="guise", budget_s=1200) for n1 in NETWORKS for n2 in NETWORKS] + \
        [Ob("O5-blind-guises", ob_blind_guises, replay="blind_guise", budget_s=600)] + \
        [Ob("O6-traverse-history", ob_traverse_history, {"alphabet": HIST_QUICK[0], "maxc": HIST_QUICK[1], "n": 2, "part": p, "parts": 6},
            replay="traverse_history", budget_s=1500) for p in range(6)] + \
        ([Ob("O7-public-traverse-upper-case-M", ob_traverse_upper_m, replay="traverse_history", budget_s=900)] if REGISTER_UPPER_M else []) + \
        ([] if q else [Ob("O3-traverse", ob_traverse, {"which": (p,)}, replay="traverse", budget_s=6000) for p, _ in LONG_PATHS] +
         [Ob("O6-traverse-history", ob_traverse_history, {"alphabet": a, "maxc": mc, "n": n, "part": p, "parts": 4}, replay="traverse_history", budget_s=6000)
          for a, mc, n in HIST_THOROUGH for p in range(4)])
