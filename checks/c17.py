"""C17 — Merkle roots, SPV inclusion proofs (BIP37 partial Merkle trees) and header proof of work (DESIGN.md section 3, C17).

Oracles (written here, independent of /repo, usable on proxies and on plain Python values):
  * the consensus Merkle tree (pairwise hash256, last element of an odd level duplicated),
  * Bitcoin Core's CPartialMerkleTree::TraverseAndBuild (BIP37) as the reference proof builder,
  * arith_uint256::SetCompact / GetCompact and pow.cpp CalculateNextWorkRequired / CheckProofOfWork.
hash256 is an uninterpreted function on symbolic input (same symbol on the implementation and on the oracle side).
"""
import hashlib

from symx import core, fpx, loader, shims
from symx.core import (SI, SBytes, Ratio, check, s_and, s_or, s_not, s_implies, norm, assume, wrapb, b_and, b_or, b_not, b_cmp)
from vlib.run import Ob, sym_run, merge_runs

PROPERTY = "C17"

TWO_WEEKS = 60 * 60 * 24 * 14
POW_LIMIT = (1 << 224) - 1  # mainnet powLimit 00000000ffff...ff
NO_WRAP = ((1 << 256) - 1) // (4 * TWO_WEEKS)  # previous targets up to here cannot wrap Core's 256-bit product

META = {
    "bounds": {
        "quick": {"merkle_root": "1..10 leaves, every leaf 32 symbolic bytes (also merkle_parent_level, Block.validate_merkle_root with a symbolic header root)",
                  "partial trees": "honest BIP37 proofs for blocks of 1..6 transactions, all 2^n match subsets (match bits are solver variables), "
                                   "symbolic txids and symbolic 80-byte header, through MerkleBlock.parse",
                  "soundness": "arbitrary proofs: block of n in 1..4 symbolic txids, claimed total in 1..4, 1..total symbolic 32-byte hashes, "
                               "8 symbolic flag bits; under injectivity of the hash calls made",
                  "tampering": "honest proofs for 1..4 transactions, all match subsets, each single hash replaced by an arbitrary different value",
                  "header": "all 80-byte headers (codec, hash, id); check_pow for all headers with bits exponent 1..32; "
                            "HeadersMessage of 1..3 symbolic headers (exponent from {3, 0x1d, 0x20})",
                  "compact bits": "bits_to_target / Block.target for all 4-byte bits with exponent 1..32; target_to_bits for all targets in [0, 2^256)",
                  "retarget": "calculate_new_bits for all bits with exponent 1..32, sign bit clear and target <= (2^256-1)/(4*TWO_WEEKS), "
                              "time differential symbolic in [-2^32, 2^32] (both clamps and the unclamped range)"},
        "thorough": {"merkle_root": "same", "partial trees": "1..10 transactions, all match subsets",
                     "soundness": "n and claimed total in 1..6, 1..total hashes, 16 flag bits", "tampering": "1..6 transactions",
                     "header": "HeadersMessage of 1..4 headers", "compact bits": "same", "retarget": "same"}},
    "outside": [
        "tree sizing: MerkleTree.__init__ uses math.ceil(math.log(total, 2)); floating-point log is outside every SMT theory used here. "
        "`total` is always a concrete shape parameter, so the expression is executed, not reasoned about (totals 1..10 only)",
        "trees with more than 10 leaves; total == 0",
        "proof-of-work boundary: Bitcoin Core accepts hash == target (hash <= target), buidl's check_pow uses hash < target. A header that "
        "separates the two needs a SHA-256 preimage, so no replayable witness exists; the oracle leaves the case hash == target open "
        "(both '<' and '<=' satisfy it) and demands the comparison everywhere else",
        "powLimit test of CheckProofOfWork (chain parameter; buidl's check_pow has no network argument)",
        "compact values with the sign bit (0x00800000) set: consensus decodes a negative or zero target that no hash satisfies; the "
        "oracle only demands that the decoded target admits no hash (<= 0 or an exception), not a particular value",
        "retargeting from a previous target above (2^256-1)/(4*TWO_WEEKS) ~ 2^233.8 (Core's 256-bit product may wrap; such a header is far "
        "above powLimit and cannot be part of a valid chain) and from sign-bit-set bits",
        "Block.difficulty (floating point)",
        "argument mutation by merkle_parent_level (the caller's list gets its last element appended on odd levels) is observed and reported "
        "as an outcome class, not flagged: the property speaks of the returned root only",
    ],
    "stubs": ["sha256 as an uninterpreted function on symbolic input (hash-consed: same input, same output symbol)", "print() empty"],
    "assumptions": [
        "soundness / tampering obligations: hash256 is injective on the finitely many hash calls made on the path (an instance "
        "f(x)=f(y) => x=y is added for every pair (call made while validating the proof, call made building the block's tree) "
        "of the same input length)",
        "soundness obligation: a transaction id is not the hash256 of a 64-byte node pair computed while validating the proof (excludes the "
        "64-byte-transaction ambiguity, CVE-2017-12842, which is inherent to Bitcoin's tree)",
        "Bitcoin Core semantics of SetCompact/GetCompact/CalculateNextWorkRequired/CPartialMerkleTree as transcribed in checks/c17.py",
        "floating-point arithmetic in the code under test (true division, int * float) follows the integer model of IEEE-754 doubles "
        "in symx/fpx.py (round to nearest even, normal range; cross-checked against the interpreter by probes/fpx_selftest.py)",
    ],
}

MANIFEST = {"technique": "symbolic execution of the real merkle / merkleblock / block / helper / network functions on symbolic byte strings "
                         "and integers (hash256 uninterpreted, injectivity instances where stated); consensus formulas transcribed as "
                         "independent specifications; z3 decides every path (bit-vectors; linear/non-linear integers for retargeting)"}


def H():
    return loader.load("helper")


# ------------------------------------------------------------------------------------------------ specifications

def spec_hash256(d):
    if isinstance(d, (bytes, bytearray)):
        return hashlib.sha256(hashlib.sha256(bytes(d)).digest()).digest()
    return shims._H("sha256", shims._H("sha256", d).digest()).digest()


def spec_levels(leaves):
    """consensus Merkle tree, bottom-up: levels[0] = leaves (internal byte order), levels[-1] = [root]"""
    lv = [list(leaves)]
    while len(lv[-1]) > 1:
        cur = lv[-1]
        if len(cur) % 2 == 1:
            cur = cur + [cur[-1]]
        lv.append([spec_hash256(cur[i] + cur[i + 1]) for i in range(0, len(cur), 2)])
    return lv


def spec_merkle_root(leaves):
    return spec_levels(leaves)[-1][0]


def tree_width(n, h):
    return (n + (1 << h) - 1) >> h


def tree_height(n):
    h = 0
    while tree_width(n, h) > 1:
        h += 1
    return h


def bip37_build(leaves, match):
    """CPartialMerkleTree::TraverseAndBuild: returns (flag bits, hashes).  leaves in internal byte order; match: list of
    bool / symbolic bool (a symbolic subtree test forks the path)."""
    n = len(leaves)
    lv = spec_levels(leaves)
    bits, hashes = [], []

    def traverse(h, pos):
        lo, hi = pos << h, min((pos + 1) << h, n)
        parent_of_match = bool(s_or(*[match[p] for p in range(lo, hi)]))
        bits.append(parent_of_match)
        if h == 0 or not parent_of_match:
            hashes.append(lv[h][pos])
        else:
            traverse(h - 1, 2 * pos)
            if 2 * pos + 1 < tree_width(n, h - 1):
                traverse(h - 1, 2 * pos + 1)
    traverse(tree_height(n), 0)
    return bits, hashes


def pack_flags(bits):
    out = bytearray((len(bits) + 7) // 8)
    for i, b in enumerate(bits):
        if b:
            out[i // 8] |= 1 << (i % 8)
    return bytes(out)


def spec_varint(n):
    if n < 0xFD:
        return bytes([n])
    assert n <= 0xFFFF
    return bytes([0xFD, n & 0xFF, n >> 8])


def le_int(b):
    if isinstance(b, (bytes, bytearray)):
        return int.from_bytes(b, "little")
    return core.int_from_bytes(b, "little")


def mkbytes(items):
    if all(isinstance(i, int) for i in items):
        return bytes(items)
    return norm(SBytes(list(items)))


def spec_set_compact(word, size):
    """arith_uint256::SetCompact. word = nCompact & 0xffffff (24 bits), size = nCompact >> 24 (concrete here).
    Returns (magnitude, sign_bit_set)"""
    mant = word & 0x7FFFFF
    if size <= 3:
        mag = mant >> (8 * (3 - size))
    else:
        mag = mant << (8 * (size - 3))
    return mag, (word & 0x800000) != 0


def nbytes(t):
    """(bits()+7)/8 for t in [0, 2^256): binary search over comparisons (forks on a symbolic t)"""
    lo, hi = 0, 32
    while lo < hi:
        mid = (lo + hi) // 2
        if t < (1 << (8 * mid)):
            hi = mid
        else:
            lo = mid + 1
    return lo


def spec_get_compact(t):
    """arith_uint256::GetCompact(fNegative=false) as the 4 little-endian bytes of nCompact"""
    size = nbytes(t)
    if size <= 3:
        c = t << (8 * (3 - size))
    else:
        c = t >> (8 * (size - 3))
    if c >= 0x800000:
        c = c >> 8
        size += 1
    return mkbytes([c & 0xFF, (c >> 8) & 0xFF, (c >> 16) & 0xFF, size])


def spec_next_bits(mag, td):
    """pow.cpp CalculateNextWorkRequired (mainnet parameters) from the previous target and the actual timespan"""
    t = td
    if t < TWO_WEEKS // 4:
        t = TWO_WEEKS // 4
    if t > TWO_WEEKS * 4:
        t = TWO_WEEKS * 4
    new = mag * t // TWO_WEEKS
    if new > POW_LIMIT:
        new = POW_LIMIT
    return spec_get_compact(new)


def spec_new_target(mag, td):
    """the new target of CalculateNextWorkRequired as one term (no fork on the powLimit cap)"""
    t = td
    if t < TWO_WEEKS // 4:
        t = TWO_WEEKS // 4
    if t > TWO_WEEKS * 4:
        t = TWO_WEEKS * 4
    new = mag * t // TWO_WEEKS
    if isinstance(new, int):
        return min(new, POW_LIMIT)
    return core.s_ite(new > POW_LIMIT, POW_LIMIT, new)


def compact_pred(r, new):
    """`r == GetCompact(new)` as a predicate (no path fork): r = 4 bytes whose size byte r[3] is concrete, new in [0, 2^256).
    GetCompact: size = byte length of new, mantissa = the top three bytes; a mantissa with bit 23 set is shifted down one more
    byte and the size goes up by one."""
    size = r[3]
    assert isinstance(size, int)
    word = le_int(r[0:3])

    def in_size(nb):
        if nb == 0:
            return new == 0
        return s_and(new >= (1 << (8 * (nb - 1))), new < (1 << (8 * nb)))

    def shifted(nb):
        return new << (8 * (3 - nb)) if nb <= 3 else new >> (8 * (nb - 3))
    cases = []
    if 0 <= size <= 32:
        cases.append(s_and(in_size(size), shifted(size) < 0x800000, word == shifted(size)))
    if 1 <= size <= 33:
        cases.append(s_and(in_size(size - 1), shifted(size - 1) >= 0x800000, word == (shifted(size - 1) >> 8)))
    return s_or(*cases)


def s_iff(a, b):
    return s_and(s_implies(a, b), s_implies(b, a))


def pin(name, value):
    """a fresh symbolic byte string constrained to equal `value`: comparisons against it are decided by the solver instead
    of by structural identity of hash-consed terms"""
    v = SBytes.sym(name, len(value))
    assume(v == value)
    return v


def sym32(name):
    """32 symbolic bytes backed by one 256-bit variable (big-endian), so that hash arguments lower to whole-variable terms"""
    v = SI.var(name, 0, (1 << 256) - 1)
    return SBytes([core.wrap(core.n_byte(v.n, 31 - i)) for i in range(32)])


def env32(env, name):
    return env[name].to_bytes(32, "big")


def _by_signature(calls):
    by = {}
    for fname, node in calls:
        lst = by.setdefault(fname, [])
        if node not in lst:
            lst.append(node)
    return by


def injectivity(calls_a, calls_b):
    """f(x) = f(y) => x = y for every pair (a, b) of distinct hash applications of the same signature, a made by the code
    under test (calls_a), b by the reference tree of the block (calls_b)"""
    A, B = _by_signature(calls_a), _by_signature(calls_b)
    conds = []
    for fname, nodes in A.items():
        for a in nodes:
            for b in B.get(fname, []):
                if a is b:
                    continue
                args_eq = b_and(*[b_cmp("eq", x, y) for x, y in zip(a.args[3:], b.args[3:])])
                conds.append(b_or(b_not(b_cmp("eq", a, b)), args_eq))
    return wrapb(b_and(*conds)), A


# ------------------------------------------------------------------------------------------------ O1 merkle root

def _root_path(n):
    h = H()
    blk = loader.load("block")
    del shims.HASH_CALLS[:]
    txids = [SBytes.sym(f"t{i}", 32) for i in range(n)]
    rootf = SBytes.sym("root", 32)
    leaves = [t[::-1] for t in txids]

    def wit(env):
        return {"txids": [core.bytes_env(env, f"t{i}", 32).hex() for i in range(n)], "root": core.bytes_env(env, "root", 32).hex()}
    want = pin("want", spec_merkle_root(leaves))
    arg = list(leaves)
    r = h.merkle_root(arg)
    check((len(r) == 32) and (r == want), "merkle_root differs from the consensus Merkle root", witness=wit)
    mutated = len(arg) != n or any(a is not b for a, b in zip(arg, leaves))
    # whatever the call left in the caller's list, its root is again the consensus root of that list
    want2 = pin("want2", spec_merkle_root(list(arg)))
    r2 = h.merkle_root(arg)
    check(r2 == want2, "second merkle_root call on the same (mutated) list differs from the consensus root of that list", witness=wit)
    if n >= 2:
        lvl = h.merkle_parent_level(list(leaves))
        e = spec_levels(leaves)[1]
        ok = len(lvl) == len(e)
        check(ok and s_and(*[a == pin(f"lv{i}", b) for i, (a, b) in enumerate(zip(lvl, e))]),
              "merkle_parent_level differs from the consensus parent level", witness=wit)
    b = blk.Block(1, b"\x00" * 32, rootf, 0, b"\xff\xff\x00\x1d", b"\x00" * 4, tx_hashes=list(txids))
    v = b.validate_merkle_root()
    check(s_iff(v, rootf == want[::-1]), "Block.validate_merkle_root is not 'header root == consensus root of the tx hashes'", witness=wit)
    check((len(b.tx_hashes) == n), "validate_merkle_root changed the block's tx_hashes", witness=wit)
    return "argument mutated" if mutated else "argument intact"


def ob_merkle_root(ns):
    runs = [sym_run(lambda: _root_path(n)) for n in ns]
    m = merge_runs(runs)
    m["sample"] = {"leaves": list(ns), "each leaf": "32 symbolic bytes", "observed": "merkle_root appends to its argument on odd levels: " + str(m["classes"])}
    return m


def replay_merkle_root(w):
    from buidl import helper, block
    txids = [bytes.fromhex(x) for x in w["txids"]]
    leaves = [t[::-1] for t in txids]
    want = spec_merkle_root(leaves)
    arg = list(leaves)
    r = helper.merkle_root(arg)
    bad = r != want
    r2 = helper.merkle_root(arg)
    bad = bad or r2 != spec_merkle_root(list(arg))
    if len(leaves) >= 2:
        bad = bad or helper.merkle_parent_level(list(leaves)) != spec_levels(leaves)[1]
    rootf = bytes.fromhex(w["root"])
    for rf in (rootf, want[::-1]):
        b = block.Block(1, b"\x00" * 32, rf, 0, b"\xff\xff\x00\x1d", b"\x00" * 4, tx_hashes=list(txids))
        bad = bad or bool(b.validate_merkle_root()) != (rf == want[::-1])
    return {"violated": bool(bad), "observed": f"{len(leaves)} leaves: merkle_root -> {r.hex()}, consensus {want.hex()}"}


# ------------------------------------------------------------------------------------------------ O2 honest partial trees

def _wire_merkleblock(hdr, total, hashes_internal, flags):
    out = hdr + total.to_bytes(4, "little") + spec_varint(len(hashes_internal))
    for x in hashes_internal:
        out = out + x
    return out + spec_varint(len(flags)) + flags


PATTERNS = {
    "all": lambda n, i: 1, "none": lambda n, i: 0, "even": lambda n, i: 1 - i % 2, "odd": lambda n, i: i % 2,
    "first": lambda n, i: int(i == 0), "last": lambda n, i: int(i == n - 1), "ends": lambda n, i: int(i in (0, n - 1)),
    "all-but-last": lambda n, i: int(i != n - 1), "thirds": lambda n, i: int(i % 3 == 0), "lcg": lambda n, i: ((i * 2654435761 + n) >> 7) & 1,
}


def _partial_path(n, pattern=None):
    mbm = loader.load("merkleblock")
    del shims.HASH_CALLS[:]
    txids = [SBytes.sym(f"t{i}", 32) for i in range(n)]
    if pattern is None:
        match = [SI.var(f"m{i}", 0, 1) for i in range(n)]
    else:
        match = [PATTERNS[pattern](n, i) for i in range(n)]
    hdr = SBytes.sym("hdr", 80)
    leaves = [t[::-1] for t in txids]

    def wit(env):
        return {"n": n, "txids": [core.bytes_env(env, f"t{i}", 32).hex() for i in range(n)],
                "match": [env[f"m{i}"] if pattern is None else match[i] for i in range(n)], "hdr": core.bytes_env(env, "hdr", 80).hex()}
    bits, hashes = bip37_build(leaves, [m == 1 for m in match])
    flags = pack_flags(bits)
    mb = mbm.MerkleBlock.parse(shims.BytesIOShim(_wire_merkleblock(hdr, n, hashes, flags)))
    check((mb.total == n) and (len(mb.hashes) == len(hashes)) and (mb.flags == flags), "MerkleBlock.parse lost total / hashes / flags", witness=wit)
    try:
        valid = mb.is_valid()
    except Exception as ex:
        check(False, f"is_valid raised {type(ex).__name__} on a proof built per BIP37", witness=wit)
        return "raised"
    want = pin("want", spec_merkle_root(leaves))
    check(s_iff(valid, hdr[36:68] == want), "a BIP37 proof must validate exactly when the header commits to the Merkle root of the block", witness=wit)
    proved = mb.proved_txs()
    exp = [t for t, m in zip(txids, match) if bool(m == 1)]
    check((len(proved) == len(exp)) and s_and(*[p == pin(f"e{i}", e) for i, (p, e) in enumerate(zip(proved, exp))]),
          "proved_txs differs from the matched transaction ids in block order", witness=wit)
    return f"{len(exp)} matched"


def ob_partial(n):
    r = sym_run(lambda: _partial_path(n), expect_classes=[f"{k} matched" for k in range(n + 1)], max_paths=5000)
    r["sample"] = {"transactions": n, "match subset": "n solver variables (all 2^n subsets)", "txids / header": "symbolic",
                   "subsets by number of matches": r["classes"]}
    return r


def ob_partial_large(ns, patterns):
    """larger blocks (flag bytes / hash counts past the small-tree sizes) with fixed match patterns; ids and header symbolic"""
    runs = []
    for n in ns:
        for pat in patterns:
            k = sum(PATTERNS[pat](n, i) for i in range(n))
            runs.append(sym_run(lambda: _partial_path(n, pat), expect_classes=[f"{k} matched"], max_paths=50))
    r = merge_runs(runs)
    r["sample"] = {"transactions": list(ns), "match patterns": list(patterns), "txids / header": "symbolic"}
    return r


def _concrete_proof(txids, match):
    leaves = [t[::-1] for t in txids]
    bits, hashes = bip37_build(leaves, [bool(m) for m in match])
    return leaves, hashes, pack_flags(bits)


def replay_partial(w):
    from buidl import merkleblock
    from io import BytesIO
    txids = [bytes.fromhex(x) for x in w["txids"]]
    hdr = bytes.fromhex(w["hdr"])
    leaves, hashes, flags = _concrete_proof(txids, w["match"])
    root = spec_merkle_root(leaves)
    exp = [t for t, m in zip(txids, w["match"]) if m]
    obs = []
    bad = False
    for h80 in (hdr, hdr[:36] + root + hdr[68:]):
        mb = merkleblock.MerkleBlock.parse(BytesIO(_wire_merkleblock(h80, len(txids), hashes, flags)))
        try:
            ok = bool(mb.is_valid())
        except Exception as ex:
            return {"violated": True, "observed": f"is_valid raised {ex!r} for n={len(txids)} match={w['match']}"}
        pr = mb.proved_txs()
        obs.append((ok, len(pr)))
        bad = bad or ok != (h80[36:68] == root) or list(pr) != exp
    return {"violated": bool(bad), "observed": f"n={len(txids)} match={w['match']}: (valid, #proved) with given / committed root = {obs}, expected {len(exp)} ids"}


# ------------------------------------------------------------------------------------------------ O3 soundness of arbitrary proofs

def _mval(x):
    """value of a byte string in the current solver model (uninterpreted hashes as the model interprets them)"""
    c = core.ctx()
    return core.model_int(c.model, core.sbytes(x).node(), c.mode)


def _sound_path(n, total, k, nflag):
    mbm = loader.load("merkleblock")
    blk = loader.load("block")
    del shims.HASH_CALLS[:]
    leaves = [sym32(f"l{i}") for i in range(n)]  # internal byte order; txid = reversed
    lv = spec_levels(leaves)
    root = lv[-1][0]
    base = list(shims.HASH_CALLS)
    P = [sym32(f"p{j}") for j in range(k)]  # proof hashes, internal byte order
    fl = SBytes.sym("fl", nflag)

    def wit(env):
        # a proof hash that the model makes equal to a node of the block's tree is recorded as a reference to that node
        # (the replay recomputes it with the real SHA-256); anything else is a literal
        nodes = [(d, i, _mval(x)) for d, level in enumerate(lv) for i, x in enumerate(level)]
        hs = []
        for j in range(k):
            # the model may give several tree nodes the same value: all candidates are recorded, root-most first
            ref = [[d, i] for (d, i, val) in reversed(nodes) if val == env[f"p{j}"]]
            hs.append(ref if ref else env32(env, f"p{j}").hex())
        return {"n": n, "total": total, "block_depth": tree_height(n), "proof_depth": tree_height(total),
                "txids": [env32(env, f"l{i}")[::-1].hex() for i in range(n)], "hashes": hs, "flags": core.bytes_env(env, "fl", nflag).hex()}
    header = blk.Block(1, b"\x00" * 32, root[::-1], 0, b"\xff\xff\x00\x1d", b"\x00" * 4)
    mb = mbm.MerkleBlock(header, total, [p[::-1] for p in P], fl)
    try:
        valid = mb.is_valid()
    except Exception as ex:
        check(True, "rejected")
        return "rejected:" + type(ex).__name__
    if not valid:
        check(True, "root mismatch")
        return "root mismatch"
    proved = mb.proved_txs()
    inj, by = injectivity(shims.HASH_CALLS[len(base):], base)
    parents = by.get("sha256_32", [])  # Merkle parents computed from the proof
    leafn = [core.sbytes(x).node() for x in leaves]
    acyclic = wrapb(b_and(*[b_not(b_cmp("eq", a, p)) for a in leafn for p in parents]))
    member = s_and(*[s_or(*[p[::-1] == x for x in leaves]) for p in proved])
    # hypotheses (part of the claim): injectivity instances; a txid is not a Merkle parent hash
    check(s_implies(s_and(inj, acyclic), member), "a validating proof yields an id that is not one of the block's transaction ids", witness=wit)
    return f"validates, {len(proved)} ids"


def ob_sound(n, total, nflag, timeout_s=120):
    runs = [sym_run(lambda: _sound_path(n, total, k, nflag), timeout_ms=1000 * timeout_s, max_violations=6) for k in range(1, total + 1)]
    m = merge_runs(runs)
    m["sample"] = {"block": f"{n} symbolic txids", "proof": f"claimed total {total}, 1..{total} symbolic hashes, {8 * nflag} symbolic flag bits",
                   "outcomes": m["classes"]}
    if not any(k.startswith("'validates") for k in m["classes"]):
        m["inconclusive"].append("reachability twin: no validating proof path")
    return m


def replay_sound(w):
    import itertools
    from buidl import merkleblock, block
    txids = [bytes.fromhex(x) for x in w["txids"]]
    leaves = [t[::-1] for t in txids]
    lv = spec_levels(leaves)
    header = block.Block(1, b"\x00" * 32, lv[-1][0][::-1], 0, b"\xff\xff\x00\x1d", b"\x00" * 4)
    # every hash is a literal or a list of candidate nodes (level, index) of the block's real tree; every combination is a
    # concrete proof, the first one that reproduces is reported
    options = [[lv[d][i] for d, i in h] if isinstance(h, list) else [bytes.fromhex(h)] for h in w["hashes"]]
    obs = "no combination tried"
    for combo in itertools.islice(itertools.product(*options), 1024):
        mb = merkleblock.MerkleBlock(header, w["total"], [x[::-1] for x in combo], bytes.fromhex(w["flags"]))
        try:
            ok = bool(mb.is_valid())
        except Exception as ex:
            obs = f"rejected {ex!r}"
            continue
        pr = list(mb.proved_txs())
        foreign = [p.hex() for p in pr if p not in txids]
        inner = [p for p in pr if any(p[::-1] == x for level in lv[1:] for x in level)]
        obs = (f"block of {len(txids)} txs (tree depth {tree_height(len(txids))}), proof claims total={w['total']} (depth {tree_height(w['total'])}) "
               f"with hashes {[x.hex()[:8] for x in combo]} flags {w['flags']}: is_valid={ok}, yields {len(pr)} ids, {len(foreign)} not in the block "
               f"({len(inner)} of them inner nodes of the block's tree)")
        if ok and foreign:
            return {"violated": True, "observed": obs}
    return {"violated": False, "observed": obs}


# ---- O3b: any single altered hash invalidates an honest proof

def _tamper_path(n):
    mbm = loader.load("merkleblock")
    blk = loader.load("block")
    del shims.HASH_CALLS[:]
    leaves = [sym32(f"l{i}") for i in range(n)]
    match = [SI.var(f"m{i}", 0, 1) for i in range(n)]
    bits, hashes = bip37_build(leaves, [m == 1 for m in match])
    flags = pack_flags(bits)
    root = spec_merkle_root(leaves)
    base = list(shims.HASH_CALLS)
    header = blk.Block(1, b"\x00" * 32, root[::-1], 0, b"\xff\xff\x00\x1d", b"\x00" * 4)
    for j in range(len(hashes)):
        x = sym32(f"x{j}")

        def wit(env, j=j):
            return {"n": n, "txids": [env32(env, f"l{i}")[::-1].hex() for i in range(n)], "match": [env[f"m{i}"] for i in range(n)],
                    "index": j, "new_hash": env32(env, f"x{j}").hex()}
        hs = list(hashes)
        hs[j] = x
        mark = len(shims.HASH_CALLS)
        mb = mbm.MerkleBlock(header, n, [h[::-1] for h in hs], flags)
        try:
            valid = mb.is_valid()
        except Exception as ex:
            check(False, f"is_valid raised {type(ex).__name__} on a proof with one altered hash (must return False)", witness=wit)
            continue
        inj, _ = injectivity(shims.HASH_CALLS[mark:], base)
        # hypotheses (part of the claim): the replacement differs from the original; injectivity instances
        check(s_implies(s_and(x != hashes[j], inj), s_not(valid)), "a proof with one altered hash still validates", witness=wit)
    return f"{len(hashes)} hashes"


def ob_tamper(n):
    r = sym_run(lambda: _tamper_path(n), timeout_ms=120000, max_paths=5000)
    r["sample"] = {"transactions": n, "proof": "honest BIP37 proof for every match subset; each hash in turn replaced by an arbitrary different value",
                   "proof sizes": r["classes"]}
    return r


def replay_tamper(w):
    from buidl import merkleblock, block
    txids = [bytes.fromhex(x) for x in w["txids"]]
    leaves, hashes, flags = _concrete_proof(txids, w["match"])
    root = spec_merkle_root(leaves)
    hs = list(hashes)
    hs[w["index"]] = bytes.fromhex(w["new_hash"])
    header = block.Block(1, b"\x00" * 32, root[::-1], 0, b"\xff\xff\x00\x1d", b"\x00" * 4)
    mb = merkleblock.MerkleBlock(header, len(txids), [h[::-1] for h in hs], flags)
    try:
        ok = bool(mb.is_valid())
    except Exception as ex:
        return {"violated": True, "observed": f"is_valid raised {ex!r} after altering hash {w['index']}"}
    return {"violated": ok and hs[w["index"]] != hashes[w["index"]], "observed": f"is_valid={ok} after altering hash {w['index']} of {len(hs)}"}


# ------------------------------------------------------------------------------------------------ O4 header codec / hash

def _header_path():
    blk = loader.load("block")
    del shims.HASH_CALLS[:]
    raw = SBytes.sym("hdr", 80)
    wit = lambda env: {"hdr": core.bytes_env(env, "hdr", 80).hex()}  # noqa
    b = blk.Block.parse_header(shims.BytesIOShim(raw + b"\x55"))
    check(s_and(b.version == le_int(raw[0:4]), b.prev_block == raw[4:36][::-1], b.merkle_root == raw[36:68][::-1],
                b.timestamp == le_int(raw[68:72]), (len(b.bits) == 4) and (b.bits == raw[72:76]), (len(b.nonce) == 4) and (b.nonce == raw[76:80])),
          "parse_header field layout", witness=wit)
    ser = b.serialize()
    check((len(ser) == 80) and (ser == raw), "serialize(parse_header(raw)) != raw", witness=wit)
    hh = b.hash()
    check(hh == pin("hh", spec_hash256(raw)[::-1]), "Block.hash is not the byte-reversed hash256 of the 80 header bytes", witness=wit)
    check(b.id() == hh.hex(), "Block.id is not the hex of Block.hash", witness=wit)
    # fields -> serialize -> parse
    ver = SI.var("ver", 0, (1 << 32) - 1)
    ts = SI.var("ts", 0, (1 << 32) - 1)
    prev, mr, bits, nonce = SBytes.sym("prev", 32), SBytes.sym("mr", 32), SBytes.sym("bits", 4), SBytes.sym("nonce", 4)
    b2 = blk.Block(ver, prev, mr, ts, bits, nonce)
    s2 = b2.serialize()
    e2 = ver.to_bytes(4, "little") + prev[::-1] + mr[::-1] + ts.to_bytes(4, "little") + bits + nonce
    check((len(s2) == 80) and (s2 == e2), "Block.serialize layout", witness=lambda env: {"hdr": core.conc_value(e2, env).hex()})
    b3 = blk.Block.parse_header(shims.BytesIOShim(s2))
    check(s_and(b3.version == ver, b3.prev_block == prev, b3.merkle_root == mr, b3.timestamp == ts, b3.bits == bits, b3.nonce == nonce),
          "parse_header(serialize(fields)) != fields", witness=lambda env: {"hdr": core.conc_value(e2, env).hex()})
    # history on one object: hash()/id() were asked for, then header fields change (nonce grinding, a new timestamp, another
    # merkle root); the hash must be that of the header the object serialises now
    b2.hash(), b2.id(), b3.hash()
    nonce2, mr2, ts2 = SBytes.sym("nonce2", 4), SBytes.sym("mr2", 32), SI.var("ts2", 0, (1 << 32) - 1)
    wit2 = lambda env: {"hdr": core.conc_value(e2, env).hex(), "edit": {"nonce": core.conc_value(nonce2, env).hex(),  # noqa
                                                                        "merkle_root": core.conc_value(mr2, env).hex(), "timestamp": env["ts2"]}}
    for obj in (b2, b3):
        obj.nonce, obj.merkle_root, obj.timestamp = nonce2, mr2, ts2
    e4 = ver.to_bytes(4, "little") + prev[::-1] + mr2[::-1] + ts2.to_bytes(4, "little") + bits + nonce2
    for obj, how in ((b2, "constructed"), (b3, "parsed")):
        s4 = obj.serialize()
        check((len(s4) == 80) and (s4 == e4), f"Block.serialize after editing fields of a {how} header", witness=wit2)
        h4 = obj.hash()
        check(h4 == pin("hh4", spec_hash256(e4)[::-1]), f"Block.hash of a {how} header whose fields changed after an earlier hash() is not the hash of its current 80 bytes",
              witness=wit2)
        check(obj.id() == h4.hex(), "Block.id after editing fields", witness=wit2)
    return "ok"


def ob_header():
    r = sym_run(_header_path)
    r["sample"] = {"header": "80 symbolic bytes; and symbolic field values"}
    return r


def replay_header(w):
    from buidl import block
    from io import BytesIO
    raw = bytes.fromhex(w["hdr"])
    b = block.Block.parse_header(BytesIO(raw))
    if "edit" in w:
        ed = w["edit"]
        b2 = block.Block(b.version, b.prev_block, b.merkle_root, b.timestamp, b.bits, b.nonce)
        out = []
        for obj, how in ((b, "parsed"), (b2, "constructed")):
            first = obj.hash(), obj.id()
            obj.nonce, obj.merkle_root, obj.timestamp = bytes.fromhex(ed["nonce"]), bytes.fromhex(ed["merkle_root"]), ed["timestamp"]
            now = obj.serialize()
            hh = spec_hash256(now)[::-1]
            if obj.hash() != hh or obj.id() != hh.hex():
                return {"violated": True, "observed": f"{how} header: hash() was {first[0].hex()}; after setting nonce/merkle_root/timestamp the object serialises "
                                                      f"{now.hex()} but hash() = {obj.hash().hex()}, id() = {obj.id()}; hash256 of the current header is {hh.hex()}"}
            out.append(how)
        return {"violated": False, "observed": f"hash follows the edited fields ({out})"}
    fields = (b.version == le_int(raw[0:4]) and b.prev_block == raw[4:36][::-1] and b.merkle_root == raw[36:68][::-1]
              and b.timestamp == le_int(raw[68:72]) and b.bits == raw[72:76] and b.nonce == raw[76:80])
    hh = spec_hash256(raw)[::-1]
    bad = not fields or b.serialize() != raw or b.hash() != hh or b.id() != hh.hex()
    return {"violated": bool(bad), "observed": f"fields ok={fields}, serialize ok={b.serialize() == raw}, hash ok={b.hash() == hh}"}


# ------------------------------------------------------------------------------------------------ O4 compact bits <-> target

def _bits_path():
    h = H()
    blk = loader.load("block")
    b0, b1, b2 = SI.var("b0", 0, 255), SI.var("b1", 0, 255), SI.var("b2", 0, 255)
    e = SI.var("e", 1, 32)
    bits = SBytes([b0, b1, b2, e])
    wit = lambda env: {"bits": bytes([env["b0"], env["b1"], env["b2"], env["e"]]).hex()}  # noqa
    ev = core.concretize(e)
    sign = bool(b2 >= 0x80)
    try:
        t = h.bits_to_target(bits)
    except Exception as ex:
        # refusing a negative compact value is as good as decoding it to a target that admits no hash
        check(sign, f"bits_to_target raised {type(ex).__name__} for bits with the sign bit clear", witness=wit)
        return f"e={ev} raised (sign bit)" if sign else f"e={ev} raised"
    mag, _ = spec_set_compact(le_int(SBytes([b0, b1, b2])), ev)
    t2 = blk.Block(1, b"\x00" * 32, b"\x00" * 32, 0, bits, b"\x00" * 4).target()
    check(t2 == t, "Block.target differs from bits_to_target", witness=wit)
    kind = "rational" if isinstance(t, Ratio) else "int"
    if sign:
        check(t <= 0, "compact sign bit set: the consensus target is negative or zero, the decoded target must admit no hash", witness=wit)
        return f"e={ev} sign bit ({kind})"
    check(t == mag, "bits_to_target differs from SetCompact", witness=wit)
    return f"e={ev} ({kind})"


def ob_bits_to_target():
    r = sym_run(_bits_path, max_violations=400)
    r["sample"] = {"bits": "3 symbolic mantissa bytes, exponent byte symbolic in 1..32", "outcomes": len(r["classes"])}
    if len(r["classes"]) < 64 and not r["violations"]:
        r["inconclusive"].append("reachability twin: not every (exponent, sign) class reached")
    return r


def replay_bits(w):
    from buidl import helper, block
    bits = bytes.fromhex(w["bits"])
    mag, sign = spec_set_compact(le_int(bits[:3]), bits[3])
    try:
        t = helper.bits_to_target(bits)
        t2 = block.Block(1, b"\x00" * 32, b"\x00" * 32, 0, bits, b"\x00" * 4).target()
    except Exception as ex:
        return {"violated": not sign, "observed": f"bits_to_target({bits.hex()}) raised {ex!r}"}
    if sign:
        bad = not (t <= 0)
        exp = f"a target that admits no hash (SetCompact: {'negative' if mag else 'zero'}, magnitude {mag:#x})"
    else:
        bad = t != mag
        exp = f"{mag:#x}"
    return {"violated": bool(bad or t2 != t), "observed": f"bits_to_target({bits.hex()}) = {t!r} ({type(t).__name__}); consensus: {exp}"}


def _tbits_path():
    h = H()
    x = SI.var("x", 0, (1 << 256) - 1)
    wit = lambda env: {"target": hex(env["x"])}  # noqa
    try:
        r = h.target_to_bits(x)
    except Exception as ex:
        check(False, f"target_to_bits raised {type(ex).__name__}", witness=wit)
        return "raised:" + type(ex).__name__
    want = spec_get_compact(x)
    check((len(r) == 4) and (r == want), "target_to_bits differs from GetCompact", witness=wit)
    # decoding the result gives back the target truncated to its 3 most significant bytes
    return f"{len(r)} bytes, size {want[3]}"


def ob_target_to_bits():
    r = sym_run(_tbits_path, max_violations=100)
    r["sample"] = {"target": "symbolic integer in [0, 2^256)", "outcomes": r["classes"]}
    return r


def replay_tbits(w):
    from buidl import helper
    x = int(w["target"], 16)
    want = spec_get_compact(x)
    try:
        r = helper.target_to_bits(x)
    except Exception as ex:
        return {"violated": True, "observed": f"target_to_bits({x:#x}) raised {ex!r}; GetCompact gives {want.hex()}"}
    return {"violated": r != want, "observed": f"target_to_bits({x:#x}) = {bytes(r).hex()} ({len(r)} bytes); GetCompact gives {want.hex()}"}


# ------------------------------------------------------------------------------------------------ O4 retargeting

REGIONS = {"quarter clamp": (-(1 << 32), TWO_WEEKS // 4 - 1), "unclamped": (TWO_WEEKS // 4, TWO_WEEKS * 4), "x4 clamp": (TWO_WEEKS * 4 + 1, 1 << 32)}


def _retarget_path(e, region, pred=False):
    h = H()
    b0, b1, b2 = SI.var("b0", 0, 255), SI.var("b1", 0, 255), SI.var("b2", 0, 127)  # sign bit clear by construction
    td = SI.var("td", *REGIONS[region])
    bits = SBytes([b0, b1, b2, e])
    wit = lambda env: {"bits": bytes([env["b0"], env["b1"], env["b2"], e]).hex(), "td": env["td"]}  # noqa
    mag, _ = spec_set_compact(le_int(SBytes([b0, b1, b2])), e)
    assume(mag <= NO_WRAP)
    try:
        r = h.calculate_new_bits(bits, td)
    except core.Unsupported:
        raise       # the engine's "cannot encode" signal is not an outcome of the code under test
    except Exception as ex:
        check(False, f"calculate_new_bits raised {type(ex).__name__}", witness=wit)
        return "raised:" + type(ex).__name__
    if pred:
        # bit-vector re-exploration (see _retarget_region): the specification as a predicate on the result, so that the only
        # forks are those of the implementation and every path ends in one query
        ok = len(r) == 4 and compact_pred(SBytes(list(r[0:3]) + [core.concretize(r[3])]), spec_new_target(mag, td))
        # decided on a fresh solver (full bit-blasting pipeline): the counterexamples are needles (the exact quotient must be
        # an integer that the double product just misses), which the incremental core does not find within the time limit
        check(ok, "calculate_new_bits differs from CalculateNextWorkRequired", witness=wit, timeout_ms=10000, fresh=True)
        return f"size {r[3]}" if len(r) == 4 else f"{len(r)} bytes"
    want = spec_next_bits(mag, td)
    check((len(r) == 4) and (r == want), "calculate_new_bits differs from CalculateNextWorkRequired", witness=wit)
    return f"size {want[3]}"


def _retarget_region(e, region):
    """the consensus formula is pure integer arithmetic, decided in LIA mode (div by constants; implementation and specification
    build the same product term).  If calculate_new_bits goes through floating point (`/` instead of `//`), the rounding model of
    symx/fpx.py multiplies two symbolic significands, which LIA mode refuses (Unsupported -> inconclusive): the region is then
    explored again over bit-vectors, where the solver finds the inputs whose double rounding departs from the integer formula."""
    ev0 = fpx.STATS["eval"]
    r = sym_run(lambda: _retarget_path(e, region), mode="int", timeout_ms=20000, max_violations=12)
    if fpx.STATS["eval"] != ev0 and r["inconclusive"] and not r["violations"]:
        r2 = sym_run(lambda: _retarget_path(e, region, pred=True), mode="bv", timeout_ms=10000, max_violations=3, wall_s=300)
        if r2["violations"] or not r2["inconclusive"]:
            return r2
        r2["inconclusive"] = r["inconclusive"][:3] + r2["inconclusive"]
        return r2
    return r


def ob_retarget(e):
    runs = [_retarget_region(e, region) for region in REGIONS]
    r = merge_runs(runs)
    r["sample"] = {"previous bits": f"exponent {e}, 23 symbolic mantissa bits", "time differential": "symbolic in [-2^32, 2^32] (three regions)",
                   "outcomes": r["classes"]}
    return r


def replay_retarget(w):
    from buidl import helper
    bits = bytes.fromhex(w["bits"])
    td = w["td"]
    mag, sign = spec_set_compact(le_int(bits[:3]), bits[3])
    if sign or mag > NO_WRAP or not 1 <= bits[3] <= 32:
        return {"violated": False, "observed": "outside the stated precondition"}
    want = spec_next_bits(mag, td)
    try:
        r = helper.calculate_new_bits(bits, td)
    except Exception as ex:
        return {"violated": True, "observed": f"calculate_new_bits({bits.hex()}, {td}) raised {ex!r}; consensus gives {want.hex()} (previous target {mag:#x})"}
    return {"violated": r != want, "observed": f"calculate_new_bits({bits.hex()}, {td}) = {bytes(r).hex()}; consensus gives {want.hex()}"}


# ------------------------------------------------------------------------------------------------ O4 proof of work / header chain

def _pow_path():
    blk = loader.load("block")
    del shims.HASH_CALLS[:]
    raw0 = SBytes.sym("hdr", 80)
    e = SI.var("e", 1, 32)
    raw = SBytes(raw0.items[:75] + [e] + raw0.items[76:])

    def wit(env):
        b = bytearray(core.bytes_env(env, "hdr", 80))
        b[75] = env["e"]
        return {"hdr": bytes(b).hex(), "h256": _mval(spec_hash256(raw)).to_bytes(32, "big").hex()}
    b = blk.Block.parse_header(shims.BytesIOShim(raw))
    try:
        ok = b.check_pow()
    except Exception as ex:
        check(raw[74] >= 0x80, f"check_pow raised {type(ex).__name__} for bits with the sign bit clear", witness=wit)
        return "raised"
    ev = core.concretize(e)
    proof = le_int(spec_hash256(raw))
    if ev >= 3 and bool(raw[74] < 0x80):
        mag, _ = spec_set_compact(le_int(raw[72:75]), ev)
        # the boundary hash == target is left open (Core accepts it, '<' rejects it; see META outside)
        check(s_implies(s_not(proof == mag), s_iff(ok, proof < mag)),
              "check_pow is not 'hash256(header) as little-endian integer below SetCompact(bits)'", witness=wit)
        return f"e={ev} direct"
    # exponent < 3 / sign bit: target conformance is O4-bits-to-target's subject; here only the composition
    t = b.target()
    check(s_implies(s_not(t == proof), s_iff(ok, proof < t)),
          "check_pow is not 'hash256(header) as little-endian integer below Block.target()'", witness=wit)
    return f"e={ev} via target()"


def ob_check_pow():
    r = sym_run(_pow_path)
    r["sample"] = {"header": "80 symbolic bytes, exponent byte in 1..32", "hash": "uninterpreted", "outcomes": len(r["classes"])}
    return r


def _consensus_pow(raw, h256=spec_hash256):
    """CheckProofOfWork without the powLimit test (concrete); None on the boundary hash == target, which is left open"""
    mag, sign = spec_set_compact(le_int(raw[72:75]), raw[75])
    if le_int(h256(raw)) == mag:
        return None
    return (not sign) and le_int(h256(raw)) < mag


def _stubbed(table, fn):
    """run fn(h256) with buidl.block.hash256 replaced by the witness's hash table (real SHA-256 outside the table)"""
    import buidl.block as bm
    real = bm.hash256

    def stub(x):
        return table.get(bytes(x)) or real(x)
    bm.hash256 = stub
    try:
        return fn(stub)
    finally:
        bm.hash256 = real


STUB_NOTE = " [hash256 replaced by the solver's table for these headers: the logic is wrong for a hash function with these values; no SHA-256 preimage is known]"


def replay_pow(w):
    from buidl import block
    from io import BytesIO
    raw = bytes.fromhex(w["hdr"])

    def run(h256):
        b = block.Block.parse_header(BytesIO(raw))
        try:
            ok = bool(b.check_pow())
        except Exception as ex:
            return raw[74] < 0x80, f"check_pow raised {ex!r}"
        if raw[75] >= 3 and raw[74] < 0x80:
            want = _consensus_pow(raw, h256)
        else:
            want = None if le_int(h256(raw)) == b.target() else le_int(h256(raw)) < b.target()
        return want is not None and ok != want, f"check_pow={ok}, expected {want} (bits {raw[72:76].hex()})"
    bad, obs = run(spec_hash256)
    if not bad and w.get("h256"):
        bad, obs = _stubbed({raw: bytes.fromhex(w["h256"])}, run)
        obs += STUB_NOTE if bad else ""
    return {"violated": bad, "observed": obs}


def _headers_path(k, e, tail):
    net = loader.load("network")
    del shims.HASH_CALLS[:]
    raws = []
    for i in range(k):
        r0 = SBytes.sym(f"h{i}", 80)
        raws.append(SBytes(r0.items[:74] + [SI.var(f"s{i}", 0, 0x7F), e] + r0.items[76:]))

    def wit(env):
        return {"headers": [core.conc_value(r, env).hex() for r in raws], "tail": core.conc_value(tail_b, env) if tail else 0,
                "h256": [_mval(spec_hash256(r)).to_bytes(32, "big").hex() for r in raws]}
    tail_b = SI.var("ntx", 0, 252) if tail else 0
    wire = bytes([k])
    for i, r in enumerate(raws):
        wire = wire + r + (SBytes([tail_b]) if (tail and i == k - 1) else b"\x00")
    try:
        m = net.HeadersMessage.parse(shims.BytesIOShim(wire))
    except RuntimeError:
        check(tail_b != 0, "HeadersMessage.parse refused a headers message whose transaction counts are all zero", witness=wit)
        return "refused"
    check(tail_b == 0, "HeadersMessage.parse accepted a non-zero transaction count", witness=wit)
    check(len(m.headers) == k, "header count", witness=wit)
    v = m.is_valid()
    proofs = [le_int(spec_hash256(r)) for r in raws]
    mags = [spec_set_compact(le_int(r[72:75]), e)[0] for r in raws]
    pows = [p < m for p, m in zip(proofs, mags)]
    links = [raws[i][4:36] == pin(f"hh{i}", spec_hash256(raws[i - 1])) for i in range(1, k)]
    spec = s_and(*(pows + links))
    off_boundary = s_and(*[s_not(p == m) for p, m in zip(proofs, mags)])  # hash == target left open (see META outside)
    check(s_implies(off_boundary, s_iff(v, spec)),
          "HeadersMessage.is_valid is not 'every header satisfies its proof of work and commits to the hash of its predecessor'", witness=wit)
    return "valid" if v else "invalid"


def ob_headers(k):
    runs = [sym_run(lambda: _headers_path(k, e, False), expect_classes=["valid", "invalid"]) for e in (3, 0x1D, 0x20)]
    runs.append(sym_run(lambda: _headers_path(k, 0x1D, True), expect_classes=["refused", "valid", "invalid"]))
    m = merge_runs(runs)
    m["sample"] = {"headers": k, "each": "80 symbolic bytes (bits exponent 3 / 0x1d / 0x20, sign bit clear)", "hash": "uninterpreted", "outcomes": m["classes"]}
    return m


def replay_headers(w):
    from buidl import network
    from io import BytesIO
    raws = [bytes.fromhex(x) for x in w["headers"]]
    wire = bytes([len(raws)])
    for i, r in enumerate(raws):
        wire += r + bytes([w["tail"] if i == len(raws) - 1 else 0])
    try:
        m = network.HeadersMessage.parse(BytesIO(wire))
    except RuntimeError as ex:
        return {"violated": w["tail"] == 0, "observed": f"parse raised {ex!r}"}
    if w["tail"] != 0:
        return {"violated": True, "observed": "non-zero transaction count accepted"}

    def run(h256):
        v = bool(m.is_valid())
        pows = [_consensus_pow(r, h256) for r in raws]
        if None in pows:
            return False, "a header sits on the boundary hash == target (left open)"
        want = all(pows) and all(raws[i][4:36] == h256(raws[i - 1]) for i in range(1, len(raws)))
        return v != want, f"is_valid={v}, expected {want}"
    bad, obs = run(spec_hash256)
    if not bad and w.get("h256"):
        bad, obs = _stubbed({r: bytes.fromhex(x) for r, x in zip(raws, w["h256"])}, run)
        obs += STUB_NOTE if bad else ""
    return {"violated": bad, "observed": obs}


# ------------------------------------------------------------------------------------------------ registry

def _chunks(xs, k):
    return [xs[i:i + k] for i in range(0, len(xs), k)]


def obligations(tier):
    q = tier == "quick"
    obs = []
    # heaviest first (the pool starts obligations in list order)
    nmax = 4 if q else 6
    pairs = [(n, t) for t in range(nmax, 0, -1) for n in range(nmax, 0, -1)]
    for n, t in pairs:
        obs.append(Ob("O3-soundness", ob_sound, {"n": n, "total": t, "nflag": 1 if t <= 4 else 2, "timeout_s": 120 if q else 900}, replay="sound",
                      budget_s=600 if q else 2700))
    for e in sorted(range(1, 33), key=lambda e: -(e if e <= 30 else 0)):
        obs.append(Ob("O4-retarget", ob_retarget, {"e": e}, replay="retarget", budget_s=600 if q else 1800))
    for n in range(6 if q else 10, 0, -1):
        obs.append(Ob("O2-partial-tree", ob_partial, {"n": n}, replay="partial", budget_s=600 if q else 1800))
    big = [11, 12, 13, 15, 16, 17, 20, 21, 24, 31, 32, 33, 36, 44] if q else list(range(11, 70)) + [100, 127, 128, 129, 200, 255, 256, 257]
    pats = ["all", "none", "even", "last", "ends", "all-but-last"] if q else list(PATTERNS)
    for g in _chunks(big, 1 if q else 2):
        obs.append(Ob("O2-partial-tree-large", ob_partial_large, {"ns": tuple(g), "patterns": tuple(pats)}, replay="partial", budget_s=600 if q else 2400))
    for n in range(4 if q else 6, 0, -1):
        obs.append(Ob("O3-tamper-hash", ob_tamper, {"n": n}, replay="tamper", budget_s=600 if q else 2400))
    obs.append(Ob("O1-merkle-root", ob_merkle_root, {"ns": (1, 2, 3, 4, 5)}, replay="merkle_root"))
    obs.append(Ob("O1-merkle-root", ob_merkle_root, {"ns": (6, 7, 8, 9, 10)}, replay="merkle_root"))
    obs.append(Ob("O4-header-codec", ob_header, replay="header"))
    obs.append(Ob("O4-bits-to-target", ob_bits_to_target, replay="bits"))
    obs.append(Ob("O4-target-to-bits", ob_target_to_bits, replay="tbits"))
    obs.append(Ob("O4-check-pow", ob_check_pow, replay="pow"))
    for k in range(1, 4 if q else 5):
        obs.append(Ob("O4-headers-chain", ob_headers, {"k": k}, replay="headers"))
    return obs
