"""C12 — taproot output keys commit to the script tree; every leaf is spendable (DESIGN.md section 3, C12)."""
import itertools

from symx import core, loader, shims, field
from symx.core import SI, SBytes, check, s_and, s_or, s_not, s_implies, assume, bytes_env, Out, conc_value, wrapb, lift, branch
from vlib.run import Ob, sym_run, merge_runs, conc_run
from checks._group import Env, with_env, N, P

PROPERTY = "C12"

META = {
    "bounds": {
        "quick": {"tweak": "all internal keys d in [1,N-1] (both parities), merkle root absent or any 32 bytes",
                  "tree": "all binary tree shapes with 1..4 leaves, leaf scripts = one symbolic push of 1..2 bytes + an opcode, leaf version 0xC0 (and 0xC2, 0xC4, 0xFE for n <= 2) shared by the leaves; for n in {2,3} also the same script under two versions, "
                          "pairwise different leaf scripts; every leaf of every tree",
                  "history": "one tree object (all shapes with 2..3 leaves, leaf version 0xC0) asked for the control block of every leaf with internal key P1, then with "
                             "another internal key P2 (different x-only key), then with P1 again; P1, P2 = any d*G; every answer after the first must be the "
                             "BIP341 block of the key of that call and recompute that key's output key",
                  "tamper-version": "control block of the last leaf of a 1- or 2-leaf tree whose leaf version is ANY even byte (symbolic): first byte replaced by "
                                    "ANY other byte value (symbolic new version and parity bit); the altered block must not fold to the committed Merkle root "
                                    "unless the parity bit is altered too",
                  "tamper": "byte positions {0,1,16,32,33,64,65,96} (version/parity byte, first/middle/last byte of the internal key and of each path hash) of a 97-byte control block of a 3-leaf tree, replacement value symbolic"},
        "thorough": {"tree": "all shapes with 1..5 leaves", "tamper": "every byte position 0..96", "history": "all shapes with 2..4 leaves",
                     "tamper-version": "trees with 1..3 leaves"}},
    "outside": ["odd leaf versions (the low bit of the first control-block byte is the parity bit, BIP341 leaf versions are even); BIP341's reserved value 0x50 is "
                "treated like any other even version, as the library does",
                "O4-tamper-version judges an altered version/parity byte by 'does not fold to the committed Merkle root, or announces another parity': that another "
                "root gives another output key is the binding assumption below; the replay demands exactly the property (refused, or not the same key and parity)",
                "O3-history: sequences of more than three calls per leaf, more than two internal keys, P2 = -P1 (same x-only key), leaf versions other than 0xC0",
                "the binding of (internal key, root) -> output key and collision resistance of tagged hashes (assumed, listed)",
                "tweak values t >= N (probability 2^-128; BIP341 fails there)", "trees with more than 5 leaves (4 in the quick tier); a single 6-leaf shape did not finish within 25 minutes"],
    "stubs": ["abstract prime-order group (symx/field.py)", "SHA-256 uninterpreted on symbolic input (tag prefixes hashed for real)"],
    "assumptions": ["prime-order group (C03)", "the tweaked key is not the point at infinity (probability 2^-256)", "tagged hashes are injective: different leaves / branches have different hashes",
                    "O4-tamper-version: collision-freeness instantiated for every pair of uninterpreted hash calls made on the path (equal digests only for equal inputs)"],
}
MANIFEST = {"technique": "symbolic execution of the real taproot tweak / tree / control-block code over an abstract prime-order group with "
                         "uninterpreted tagged hashes; GF(N) canonical form + z3 (LIA)"}


def tagged(tag, msg):
    import hashlib
    th = hashlib.sha256(tag).digest()
    return shims._H("sha256", th + th + msg).digest()


def to32(x):
    return x.to_bytes(32, "big")


# ---------------------------------------------------------------------------------------- O1 tweak algebra

@with_env("taproot")
def _tweak_path(e, with_root):
    pecc = e.pecc
    F = e.fld
    d = SI.var("d", 1, N - 1)
    root = SBytes.sym("root", 32) if with_root else b""
    wit = lambda env: {"d": env["d"], "root": bytes_env(env, "root", 32).hex() if with_root else ""}  # noqa
    pk = pecc.PrivateKey(d)
    Ppt = pk.point
    # specification (BIP341): t = int(H_TapTweak(x(P) || root)); Q = even(P) + t*G
    Px, Ppar = e.grp.coords(d)
    dd = (N - d) if branch(Ppar) else d
    t = core.int_from_bytes(tagged(b"TapTweak", to32(core.wrap(Px)) + root), "big")
    want = F.reduce(field.lift_si(dd) + field.lift_si(t))
    assume(wrapb(core.b_not(F.is_zero_cond(field.lift_si(want)))))  # the tweaked key is not the point at infinity (probability 2^-256)
    Q = Ppt.tweaked_key(root)
    check(F.same(Q.d, want), "tweaked_key is not even(P) + H_TapTweak(P||root)*G", witness=wit)
    tw = Ppt.tweak(root)
    check(core.int_from_bytes(tw, "big") == t, "tweak() is not the TapTweak tagged hash of xonly(P) || root", witness=wit)
    sk2 = pk.tweaked_key(root)
    check(F.same(sk2.secret, want), "tweaked private key is not the discrete log of the tweaked public key", witness=wit)
    check(F.same(sk2.point.d, Q.d), "tweaked private key's point differs from the tweaked public key", witness=wit)
    check(s_and(sk2.secret >= 1, sk2.secret <= N - 1), "tweaked secret out of range", witness=wit)
    ev = Ppt.even_point()
    check(F.same(ev.d, dd), "even_point is not the even-y representative", witness=wit)
    check(F.same(pk.even_secret(), dd) and bool(pk.even_secret() == dd), "even_secret is not the even-y secret", witness=wit)
    # history: the same key objects are then used with another script tree (another merkle root)
    root2 = SBytes.sym("root2", 32)
    wit2 = lambda env: {"d": env["d"], "root": bytes_env(env, "root", 32).hex() if with_root else "", "root2": bytes_env(env, "root2", 32).hex()}  # noqa
    t2 = core.int_from_bytes(tagged(b"TapTweak", to32(core.wrap(Px)) + root2), "big")
    want2 = F.reduce(field.lift_si(dd) + field.lift_si(t2))
    assume(wrapb(core.b_not(F.is_zero_cond(field.lift_si(want2)))))
    check(core.int_from_bytes(Ppt.tweak(root2), "big") == t2, "tweak() for a second merkle root on the same key object is not H_TapTweak(P||root2)", witness=wit2)
    check(F.same(Ppt.tweaked_key(root2).d, want2), "tweaked_key for a second merkle root on the same key object does not commit to that root", witness=wit2)
    check(F.same(pk.tweaked_key(root2).secret, want2), "tweaked private key for a second merkle root on the same key object", witness=wit2)
    return "odd" if branch(Ppar) else "even"


def ob_tweak():
    runs = [sym_run(lambda: _tweak_path(wr), mode="int", expect_classes=["odd", "even"], timeout_ms=60000) for wr in (False, True)]
    m = merge_runs(runs)
    m["sample"] = {"internal key": "d*G, d symbolic", "merkle root": "absent / 32 symbolic bytes"}
    return m


def ref_tag(tag, m):
    import hashlib
    th = hashlib.sha256(tag).digest()
    return hashlib.sha256(th + th + m).digest()


def replay_tweak(w):
    from buidl import pecc
    d = w["d"]
    root = bytes.fromhex(w["root"])
    pk = pecc.PrivateKey(d)
    Pp = pk.point
    dd = d if Pp.y.num % 2 == 0 else N - d
    t = int.from_bytes(ref_tag(b"TapTweak", Pp.x.num.to_bytes(32, "big") + root), "big")
    want = (dd + t) % N
    Q = Pp.tweaked_key(root)
    sk2 = pk.tweaked_key(root)
    ok = Q == want * pecc.G and sk2.secret == want and sk2.point == Q and pk.even_secret() == dd
    obs = f"d={d:#x} root={w['root']}: Q ok={Q == want * pecc.G} secret ok={sk2.secret == want}"
    if ok and "root2" in w:
        r2 = bytes.fromhex(w["root2"])
        t2 = int.from_bytes(ref_tag(b"TapTweak", Pp.x.num.to_bytes(32, "big") + r2), "big")
        want2 = (dd + t2) % N
        oks = (Pp.tweak(r2) == t2.to_bytes(32, "big"), Pp.tweaked_key(r2) == want2 * pecc.G, pk.tweaked_key(r2).secret == want2)
        ok = all(oks)
        obs += f"; then with root2={w['root2']} on the same objects: tweak ok={oks[0]} output key ok={oks[1]} secret ok={oks[2]}"
    return {"violated": not ok, "observed": obs}


# ---------------------------------------------------------------------------------------- O2/O3 trees and control blocks

def shapes(n):
    """all binary tree shapes over leaves 0..n-1 in order (nested tuples)"""
    def rec(lo, hi):
        if hi - lo == 1:
            return [lo]
        out = []
        for mid in range(lo + 1, hi):
            for l in rec(lo, mid):
                for r in rec(mid, hi):
                    out.append((l, r))
        return out
    return rec(0, n)


def spec_varint(n):
    assert n < 0xFD
    return bytes([n])


def spec_leaf_hash(version, script_bytes):
    return tagged(b"TapLeaf", core.sbytes(bytes([version]) if isinstance(version, int) else SBytes([version])) + spec_varint(len(script_bytes)) + script_bytes)


def spec_branch(a, b):
    assume(a != b)  # sibling hashes differ (collision resistance of the tagged hashes: stated assumption)
    if bool(a < b):
        return tagged(b"TapBranch", a + b)
    return tagged(b"TapBranch", b + a)


def spec_tree(shape, leaf_hashes):
    """returns (root hash, {leaf index: [sibling hashes bottom-up]})"""
    if isinstance(shape, int):
        return leaf_hashes[shape], {shape: []}
    lh, lp = spec_tree(shape[0], leaf_hashes)
    rh, rp = spec_tree(shape[1], leaf_hashes)
    paths = {}
    for k, v in lp.items():
        paths[k] = v + [rh]
    for k, v in rp.items():
        paths[k] = v + [lh]
    return spec_branch(lh, rh), paths


def build_tree(tm, shape, leaves):
    if isinstance(shape, int):
        return leaves[shape]
    return tm.TapBranch(build_tree(tm, shape[0], leaves), build_tree(tm, shape[1], leaves))


def mirror(shape):
    if isinstance(shape, int):
        return shape
    return (mirror(shape[1]), mirror(shape[0]))


@with_env("taproot", "script")
def _tree_path(e, shape, n, ver=0xC0, dup=False):
    tm = loader.load("taproot")
    sc = loader.load("script")
    F = e.fld
    d = SI.var("d", 1, N - 1)
    Ppt = e.point(d)
    # one (even) leaf version shared by all leaves, pairwise different scripts: TapBranch.control_block searches
    # leaves with ==, and every undecided equality would double the number of paths
    if ver == "sym":
        # any even leaf version 0x00..0xFE (BIP341: c[0] & 0xfe), decided by the solver
        ver = 2 * SI.var("verh", 0, 127)
    versions = [ver for i in range(n)]
    pushes = [SBytes.sym(f"leaf{i}", 1 + (i % 2)) for i in range(n)]
    if dup and n >= 2:
        # the same script committed under two different leaf versions (leaves 0 and 1)
        pushes[1] = pushes[0]
        versions[1] = 0xC2 if ver != 0xC2 else 0xC0
    for i in range(n):
        for j in range(i + 1, n):
            if len(pushes[i]) == len(pushes[j]) and pushes[i] is not pushes[j]:
                assume(pushes[i] != pushes[j])
    scripts = [sc.Script([pushes[i], 0xAC]) for i in range(n)]
    leaves = [tm.TapLeaf(scripts[i], versions[i]) for i in range(n)]

    def wit(env):
        return {"d": env["d"], "shape": repr(shape), "versions": [conc_value(v, env) for v in versions],
                "pushes": [conc_value(p, env).hex() for p in pushes]}
    raw_scripts = [bytes([len(pushes[i])]) + pushes[i] + b"\xac" for i in range(n)]
    lh = [spec_leaf_hash(versions[i], raw_scripts[i]) for i in range(n)]
    for i in range(n):
        check(leaves[i].hash() == lh[i], "TapLeaf.hash differs from H_TapLeaf(version || compact_size(script) || script)", witness=wit)
    # different leaves have different leaf hashes (collision resistance of the tagged hash: stated assumption)
    for i in range(n):
        for j in range(i + 1, n):
            assume(lh[i] != lh[j])
    tree = build_tree(tm, shape, leaves)
    root, paths = spec_tree(shape, lh)
    check(tree.hash() == root, "tree hash differs from the BIP341 Merkle root", witness=wit)
    if n > 1:
        tree2 = build_tree(tm, mirror(shape), leaves)
        check(tree2.hash() == root, "Merkle root depends on the left/right order of siblings", witness=wit)
    Px, Ppar = e.grp.coords(d)
    dd = (N - d) if branch(Ppar) else d
    t = core.int_from_bytes(tagged(b"TapTweak", to32(core.wrap(Px)) + root), "big")
    want = F.reduce(field.lift_si(dd) + field.lift_si(t))
    assume(wrapb(core.b_not(F.is_zero_cond(field.lift_si(want)))))  # output key is not the point at infinity
    Q = tree.external_pubkey(Ppt)
    check(F.same(Q.d, want), "output key is not even(P) + H_TapTweak(P||root)*G", witness=wit)
    for i in range(n):
        cb = tree.control_block(Ppt, leaves[i])
        check(cb is not None, "no control block for a leaf of the tree", witness=wit)
        ser = cb.serialize()
        Qx, Qpar = e.grp.coords(want)
        parity = core.s_ite(wrapb(Qpar), 1, 0)
        exp = core.sbytes(SBytes([versions[i] + parity])) + to32(core.wrap(Px))
        for h in paths[i]:
            exp = exp + h
        check((len(ser) == len(exp)) and (ser == exp), "control block layout (version|parity, internal key, path hashes)", witness=wit)
        back = tm.ControlBlock.parse(ser)
        check(back.serialize() == ser, "ControlBlock.parse(serialize(cb)) != cb", witness=wit)
        check(s_and(back.tapleaf_version == versions[i], back.parity == parity, len(back.hashes) == len(paths[i])),
              "parsed control block fields differ", witness=wit)
        Q2 = back.external_pubkey(scripts[i])
        check(F.same(Q2.d, want), "control block does not recompute the output key", witness=wit)
        check(back.merkle_root(scripts[i]) == root, "control block does not fold to the Merkle root", witness=wit)
    return "ok"


def ob_tree(n, part=0, parts=1):
    shs = [sh for k, sh in enumerate(shapes(n)) if k % parts == part]
    runs = [sym_run(lambda: _tree_path(sh, n, ver), mode="int", timeout_ms=60000, max_paths=3000) for sh in shs
            for ver in ((0xC0, 0xC2, 0xC4, 0xFE) if n <= 2 else (0xC0,))]
    if 2 <= n <= 3:
        runs += [sym_run(lambda: _tree_path(sh, n, 0xC0, dup=True), mode="int", timeout_ms=60000, max_paths=3000) for sh in shs]
    m = merge_runs(runs)
    m["sample"] = {"leaves": n, "shapes": len(shapes(n)), "leaf scripts": "<1-2 symbolic bytes> OP_CHECKSIG, symbolic even versions"}
    return m


def replay_tree(w):
    from buidl import pecc, taproot, script
    d = w["d"]
    shape = eval(w["shape"])
    n = len(w["versions"])
    Pp = d * pecc.G
    scripts = [script.Script([bytes.fromhex(w["pushes"][i]), 0xAC]) for i in range(n)]
    leaves = [taproot.TapLeaf(scripts[i], w["versions"][i]) for i in range(n)]

    def rleaf(i):
        raw = scripts[i].raw_serialize()
        return ref_tag(b"TapLeaf", bytes([w["versions"][i]]) + bytes([len(raw)]) + raw)

    def rtree(sh):
        if isinstance(sh, int):
            return rleaf(sh), {sh: []}
        lh, lp = rtree(sh[0])
        rh, rp = rtree(sh[1])
        paths = {k: v + [rh] for k, v in lp.items()}
        paths.update({k: v + [lh] for k, v in rp.items()})
        return ref_tag(b"TapBranch", min(lh, rh) + max(lh, rh)), paths
    tree = build_tree(taproot, shape, leaves)
    root, paths = rtree(shape)
    dd = d if Pp.y.num % 2 == 0 else N - d
    t = int.from_bytes(ref_tag(b"TapTweak", Pp.x.num.to_bytes(32, "big") + root), "big")
    Qw = ((dd + t) % N) * pecc.G
    bad = []
    if tree.hash() != root:
        bad.append("root")
    if n > 1 and build_tree(taproot, mirror(shape), leaves).hash() != root:
        bad.append("order dependence")
    if tree.external_pubkey(Pp) != Qw:
        bad.append("output key")
    for i in range(n):
        cb = tree.control_block(Pp, leaves[i])
        exp = bytes([w["versions"][i] + Qw.parity]) + Pp.x.num.to_bytes(32, "big") + b"".join(paths[i])
        if cb is None or cb.serialize() != exp:
            bad.append(f"cb {i}")
            continue
        back = taproot.ControlBlock.parse(exp)
        if back.serialize() != exp or back.external_pubkey(scripts[i]) != Qw:
            bad.append(f"cb parse/recompute {i}")
    return {"violated": bool(bad), "observed": f"shape {w['shape']}: {bad}"}


# ---------------------------------------------------------------------------------------- O3h one tree object, several internal keys

@with_env("taproot", "script")
def _history_path(e, shape, n):
    """history on ONE tree object: control blocks (and output keys) are asked for internal key P1, then for another internal key P2,
    then for P1 again; every answer must be the one BIP341 prescribes for the key of *that* call (internal key bytes, parity bit of
    that key's output key, path), and must recompute that key's output key."""
    tm = loader.load("taproot")
    sc = loader.load("script")
    F = e.fld
    ds = [SI.var("d", 1, N - 1), SI.var("d2", 1, N - 1)]
    # two different x-only internal keys (P2 = -P1 is the same x-only key and gives the same blocks; the abstract group does not
    # relate the coordinates of d and N-d when both are free variables)
    assume(s_and(ds[1] != ds[0], ds[1] + ds[0] != N))
    pts = [e.point(d) for d in ds]
    pushes = [SBytes.sym(f"leaf{i}", 1 + (i % 2)) for i in range(n)]
    for i in range(n):
        for j in range(i + 1, n):
            if len(pushes[i]) == len(pushes[j]):
                assume(pushes[i] != pushes[j])
    scripts = [sc.Script([pushes[i], 0xAC]) for i in range(n)]
    leaves = [tm.TapLeaf(scripts[i], 0xC0) for i in range(n)]
    raw_scripts = [bytes([len(pushes[i])]) + pushes[i] + b"\xac" for i in range(n)]
    lh = [spec_leaf_hash(0xC0, raw_scripts[i]) for i in range(n)]
    for i in range(n):
        for j in range(i + 1, n):
            assume(lh[i] != lh[j])
    tree = build_tree(tm, shape, leaves)
    root, paths = spec_tree(shape, lh)
    wants, exps = [], []
    for d in ds:
        Px, Ppar = e.grp.coords(d)
        dd = (N - d) if branch(Ppar) else d
        t = core.int_from_bytes(tagged(b"TapTweak", to32(core.wrap(Px)) + root), "big")
        want = F.reduce(field.lift_si(dd) + field.lift_si(t))
        assume(wrapb(core.b_not(F.is_zero_cond(field.lift_si(want)))))  # output key is not the point at infinity
        Qx, Qpar = e.grp.coords(want)
        wants.append(want)
        exps.append((core.s_ite(wrapb(Qpar), 1, 0), to32(core.wrap(Px))))
    for i in range(n):
        def wit(env, i=i):
            return {"d": env["d"], "d2": env["d2"], "shape": repr(shape), "leaf": i, "pushes": [conc_value(p, env).hex() for p in pushes]}
        for step, k in enumerate((0, 1, 0)):
            cb = tree.control_block(pts[k], leaves[i])
            if step == 0:
                continue  # the first call on a fresh tree is O2O3-tree's subject
            which = "a second internal key" if step == 1 else "the first internal key again"
            if not check(cb is not None, f"no control block for a leaf of the tree ({which} on the same tree object)", witness=wit):
                return "violated"
            parity, px = exps[k]
            exp = core.sbytes(SBytes([0xC0 + parity])) + px
            for h in paths[i]:
                exp = exp + h
            ser = cb.serialize()
            if not check((len(ser) == len(exp)) and (ser == exp), f"control block for {which} on the same tree object is not the one for that key", witness=wit):
                return "violated"
            back = tm.ControlBlock.parse(ser)
            check(F.same(back.external_pubkey(scripts[i]).d, wants[k]), f"control block for {which} on the same tree object does not recompute that key's output key", witness=wit)
            check(F.same(tree.external_pubkey(pts[k]).d, wants[k]), f"output key for {which} on the same tree object", witness=wit)
    return "ok"


def ob_history(n, part=0, parts=1):
    shs = [sh for k, sh in enumerate(shapes(n)) if k % parts == part]
    runs = [sym_run(lambda: _history_path(sh, n), mode="int", timeout_ms=60000, max_paths=3000, max_violations=3) for sh in shs]
    m = merge_runs(runs)
    m["sample"] = {"leaves": n, "calls on one tree object": "control_block(P1, leaf), control_block(P2, leaf), control_block(P1, leaf) for every leaf",
                   "keys": "P1 = d*G, P2 = d2*G, both symbolic"}
    return m


def replay_history(w):
    from buidl import pecc, taproot, script
    shape = eval(w["shape"])
    n = len(w["pushes"])
    scripts = [script.Script([bytes.fromhex(x), 0xAC]) for x in w["pushes"]]
    leaves = [taproot.TapLeaf(s, 0xC0) for s in scripts]

    def rtree(sh):
        if isinstance(sh, int):
            raw = scripts[sh].raw_serialize()
            return ref_tag(b"TapLeaf", b"\xc0" + bytes([len(raw)]) + raw), {sh: []}
        lh, lp = rtree(sh[0])
        rh, rp = rtree(sh[1])
        paths = {k: v + [rh] for k, v in lp.items()}
        paths.update({k: v + [lh] for k, v in rp.items()})
        return ref_tag(b"TapBranch", min(lh, rh) + max(lh, rh)), paths
    root, paths = rtree(shape)
    tree = build_tree(taproot, shape, leaves)
    keys = []
    for d in (w["d"], w["d2"]):
        Pp = d * pecc.G
        dd = d if Pp.y.num % 2 == 0 else N - d
        t = int.from_bytes(ref_tag(b"TapTweak", Pp.x.num.to_bytes(32, "big") + root), "big")
        keys.append((Pp, ((dd + t) % N) * pecc.G))
    bad = []
    # the same sequence of calls as in the symbolic path, on one tree object
    for i in range(n):
        for step, k in enumerate((0, 1, 0)):
            Pp, Qw = keys[k]
            cb = tree.control_block(Pp, leaves[i])
            exp = bytes([0xC0 + Qw.parity]) + Pp.x.num.to_bytes(32, "big") + b"".join(paths[i])
            if cb is None or cb.serialize() != exp:
                bad.append(f"leaf {i} call {step + 1} (key {'d' if k == 0 else 'd2'}): control block is not the one for this key")
            elif taproot.ControlBlock.parse(cb.serialize()).external_pubkey(scripts[i]) != Qw:
                bad.append(f"leaf {i} call {step + 1}: does not recompute this key's output key")
            if tree.external_pubkey(Pp) != Qw:
                bad.append(f"leaf {i} call {step + 1}: output key")
    return {"violated": bool(bad), "observed": f"one tree object {w['shape']}, keys d={w['d']:#x}, d2={w['d2']:#x}, calls control_block(P1), (P2), (P1) per leaf: {bad[:4] or 'all as BIP341'}"}


# ---------------------------------------------------------------------------------------- O2b leaf scripts past the 1-byte compact size

def spec_compact(n):
    if n < 0xFD:
        return bytes([n])
    if n <= 0xFFFF:
        return b"\xfd" + n.to_bytes(2, "little")
    return b"\xfe" + n.to_bytes(4, "little")


def long_cmds(L, first):
    """commands of a script whose raw serialisation has exactly L bytes: 75-byte pushes, one shorter push, OP_CHECKSIG;
    `first` replaces the first two bytes of the first push"""
    cmds, rem, k = [], L - 1, 0
    while rem > 76:
        body = bytes((7 * k + j) % 251 for j in range(75))
        cmds.append(body)
        rem -= 76
        k += 1
    if rem >= 2:
        cmds.append(bytes((3 * j + 1) % 256 for j in range(rem - 1)))
    elif rem == 1:
        cmds.append(0x51)
    cmds.append(0xAC)
    if first is not None:
        cmds[0] = first + cmds[0][2:]
    return cmds


def raw_of(cmds):
    out = b""
    for c in cmds:
        out = out + (bytes([c]) if isinstance(c, int) else bytes([len(c)]) + c)
    return out


@with_env("taproot", "script")
def _long_leaf_path(e, L, ver):
    tm = loader.load("taproot")
    sc = loader.load("script")
    F = e.fld
    d = SI.var("d", 1, N - 1)
    Ppt = e.point(d)
    first = SBytes.sym("first", 2)
    cmds = long_cmds(L, first)
    wit = lambda env: {"d": env["d"], "L": L, "ver": ver, "first": bytes_env(env, "first", 2).hex()}  # noqa
    script = sc.Script(list(cmds))
    raw = raw_of(cmds)
    assert len(raw) == L
    leaf = tm.TapLeaf(script, ver)
    lh = tagged(b"TapLeaf", bytes([ver]) + spec_compact(L) + raw)
    check(leaf.hash() == lh, "TapLeaf.hash differs from H_TapLeaf(version || compact_size(script) || script) for a long script", witness=wit)
    Px, Ppar = e.grp.coords(d)
    dd = (N - d) if branch(Ppar) else d
    t = core.int_from_bytes(tagged(b"TapTweak", to32(core.wrap(Px)) + lh), "big")
    want = F.reduce(field.lift_si(dd) + field.lift_si(t))
    assume(wrapb(core.b_not(F.is_zero_cond(field.lift_si(want)))))
    try:
        check(F.same(leaf.external_pubkey(Ppt).d, want), "output key of a single long leaf is not even(P) + H_TapTweak(P||leaf hash)*G", witness=wit)
        cb = leaf.control_block(Ppt)
    except AttributeError:
        # only the BIP341 output key is assumed finite: the implementation tweaked with something else
        check(False, "the implementation's output key is not the BIP341 one (it may be the point at infinity where BIP341's is not)", witness=wit)
        return "other tweak"
    Qx, Qpar = e.grp.coords(want)
    exp = core.sbytes(SBytes([ver + core.s_ite(wrapb(Qpar), 1, 0)])) + to32(core.wrap(Px))
    ser = cb.serialize()
    check((len(ser) == len(exp)) and (ser == exp), "control block of a single long leaf", witness=wit)
    back = tm.ControlBlock.parse(ser)
    check(back.merkle_root(script) == lh, "control block does not fold to the leaf hash", witness=wit)
    check(F.same(back.external_pubkey(script).d, want), "control block does not recompute the output key", witness=wit)
    return "ok"


def ob_long_leaf(lengths):
    runs = [sym_run(lambda: _long_leaf_path(L, ver), mode="int", timeout_ms=60000) for L in lengths for ver in (0xC0,)]
    m = merge_runs(runs)
    m["sample"] = {"raw script length": list(lengths), "script": "75-byte pushes (two symbolic bytes), a shorter push, OP_CHECKSIG", "key": "d*G, d symbolic"}
    return m


def replay_long_leaf(w):
    from buidl import pecc, taproot, script
    d, L, ver = w["d"], w["L"], w["ver"]
    cmds = long_cmds(L, bytes.fromhex(w["first"]))
    sc_ = script.Script(list(cmds))
    raw = raw_of(cmds)
    Pp = d * pecc.G
    leaf = taproot.TapLeaf(sc_, ver)
    lh = ref_tag(b"TapLeaf", bytes([ver]) + spec_compact(L) + raw)
    dd = d if Pp.y.num % 2 == 0 else N - d
    t = int.from_bytes(ref_tag(b"TapTweak", Pp.x.num.to_bytes(32, "big") + lh), "big")
    Qw = ((dd + t) % N) * pecc.G
    bad = []
    if sc_.raw_serialize() != raw:
        bad.append("script bytes")
    if leaf.hash() != lh:
        bad.append("leaf hash")
    if leaf.external_pubkey(Pp) != Qw:
        bad.append("output key")
    cb = leaf.control_block(Pp)
    if cb is None or cb.serialize() != bytes([ver + Qw.parity]) + Pp.x.num.to_bytes(32, "big"):
        bad.append("control block")
    elif taproot.ControlBlock.parse(cb.serialize()).external_pubkey(sc_) != Qw:
        bad.append("control block recompute")
    return {"violated": bool(bad), "observed": f"leaf script of {L} bytes (compact size {spec_compact(L).hex()}): {bad or 'as BIP341'}"}


# ---------------------------------------------------------------------------------------- O4 tamper (structural, under injectivity)

@with_env("taproot", "script")
def _tamper_path(e, pos):
    """alter byte `pos` of a control block of a 3-leaf tree to a different symbolic value: either parse refuses it, or one of
    (version|parity byte, internal key bytes, a path hash) differs from the genuine one -- i.e. some *input* of the commitment
    recomputation changes.  That the changed input changes the output key is the stated injectivity/binding assumption."""
    tm = loader.load("taproot")
    sc = loader.load("script")
    d = SI.var("d", 1, N - 1)
    Ppt = e.point(d)
    pushes = [SBytes.sym(f"leaf{i}", 1) for i in range(3)]
    for i in range(3):
        for j in range(i + 1, 3):
            assume(pushes[i] != pushes[j])
    scripts = [sc.Script([pushes[i], 0xAC]) for i in range(3)]
    leaves = [tm.TapLeaf(scripts[i], 0xC0) for i in range(3)]
    tree = tm.TapBranch(leaves[0], tm.TapBranch(leaves[1], leaves[2]))
    Px, Ppar = e.grp.coords(d)
    dd = (N - d) if branch(Ppar) else d
    t = core.int_from_bytes(tagged(b"TapTweak", to32(core.wrap(Px)) + tree.hash()), "big")
    want = e.fld.reduce(field.lift_si(dd) + field.lift_si(t))
    assume(wrapb(core.b_not(e.fld.is_zero_cond(field.lift_si(want)))))
    cb = tree.control_block(Ppt, leaves[1])
    ser = core.sbytes(cb.serialize())
    nv = SI.var("newbyte", 0, 255)
    assume(nv != ser[pos])
    items = list(ser.items)
    items[pos] = nv
    alt = SBytes(items)
    wit = lambda env: {"pos": pos, "new": env["newbyte"], "d": env["d"], "pushes": [bytes_env(env, f"leaf{i}", 1).hex() for i in range(3)]}  # noqa
    try:
        back = tm.ControlBlock.parse(alt)
    except ValueError:
        check(True, "rejected")
        return "rejected"
    re = core.sbytes(back.serialize())
    check(s_or(*[re[i] != ser[i] for i in range(len(ser))]), "altered control block parses to the same commitment inputs", witness=wit)
    return "changed"


def ob_tamper(positions):
    runs = [sym_run(lambda: _tamper_path(pos), mode="bv", timeout_ms=60000) for pos in positions]
    m = merge_runs(runs)
    m["sample"] = {"control block": "97 bytes (3-leaf tree, depth-2 leaf)", "alteration": "one byte position, symbolic different value"}
    return m


def replay_tamper(w):
    """real keys and hashes: alter the byte; the alteration must be refused by parse or show up in the parsed commitment inputs"""
    from buidl import pecc, taproot, script
    Pp = w["d"] * pecc.G
    scripts = [script.Script([bytes.fromhex(x), 0xAC]) for x in w["pushes"]]
    leaves = [taproot.TapLeaf(sc_, 0xC0) for sc_ in scripts]
    tree = taproot.TapBranch(leaves[0], taproot.TapBranch(leaves[1], leaves[2]))
    ser = tree.control_block(Pp, leaves[1]).serialize()
    new = w["new"] if w["new"] != ser[w["pos"]] else (w["new"] ^ 4)
    alt = ser[:w["pos"]] + bytes([new]) + ser[w["pos"] + 1:]
    try:
        back = taproot.ControlBlock.parse(alt)
    except ValueError:
        return {"violated": False, "observed": "rejected"}
    same = back.serialize() == ser
    return {"violated": same, "observed": f"byte {w['pos']} {ser[w['pos']]:#x} -> {new:#x}: parses, and re-serialises {'to the ORIGINAL bytes' if same else 'differently'}"}


# ---------------------------------------------------------------------------------------- O4v tamper of the version/parity byte, followed through the recomputation

def assume_collision_free(start):
    """the stated collision-resistance assumption, instantiated for every pair of (uninterpreted) hash calls made on this path since
    `start`: equal digests only for equal inputs"""
    calls, seen = [], set()
    for fname, node in shims.HASH_CALLS[start:]:
        if id(node) not in seen:
            seen.add(id(node))
            calls.append((fname, node))
    for i in range(len(calls)):
        for j in range(i + 1, len(calls)):
            (fa, na), (fb, nb) = calls[i], calls[j]
            if fa.split("_")[0] != fb.split("_")[0]:
                continue
            if fa == fb:
                same_in = core.b_and(*[core.b_cmp("eq", x, y) for x, y in zip(na.args[3:], nb.args[3:])])
                assume(wrapb(core.b_or(core.b_not(core.b_cmp("eq", na, nb)), same_in)))
            else:
                assume(wrapb(core.b_not(core.b_cmp("eq", na, nb))))


@with_env("taproot", "script")
def _tamper_first_path(e, n):
    """the first control-block byte (leaf version | parity) of a genuine control block -- any even leaf version, solver-chosen -- is
    replaced by any other byte value (new version 2*nvh, new parity bit nvp, both solver-chosen).  Unlike O4-tamper this follows the
    altered block through the recomputation: with another leaf version the block must no longer fold to the committed Merkle root
    (collision-freeness of the tagged hashes is assumed for the hash calls of the path; that another root gives another output key is
    the stated binding assumption); with only the parity bit flipped the announced parity is no longer the output key's."""
    tm = loader.load("taproot")
    sc = loader.load("script")
    F = e.fld
    h0 = len(shims.HASH_CALLS)
    d = SI.var("d", 1, N - 1)
    Ppt = e.point(d)
    ver = 2 * SI.var("verh", 0, 127)
    pushes = [SBytes.sym(f"leaf{i}", 1) for i in range(n)]
    for i in range(n):
        for j in range(i + 1, n):
            assume(pushes[i] != pushes[j])
    scripts = [sc.Script([pushes[i], 0xAC]) for i in range(n)]
    k = n - 1   # the leaf that is spent: the deepest one of a right comb
    versions = [0xC0] * (n - 1) + [ver]
    leaves = [tm.TapLeaf(scripts[i], versions[i]) for i in range(n)]
    shape = shapes(n)[0] if n > 1 else 0
    tree = build_tree(tm, shape, leaves)
    raw_scripts = [bytes([1]) + pushes[i] + b"\xac" for i in range(n)]
    lh = [spec_leaf_hash(versions[i], raw_scripts[i]) for i in range(n)]
    for i in range(n):
        for j in range(i + 1, n):
            assume(lh[i] != lh[j])
    root, paths = spec_tree(shape, lh)
    Px, Ppar = e.grp.coords(d)
    dd = (N - d) if branch(Ppar) else d
    t = core.int_from_bytes(tagged(b"TapTweak", to32(core.wrap(Px)) + root), "big")
    want = F.reduce(field.lift_si(dd) + field.lift_si(t))
    assume(wrapb(core.b_not(F.is_zero_cond(field.lift_si(want)))))
    Qx, Qpar = e.grp.coords(want)
    parity = core.s_ite(wrapb(Qpar), 1, 0)
    wit_build = lambda env: {"n": n, "d": env["d"], "ver": 2 * env["verh"], "build": True,  # noqa
                             "pushes": [bytes_env(env, f"leaf{i}", 1).hex() for i in range(n)]}
    exp = core.sbytes(SBytes([ver + parity])) + to32(core.wrap(Px))
    for h in paths[k]:
        exp = exp + h
    try:
        cb = tree.control_block(Ppt, leaves[k])
    except AttributeError:
        # only the BIP341 output key is assumed finite: the implementation tweaked with something else
        check(False, "the implementation's output key is not the BIP341 one (it may be the point at infinity where BIP341's is not)", witness=wit_build)
        return "other tweak"
    ser = cb.serialize()
    if not check((len(ser) == len(exp)) and (ser == exp), "the control block that is going to be altered is not the BIP341 one", witness=wit_build):
        return "other block"
    nvh = SI.var("nvh", 0, 127)
    nvp = SI.var("nvp", 0, 1)
    nver = 2 * nvh
    assume(s_or(nver != ver, nvp != parity))   # the byte is altered
    alt = core.sbytes(SBytes([nver + nvp])) + ser[1:]
    flip = bool(nvp != parity)
    wit = lambda env: {"n": n, "d": env["d"], "ver": 2 * env["verh"], "newver": 2 * env["nvh"], "flip": flip,  # noqa
                       "pushes": [bytes_env(env, f"leaf{i}", 1).hex() for i in range(n)]}
    try:
        back = tm.ControlBlock.parse(alt)
    except ValueError:
        check(True, "rejected")
        return "rejected"
    check(s_and(back.tapleaf_version == nver, back.parity == nvp), "parsed leaf version / parity are not those of the altered first byte", witness=wit)
    if bool(nver != ver):
        if flip:
            return "version and parity altered"   # the announced parity (checked above) is not the output key's any more
        got = back.merkle_root(scripts[k])
        assume_collision_free(h0)
        check(got != root, "control block with an altered leaf version still folds to the committed Merkle root", witness=wit)
        return "version altered"
    # only the parity bit is flipped: whatever key is recomputed, the announced parity is no longer the output key's
    check(s_not(back.parity == parity), "control block with the parity bit flipped still announces the output key's parity", witness=wit)
    return "parity flipped"


def ob_tamper_first(ns):
    runs = [sym_run(lambda: _tamper_first_path(n), mode="bv", timeout_ms=60000, max_paths=3000, max_violations=12,
                    expect_classes=["version altered", "version and parity altered", "parity flipped"]) for n in ns]
    m = merge_runs(runs)
    m["sample"] = {"control block": "of the last leaf of a tree with %s leaves, leaf version any even byte (symbolic)" % (list(ns),),
                   "alteration": "first byte -> any other value (symbolic new version and parity bit)"}
    return m


def replay_tamper_first(w):
    """real keys and hashes: the altered block must be refused or must not reproduce the genuine output key and parity"""
    from buidl import pecc, taproot, script
    n = w["n"]
    Pp = w["d"] * pecc.G
    scripts = [script.Script([bytes.fromhex(x), 0xAC]) for x in w["pushes"]]
    versions = [0xC0] * (n - 1) + [w["ver"]]
    shape = shapes(n)[0] if n > 1 else 0
    # the genuine commitment, computed independently of the library's tree code
    def rtree(sh):
        if isinstance(sh, int):
            raw = scripts[sh].raw_serialize()
            return ref_tag(b"TapLeaf", bytes([versions[sh]]) + bytes([len(raw)]) + raw), {sh: []}
        lh, lp = rtree(sh[0])
        rh, rp = rtree(sh[1])
        paths = {k: v + [rh] for k, v in lp.items()}
        paths.update({k: v + [lh] for k, v in rp.items()})
        return ref_tag(b"TapBranch", min(lh, rh) + max(lh, rh)), paths
    root, paths = rtree(shape)
    dd = w["d"] if Pp.y.num % 2 == 0 else N - w["d"]
    t = int.from_bytes(ref_tag(b"TapTweak", Pp.x.num.to_bytes(32, "big") + root), "big")
    Qw = ((dd + t) % N) * pecc.G
    genuine = bytes([w["ver"] + Qw.parity]) + Pp.x.num.to_bytes(32, "big") + b"".join(paths[n - 1])
    leaves = [taproot.TapLeaf(scripts[i], versions[i]) for i in range(n)]
    built = build_tree(taproot, shape, leaves).control_block(Pp, leaves[n - 1])
    if built is None or built.serialize() != genuine:
        return {"violated": True, "observed": f"{n}-leaf tree, leaf version {w['ver']:#x}: the library builds control block "
                                              f"{built.serialize().hex() if built else None}, BIP341: {genuine.hex()}"}
    if w.get("build"):
        return {"violated": False, "observed": "the library builds the BIP341 control block"}
    new = w["newver"] + (Qw.parity ^ (1 if w["flip"] else 0))
    if new == genuine[0]:
        return {"violated": False, "observed": "not an alteration on the real curve"}
    alt = bytes([new]) + genuine[1:]
    try:
        back = taproot.ControlBlock.parse(alt)
        q2 = back.external_pubkey(scripts[n - 1])
    except (ValueError, RuntimeError) as ex:
        return {"violated": False, "observed": f"rejected: {ex!r}"}
    same = q2 == Qw and back.parity == Qw.parity
    return {"violated": same, "observed": f"{n}-leaf tree, leaf version {w['ver']:#x}: first control-block byte {genuine[0]:#x} -> {new:#x} parses and "
                                          f"{'STILL reproduces the output key and parity' if same else 'no longer reproduces the output key and parity'}"}


def obligations(tier):
    q = tier == "quick"
    obs = [Ob("O1-tweak", ob_tweak, replay="tweak")]
    # thorough: every shape up to five leaves (about 90 s per 5-leaf shape); one 6-leaf shape did not finish in 25 minutes, so six
    # leaves are outside the claim (the thorough tier is sized by wall time)
    for n in (range(1, 5) if q else range(1, 6)):
        parts = len(shapes(n))
        for part in range(parts):
            obs.append(Ob("O2O3-tree", ob_tree, {"n": n, "part": part, "parts": parts}, replay="tree", budget_s=3000))
    obs.append(Ob("O2-long-leaf", ob_long_leaf, {"lengths": (252, 253, 254, 520) if q else (252, 253, 254, 255, 256, 300, 520, 4660, 65535, 65536)},
                  replay="long_leaf"))
    # one tree object used with two internal keys (P1, P2, P1 again) for every leaf
    for n in ((2, 3) if q else (2, 3, 4)):
        parts = len(shapes(n))
        for part in range(parts):
            obs.append(Ob("O3-history", ob_history, {"n": n, "part": part, "parts": parts}, replay="history", budget_s=1500))
    for n in ((1, 2) if q else (1, 2, 3)):
        obs.append(Ob("O4-tamper-version", ob_tamper_first, {"ns": (n,)}, replay="tamper_first", budget_s=1500))
    pos = [0, 1, 16, 32, 33, 64, 65, 96] if q else list(range(97))
    for i in range(0, len(pos), 2 if q else 7):
        obs.append(Ob("O4-tamper", ob_tamper, {"positions": tuple(pos[i:i + (2 if q else 7)])}, replay="tamper", budget_s=1500))
    return obs
