"""C10 — PSBT codec and workflow (DESIGN.md section 3, C10).

O1 embedded transaction, O2 round trip, O3 combiner algebra, O4 threshold / order independence, O5 one invalid partial signature
(r, s, sighash byte) on a one-input PSBT, O6 partial signatures on every input of a multi-input PSBT (inputs that share their
public keys included; a PSBT loaded earlier in the same process included): each must be checked against its own input's digest.

Concrete wallets (fixed seeds; BIP32 / EC arithmetic of the shimmed copy runs on plain ints), symbolic data:
version, locktime, sequences, amounts, sighash-type fields, unknown key-value values, partial-signature bytes.
S256Point.verify of the shimmed copy is the real routine on concrete arguments (memoised) and the uninterpreted
predicate Valid(pubkey, z, r, s) as soon as one argument is symbolic; the wrapper forks on the predicate and logs the
decision so that a harness knows whether the current path assumed an invalid signature.

Every oracle below is written over values that may be proxies or plain Python values; the replay_* functions rebuild
the concrete PSBT from the witness dict with the native package (real signatures wherever a path assumed Valid) and
judge it with the same oracle.
"""
import base64
import itertools
import os
import re

from symx import core, loader, shims
from symx.core import SI, SBytes, check, conc_value
from vlib.run import Ob, sym_run, merge_runs

PROPERTY = "C10"
REPO = os.environ.get("VERIF_REPO", "/repo")

META = {
    "bounds": {
        "quick": {"O1 embedded tx": "PSBT.create on transactions with 1..2 inputs x 1..2 outputs, segwit flag False/True, every field "
                                    "symbolic (version, outpoints, sequences, amounts, locktime); the parse route with one symbolic "
                                    "scriptSig byte; the signed transactions of the wallet flows fed back to PSBT.create (in O4)",
                  "O2 round trip": "every parseable PSBT vector of at most 1400 bytes in buidl/test/test_psbt.py + test_psbt_helper.py (tx fields "
                                   "symbolic when the vector carries no signature; hash_type fields, unknown values and six added unknown "
                                   "pairs symbolic always); six wallet kinds (1-of-1 / 2-of-3, 1 input, payment + change output with "
                                   "derivation metadata) x stage {updated, ideal symbolic partial signatures, real partial signatures, "
                                   "finalised} x UTXO records {as written by update, witness + non-witness} x global xpubs, unknown pairs "
                                   "with value length {0, 2} in the global / input / output maps",
                  "O3 combiner": "PSBTIn / PSBTOut / PSBT.combine commutative, idempotent, associative on the serialisation (2-of-2 P2SH, "
                                 "P2WSH, P2SH-P2WSH); field presence per operand through symbolic booleans, jointly within each group of "
                                 "fields that the serialiser couples (UTXO records; signatures + scripts; sighash type + final scripts; "
                                 "derivations + unknowns; 3 fields per group for associativity), the other fields all absent or all "
                                 "present; values symbolic and shared between the operands (equal keys carry equal values)",
                  "O4 threshold": "six wallet kinds, every 1 <= m <= n <= 3 for the multisig kinds, 1 input (2 inputs for 2-of-2, 3 inputs "
                                  "for P2WPKH), symbolic subset of signers; every permutation of sequential signing, of combining "
                                  "separately signed copies (into an unsigned copy and into the first signed copy) and one right-nested "
                                  "combine tree; real signatures; global xpubs for n = 2",
                  "O5 invalid signature": "six wallet kinds (1-of-1 / 2-of-2) x UTXO records {as written by update, witness + non-witness}; "
                                          "one partial signature with symbolic r, s (DER shape of the genuine signature), sighash byte in "
                                          "{0, 1, 2, 3, 0x41, 0x81, 0x82, 0x83, 0xff}",
                  "O6 signature bound to its input": "six wallet kinds (1-of-1 / 2-of-2), 2 inputs locked to the same public key(s) (one address "
                                                     "funded twice) or to different ones; cosigner 0's partial signature on EVERY input "
                                                     "symbolic (r, s of 32 bytes, SIGHASH_ALL; Valid uninterpreted per (key, digest, r, s)), "
                                                     "equalities between the signatures of different inputs decided by the solver; accepted "
                                                     "at load only if each one passed a check against the digest of the input it sits on. "
                                                     "History: the same with another PSBT (same coins, other amount, hence other digests; "
                                                     "its signatures symbolic too) loaded before in the same process (shared-key pattern)"},
        "thorough": {"O1 embedded tx": "1..3 inputs x 1..3 outputs", "O2 round trip": "all vectors; plus 3-of-3 with 2 inputs, every stage",
                     "O3 combiner": "same groups", "O4 threshold": "as quick, plus 2 inputs for every (m, n) with n > 1 and 3 inputs for every single-key kind",
                     "O5 invalid signature": "as quick, plus two symbolic signatures on the 2-of-2 wallets",
                     "O6 signature bound to its input": "as quick, plus 3 inputs with key patterns (a,a,a), (a,b,a), (a,a,b), (a,b,b); both cosigners' "
                                                        "signatures symbolic on the 2-of-2 wallets; UTXO records {as written by update, witness + "
                                                        "non-witness}; the two-load history for both 2-input key patterns"}},
    "outside": ["n = 4 cosigners and 3-input multisig wallets (cost only: the flows are the same code paths)",
                "partial signatures on inputs that carry no UTXO record: nothing to verify them against, the library accepts them "
                "unverified (read as 'cannot be verified', not as 'does not verify')",
                "inputs whose UTXO record type contradicts their script type (witness UTXO on a bare P2SH multisig input)",
                "the lookup logic of update() beyond the six standard wallet kinds; taproot PSBT fields (unsupported by the library)",
                "combine() of PSBTs whose equal keys carry different values (result depends on the order by design); operands whose "
                "field combination the PSBTIn/PSBTOut constructor itself refuses",
                "multisig scripts that repeat a public key (the serialiser then writes the same partial-signature key twice and the "
                "parser refuses the duplicate)",
                "byte layout of the PSBT maps against BIP174 beyond the embedded transaction: (a) is a re-serialisation property; "
                "that serialize(parse(raw)) == raw for third-party raw bytes is not claimed (the serialiser drops what it does not keep)",
                "DER parsing strictness and ECDSA itself (C01/C02): Valid(pubkey, z, r, s) is uninterpreted on symbolic arguments",
                "O6: sighash bytes other than SIGHASH_ALL on multi-input PSBTs (the sighash byte is O5's subject, on one input); DER shapes "
                "other than 32-byte r and s; more than two loads in one process; earlier loads of unrelated wallets; whether a PSBT whose "
                "signatures all verify but which is refused for another reason should load is O2's subject (class 'refused-valid' is not judged)",
                "sighash digests for hash types other than SIGHASH_ALL are the library's own routines (C05); only *which* digest a "
                "partial signature is checked against is judged here"],
    "stubs": ["S256Point.verify = Valid(pubkey, z, r, s) uninterpreted when an argument is symbolic, the real routine (memoised) otherwise",
              "S256Point.__rmul__, PrivateKey.sign, HDPrivateKey.child memoised on their concrete arguments",
              "sha256/ripemd160 uninterpreted on symbolic input", "print() empty"],
    "assumptions": ["ideal signatures in the symbolic-signature stage of O2: the signature bytes satisfy Valid for the digest that PSBT.sign "
                    "computes for that input (the library's own choice between the BIP143 and the legacy digest)",
                    "the digest committed to by a signature whose sighash byte is not SIGHASH_ALL differs from the SIGHASH_ALL digest "
                    "(the 4-byte hash type is part of the hashed preimage; collision resistance)",
                    "replays substitute real signatures (made with the fixed wallet keys) for signature bytes that a path assumed Valid, "
                    "and a genuine signature with one bit of s flipped for bytes a path assumed invalid",
                    "O6 replays: a symbolic signature that the path never checked (or found invalid) and that the solver's model makes equal to "
                    "a signature found valid on another input / in the PSBT loaded before is realised by that other genuine signature (every "
                    "such candidate is tried); the replay's own oracle then verifies each concrete signature with the native ECDSA routine "
                    "against the digest of the input it sits on, so an unrealisable model only yields 'not reproduced'",
                    "O6: a signature made for one input (or for another payment) does not verify for a different input's digest (the outpoint "
                    "and the outputs are part of the hashed preimage; collision resistance) -- checked concretely in every replay"],
}

MANIFEST = {"technique": "symbolic execution of the real PSBT parser / serialiser / combiner / finaliser on concrete wallets with symbolic "
                         "field values and symbolic field presence; signature validity as an uninterpreted predicate; z3 decides each path"}

KINDS = ("p2pkh", "p2wpkh", "p2sh-p2wpkh", "p2sh", "p2wsh", "p2sh-p2wsh")
SINGLE = ("p2pkh", "p2wpkh", "p2sh-p2wpkh")
SEGWIT_KINDS = ("p2wpkh", "p2sh-p2wpkh", "p2wsh", "p2sh-p2wsh")
SIGHASH_ALL = 1


# ---------------------------------------------------------------------------------------- module sets (shimmed / native)

class Mods:
    def __init__(self, native):
        self.native = native
        if native:
            import importlib
            import io
            loader.install()  # puts VERIF_REPO on sys.path
            L = lambda n: importlib.import_module("buidl." + n)  # noqa
            self.BytesIO = io.BytesIO
        else:
            L = loader.load
            self.BytesIO = shims.BytesIOShim
        for n in ("hd", "psbt", "tx", "script", "ecc", "helper", "witness", "timelock"):
            setattr(self, n, L(n))
        if not native:
            _install(self)


_MODS = {}
VALID_LOG = []  # decisions of the Valid predicate on the current path
VALID_LOG_RS = []  # the same decisions with the signature they were about: (ok, sec, z, r, s)


def mods(native=False):
    if native not in _MODS:
        _MODS[native] = Mods(native)
    return _MODS[native]


def _plain(v):
    return isinstance(v, int) and not isinstance(v, SI)


def valid_pred(sec, z, r, s):
    """Valid(pubkey, z, r, s): uninterpreted"""
    px = int.from_bytes(sec[1:], "big")
    u = core.n_uf("Valid", 1, [core.const(px), core.lift(z), core.lift(r), core.lift(s)], widths=(256, 264, 264, 264))
    return core.wrapb(core.b_cmp("eq", u, core.const(1)))


def _install(M):
    """memoise the concrete EC work of the shimmed copy; Valid(...) for symbolic signature data"""
    P = M.ecc.S256Point
    if getattr(P, "_c10_installed", False):
        return
    P._c10_installed = True
    real_verify = P.verify
    vcache = {}

    def verify(self, z, sig):
        r, s = sig.r, sig.s
        if _plain(z) and _plain(r) and _plain(s):
            k = (self.sec(), z, r, s)
            if k not in vcache:
                vcache[k] = bool(real_verify(self, z, sig))
            return vcache[k]
        ok = bool(valid_pred(self.sec(), z, r, s))
        VALID_LOG.append((ok, self.sec(), z))
        VALID_LOG_RS.append((ok, self.sec(), z, r, s))
        return ok
    P.verify = verify

    real_rmul = P.__rmul__
    rcache = {}
    order = M.ecc.N

    def rmul(self, coefficient):
        if not _plain(coefficient) or self.x is None:
            return real_rmul(self, coefficient)
        k = (self.x.num, self.y.num, coefficient % order)
        if k not in rcache:
            r = real_rmul(self, coefficient)
            rcache[k] = None if r.x is None else (r.x.num, r.y.num)
            return r
        v = rcache[k]
        return real_rmul(self, 0) if v is None else type(self)(v[0], v[1])
    P.__rmul__ = rmul

    K = M.ecc.PrivateKey
    real_sign = K.sign
    scache = {}

    def sign(self, z):
        if not (_plain(z) and _plain(self.secret)):
            raise core.Unsupported("signing a symbolic digest")
        k = (self.secret, z)
        if k not in scache:
            scache[k] = real_sign(self, z)
        return scache[k]
    K.sign = sign

    H = M.hd.HDPrivateKey
    real_child = H.child
    ccache = {}

    def child(self, index):
        k = (self.private_key.secret, self.chain_code, self.depth, index)
        if k not in ccache:
            ccache[k] = real_child(self, index)
        return ccache[k]
    H.child = child


# ---------------------------------------------------------------------------------------- independent byte-layout spec

def le(x, n):
    if _plain(x):
        return x.to_bytes(n, "little")
    return core.wrap(core.lift(x)).to_bytes(n, "little")


def spec_varint(n):
    if n < 0xFD:
        return bytes([n])
    if n < 0x10000:
        return b"\xfd" + n.to_bytes(2, "little")
    if n < 0x100000000:
        return b"\xfe" + n.to_bytes(4, "little")
    return b"\xff" + n.to_bytes(8, "little")


def spec_varstr(b):
    return spec_varint(len(b)) + b


def spec_unsigned_tx(version, ins, outs, locktime):
    """non-witness serialisation with empty scriptSigs.  ins: (prev_tx big-endian, index, sequence); outs: (amount, raw script)"""
    out = le(version, 4) + spec_varint(len(ins))
    for (ptx, idx, seq) in ins:
        out = out + ptx[::-1] + le(idx, 4) + b"\x00" + le(seq, 4)
    out = out + spec_varint(len(outs))
    for (amt, spk) in outs:
        out = out + le(amt, 8) + spec_varstr(spk)
    return out + le(locktime, 4)


def _cs(raw, pos):
    """compact size at raw[pos] (structure bytes are concrete in every harness)"""
    b = raw[pos]
    if not _plain(b):
        raise core.Unsupported("symbolic length byte in a PSBT under inspection")
    if b < 0xFD:
        return b, pos + 1
    w = {0xFD: 2, 0xFE: 4, 0xFF: 8}[b]
    items = [raw[pos + 1 + i] for i in range(w)]
    if not all(_plain(i) for i in items):
        raise core.Unsupported("symbolic length bytes in a PSBT under inspection")
    return int.from_bytes(bytes(items), "little"), pos + 1 + w


def global_tx_value(raw):
    """value of the first global pair; None unless its key is the single byte 0x00"""
    if bytes(raw[:5]) != b"psbt\xff":
        return None
    klen, p = _cs(raw, 5)
    key = raw[p:p + klen]
    p += klen
    if klen != 1 or key != b"\x00":
        return None
    vlen, p = _cs(raw, p)
    return raw[p:p + vlen]


def beq(a, b):
    """equality of two byte strings as bool / SB (different lengths: False)"""
    if len(a) != len(b):
        return False
    return a == b


def fields_of(tx):
    """(version, ins, outs, locktime) of a Tx object for spec_unsigned_tx"""
    return (tx.version, [(i.prev_tx, i.prev_index, i.sequence) for i in tx.tx_ins],
            [(o.amount, o.script_pubkey.raw_serialize()) for o in tx.tx_outs], tx.locktime)


def embedded_ok(raw, tx):
    emb = global_tx_value(raw)
    if emb is None:
        return False
    return beq(emb, spec_unsigned_tx(*fields_of(tx)))


# ---------------------------------------------------------------------------------------- wallets

_CACHE = {}


def roots(M, n):
    out = []
    for i in range(n):
        k = (M.native, "root", i)
        if k not in _CACHE:
            _CACHE[k] = M.hd.HDPrivateKey.from_seed(b"c10 cosigner %d" % i, network="mainnet")
        out.append(_CACHE[k])
    return out


def named(M, i, path):
    k = (M.native, "named", i, path)
    if k not in _CACHE:
        _CACHE[k] = M.psbt.NamedHDPublicKey.from_hd_priv(roots(M, i + 1)[i], path)
    return _CACHE[k]


def wallet_script(M, kind, m, n, k):
    """(script_pubkey, redeem_script|None, witness_script|None, [NamedHDPublicKey]) of key index k"""
    S = M.script
    pubs = [named(M, i, "m/0/%d" % k) for i in range(n)]
    if kind in SINGLE:
        h160 = pubs[0].hash160()
        if kind == "p2pkh":
            return S.P2PKHScriptPubKey(h160), None, None, pubs
        if kind == "p2wpkh":
            return S.P2WPKHScriptPubKey(h160), None, None, pubs
        r = S.RedeemScript([0, h160])
        return r.script_pubkey(), r, None, pubs
    cmds = [0x50 + m] + [p.sec() for p in pubs] + [0x50 + n, 0xAE]
    if kind == "p2sh":
        r = S.RedeemScript(cmds)
        return r.script_pubkey(), r, None, pubs
    w = S.WitnessScript(cmds)
    if kind == "p2wsh":
        return w.script_pubkey(), None, w, pubs
    r = S.RedeemScript([0, w.sha256()])
    return r.script_pubkey(), r, w, pubs


def F0(n_in):
    return {"version": 2, "locktime": 0, "seq": [0xFFFFFFFE] * n_in, "in_amt": [100000 + k for k in range(n_in)],
            "out_amt": [40000 * n_in, 50000 * n_in]}


def prev_tx_of(M, kind, m, n, k, amount, key=None):
    """the transaction that funds input k; its first output pays to the wallet's key index `key` (default: k)"""
    T = M.tx
    spk = wallet_script(M, kind, m, n, k if key is None else key)[0]
    return T.Tx(1, [T.TxIn(bytes([0x11 + k]) * 32, k)], [T.TxOut(amount, spk), T.TxOut(1000, M.script.Script([0x6A]))], 0, network="mainnet")


def build(M, kind, m, n, n_in, F, xpub=False, validate=True, segwit=False, keys=None):
    """create + update through the library's own entry point.  keys: key index that input k is locked to (default: k, a new
    address for every input); equal entries = the same address funded more than once"""
    T = M.tx
    tx_lookup, pubkey_lookup, redeem_lookup, witness_lookup = {}, {}, {}, {}

    def reg(r, w, pubs):
        for p in pubs:
            pubkey_lookup[p.sec()] = p
            pubkey_lookup[p.hash160()] = p
        if r is not None:
            redeem_lookup[r.hash160()] = r
        if w is not None:
            witness_lookup[w.sha256()] = w
    tx_ins = []
    for k in range(n_in):
        key = k if keys is None else keys[k]
        spk, r, w, pubs = wallet_script(M, kind, m, n, key)
        prev = prev_tx_of(M, kind, m, n, k, F["in_amt"][k], key)
        tx_lookup[prev.hash()] = prev
        reg(r, w, pubs)
        tx_ins.append(T.TxIn(prev.hash(), 0, sequence=F["seq"][k]))
    spk, r, w, pubs = wallet_script(M, kind, m, n, 7)  # change
    reg(r, w, pubs)
    tx_outs = [T.TxOut(F["out_amt"][0], M.script.P2WPKHScriptPubKey(b"\x42" * 20)), T.TxOut(F["out_amt"][1], spk)]
    tx = T.Tx(F["version"], tx_ins, tx_outs, F["locktime"], network="mainnet", segwit=segwit)
    hd_pubs = {}
    if xpub:
        for i in range(n):
            a = named(M, i, "m/0")
            hd_pubs[a.raw_serialize()] = a
    return M.psbt.PSBT.create(tx, validate=validate, tx_lookup=tx_lookup, pubkey_lookup=pubkey_lookup, redeem_lookup=redeem_lookup,
                              witness_lookup=witness_lookup, hd_pubs=hd_pubs)


def build_lenient(M, kind, m, n, n_in, F, xpub=False, keys=None):
    """(psbt, error of the validating create or None)"""
    try:
        return build(M, kind, m, n, n_in, F, xpub, keys=keys), None
    except Exception as e:
        return build(M, kind, m, n, n_in, F, xpub, validate=False, keys=keys), "PSBT.create(validate=True) raises " + _msg(e)


def add_both_utxos(M, p, kind, m, n, F, keys=None):
    """what an updater that supplies the full previous transaction next to the witness UTXO produces"""
    for k, pi in enumerate(p.psbt_ins):
        pi.prev_tx = prev_tx_of(M, kind, m, n, k, F["in_amt"][k], None if keys is None else keys[k])


# ---------------------------------------------------------------------------------------- symbolic / concrete field substitution

UNK_KEYS = {"g": (b"\xfc\x05buidl\x01", b"\x0f\xaa"), "in": (b"\xfc\x05buidl\x02", b"\x0a"), "out": (b"\xfc\x05buidl\x03", b"\x09\x01")}


class SymVals:
    """val(name, nbytes) -> fresh symbolic int in [0, 256^nbytes); val(name, nbytes, True) -> symbolic bytes"""

    def __init__(self):
        self.made = {}

    def __call__(self, name, nbytes, as_bytes=False):
        if as_bytes:
            v = SBytes.sym(name, nbytes) if nbytes else b""
        else:
            v = SI.var(name, 0, (1 << (8 * nbytes)) - 1)
        self.made[name] = v
        return v

    def witness(self, env):
        out = {}
        for k, v in self.made.items():
            c = conc_value(v, env)
            out[k] = c.hex() if isinstance(c, (bytes, bytearray)) else c
        return out


class ConcVals:
    def __init__(self, vals):
        self.vals = vals

    def __call__(self, name, nbytes, as_bytes=False):
        v = self.vals[name]
        return bytes.fromhex(v) if as_bytes else v


def apply_fields(M, p, val, edit_tx, add_ht=False, unk_len=None):
    """replace data fields of a PSBT object by val(...) values (same function for the symbolic run and the replay)"""
    if edit_tx:
        p.tx_obj.version = val("version", 4)
        p.tx_obj.locktime = M.timelock.Locktime(val("locktime", 4))
        for k, ti in enumerate(p.tx_obj.tx_ins):
            ti.sequence = M.timelock.Sequence(val(f"seq{k}", 4))
        for j, to in enumerate(p.tx_obj.tx_outs):
            to.amount = val(f"out_amt{j}", 8)
    for idx, key in enumerate(sorted(p.extra_map)):
        p.extra_map[key] = val(f"g.unk{idx}", len(p.extra_map[key]), True)
    for k, pi in enumerate(p.psbt_ins):
        if edit_tx and pi.prev_out is not None and pi.prev_tx is None:
            a = val(f"in_amt{k}", 8)
            pi.prev_out = M.tx.TxOut(a, pi.prev_out.script_pubkey)
            pi.tx_in._value = a
        if pi.hash_type is not None or add_ht:
            pi.hash_type = val(f"ht{k}", 4)
        for idx, key in enumerate(sorted(pi.extra_map)):
            pi.extra_map[key] = val(f"in{k}.unk{idx}", len(pi.extra_map[key]), True)
        if unk_len is not None:
            for idx, key in enumerate(UNK_KEYS["in"]):
                pi.extra_map[key] = val(f"in{k}.new{idx}", unk_len, True)
    for j, po in enumerate(p.psbt_outs):
        for idx, key in enumerate(sorted(po.extra_map)):
            po.extra_map[key] = val(f"out{j}.unk{idx}", len(po.extra_map[key]), True)
        if unk_len is not None:
            for idx, key in enumerate(UNK_KEYS["out"]):
                po.extra_map[key] = val(f"out{j}.new{idx}", unk_len, True)
    if unk_len is not None:
        for idx, key in enumerate(UNK_KEYS["g"]):
            p.extra_map[key] = val(f"g.new{idx}", unk_len, True)


def sym_der(val, name, rlen=32, slen=32):
    """DER-shaped signature with symbolic r, s and symbolic sighash byte"""
    r = val(name + ".r", rlen, True)
    s = val(name + ".s", slen, True)
    body = bytes([2, rlen]) + r + bytes([2, slen]) + s
    sb = val(name + ".sighash", 1)
    return bytes([0x30, len(body)]) + body + SBytes([sb])


def signer_digest(p, k):
    """the digest PSBT.sign signs for input k (the library's own choice between the BIP143 and the legacy digest)"""
    pi = p.psbt_ins[k]
    if pi.use_segwit_signature():
        return p.tx_obj.sig_hash_bip143(k, pi.redeem_script, pi.witness_script)
    return p.tx_obj.sig_hash_legacy(k, pi.redeem_script)


# ---------------------------------------------------------------------------------------- O1 embedded transaction format

OUT_SCRIPTS = (bytes.fromhex("0014") + b"\x42" * 20, bytes.fromhex("76a914") + b"\x43" * 20 + bytes.fromhex("88ac"),
               bytes.fromhex("a914") + b"\x44" * 20 + bytes.fromhex("87"))


def _plain_tx(M, val, n_in, n_out, segwit):
    T = M.tx
    ins = [(val(f"in{k}.prev", 32, True), val(f"in{k}.idx", 4), val(f"in{k}.seq", 4)) for k in range(n_in)]
    outs = [(val(f"out{j}.amt", 8), OUT_SCRIPTS[j % 3]) for j in range(n_out)]
    version, locktime = val("version", 4), val("locktime", 4)
    tx = T.Tx(version, [T.TxIn(p, i, None, s) for (p, i, s) in ins], [T.TxOut(a, M.script.ScriptPubKey.parse(M.BytesIO(spec_varstr(s)))) for (a, s) in outs],
              locktime, network="mainnet", segwit=segwit)
    return tx, (version, ins, outs, locktime)


def _embedded_judge(M, val, n_in, n_out, segwit):
    """shared by the symbolic path and the replay: returns (ok, description)"""
    tx, spec = _plain_tx(M, val, n_in, n_out, segwit)
    p = M.psbt.PSBT.create(tx)
    raw = p.serialize()
    emb = global_tx_value(raw)
    want = spec_unsigned_tx(*spec)
    if emb is None:
        return False, raw, "first global pair is not the unsigned transaction"
    return beq(emb, want), raw, f"embedded transaction has {len(emb)} bytes, the non-witness form has {len(want)}"


def _embedded_create_path(n_in, n_out, segwit):
    M = mods()
    val = SymVals()
    w = lambda env: {"route": "create", "n_in": n_in, "n_out": n_out, "segwit": segwit, "vals": val.witness(env)}  # noqa
    ok, raw, what = _embedded_judge(M, val, n_in, n_out, segwit)
    check(ok, "PSBT.create: embedded unsigned transaction is not the non-witness serialisation with empty scriptSigs", witness=w)
    # the library must be able to load what it wrote
    try:
        q = M.psbt.PSBT.parse(M.BytesIO(raw))
    except Exception as e:
        check(False, f"PSBT.parse(PSBT.create(tx).serialize()) raises {type(e).__name__}", witness=w)
        return "unparseable"
    check(beq(q.serialize(), raw), "serialize(parse(serialize(create(tx)))) differs", witness=w)
    return "ok"


def _embedded_scriptsig_path(n_in):
    """parse route: an embedded transaction whose first scriptSig is one symbolic opcode/push byte must be refused"""
    M = mods()
    val = SymVals()
    tx, (version, ins, outs, locktime) = _plain_tx(M, val, n_in, 1, False)
    sig = val("scriptsig", 1, True)
    core.assume(sig[0] >= 0x4f)  # a one-byte script that is a complete command
    body = le(version, 4) + spec_varint(n_in)
    for k, (ptx, idx, seq) in enumerate(ins):
        body = body + ptx[::-1] + le(idx, 4) + (b"\x01" + sig if k == 0 else b"\x00") + le(seq, 4)
    body = body + b"\x01" + le(outs[0][0], 8) + spec_varstr(outs[0][1]) + le(locktime, 4)
    raw = b"psbt\xff" + b"\x01\x00" + spec_varstr(body) + b"\x00" + b"\x00" * n_in + b"\x00"
    w = lambda env: {"route": "parse-scriptsig", "n_in": n_in, "n_out": 1, "segwit": False, "vals": val.witness(env)}  # noqa
    try:
        M.psbt.PSBT.parse(M.BytesIO(raw))
    except Exception:
        check(True, "refused")
        return "refused"
    check(False, "PSBT.parse accepts an embedded transaction with a non-empty scriptSig", witness=w)
    return "accepted"


def ob_embedded(n_in, n_out, segwit):
    runs = [sym_run(lambda: _embedded_create_path(n_in, n_out, segwit), max_violations=2)]
    if not segwit and n_out == 1:
        runs.append(sym_run(lambda: _embedded_scriptsig_path(n_in), expect_classes=["refused"]))
    m = merge_runs(runs)
    m["sample"] = {"tx": f"{n_in} inputs, {n_out} outputs, segwit flag {segwit}", "fields": "version, outpoints, sequences, amounts, locktime symbolic"}
    return m


def replay_embedded(w):
    M = mods(True)
    val = ConcVals(w["vals"])
    if w["route"] == "create":
        ok, raw, what = _embedded_judge(M, val, w["n_in"], w["n_out"], w["segwit"])
        if not ok:
            return {"violated": True, "observed": f"PSBT.create(Tx(segwit={w['segwit']}, {w['n_in']} in, {w['n_out']} out)).serialize(): {what}; raw={bytes(raw).hex()[:120]}"}
        try:
            q = M.psbt.PSBT.parse(M.BytesIO(raw))
        except Exception as e:
            return {"violated": True, "observed": f"re-parse raised {e!r}"}
        return {"violated": q.serialize() != raw, "observed": "embedded form ok; round trip compared"}
    n_in = w["n_in"]
    tx, (version, ins, outs, locktime) = _plain_tx(M, val, n_in, 1, False)
    sig = val("scriptsig", 1, True)
    body = le(version, 4) + spec_varint(n_in)
    for k, (ptx, idx, seq) in enumerate(ins):
        body = body + ptx[::-1] + le(idx, 4) + (b"\x01" + sig if k == 0 else b"\x00") + le(seq, 4)
    body = body + b"\x01" + le(outs[0][0], 8) + spec_varstr(outs[0][1]) + le(locktime, 4)
    raw = b"psbt\xff" + b"\x01\x00" + spec_varstr(body) + b"\x00" + b"\x00" * n_in + b"\x00"
    try:
        M.psbt.PSBT.parse(M.BytesIO(raw))
    except Exception as e:
        return {"violated": False, "observed": f"refused: {e!r}"}
    return {"violated": True, "observed": f"accepted embedded tx with scriptSig {sig.hex()}"}


# ---------------------------------------------------------------------------------------- O2 round trip

def roundtrip_judge(M, p, invalid_sig_assumed):
    """serialise, load, serialise again.  Returns (verdict, detail); verdict in ok / rejected-invalid-sig / raises / differs / embedded"""
    raw1 = p.serialize()
    if embedded_ok(raw1, p.tx_obj) is False:
        return "embedded", "embedded unsigned transaction is not the non-witness serialisation", raw1
    try:
        q = M.psbt.PSBT.parse(M.BytesIO(raw1))
    except Exception as e:
        if invalid_sig_assumed():
            return "rejected-invalid-sig", "", raw1
        return "raises", f"{type(e).__name__}: {(str(e).strip().splitlines() or [""])[0][:70]}", raw1
    raw2 = q.serialize()
    eq = beq(raw2, raw1)
    emb = embedded_ok(raw2, p.tx_obj)
    return ("ok", (eq, emb), raw1)


def _finish_roundtrip(verdict, detail, w):
    if verdict == "ok":
        eq, emb = detail
        check(eq, "serialize(parse(serialize(p))) differs from serialize(p)", witness=w)
        check(emb, "embedded unsigned transaction of the re-serialisation is not the non-witness form", witness=w)
    elif verdict == "rejected-invalid-sig":
        check(True, "rejected because Valid is false on this path")
    elif verdict == "raises":
        check(False, "PSBT.parse(serialize(p)) raises " + detail, witness=w)
    else:
        check(False, detail, witness=w)
    return verdict


def sign_first(M, p, n, count):
    for i in range(count):
        p.sign(roots(M, n)[i])


def make_wallet_psbt(M, val, kind, m, n, n_in, stage, utxo, xpub, unk_len):
    """the PSBT object of a wallet shape; val supplies data (symbolic or concrete).  Returns (psbt, create_error)"""
    F = F0(n_in)
    p, err = build_lenient(M, kind, m, n, n_in, F, xpub)
    if utxo == "both" and kind in SEGWIT_KINDS:
        add_both_utxos(M, p, kind, m, n, F)
    real = stage in ("signed", "final")
    if real:
        sign_first(M, p, n, m if stage == "final" else max(1, m - 1))
        if stage == "final":
            try:
                p.finalize()
            except Exception as e:
                err = err or ("finalize() with the required number of genuine signatures raises " + _msg(e))
    apply_fields(M, p, val, edit_tx=not real and utxo != "both", add_ht=(stage != "final"), unk_len=unk_len)
    if stage == "symsig":
        for k, pi in enumerate(p.psbt_ins):
            for i in range(max(1, m - 1)):
                sec = named(M, i, "m/0/%d" % k).sec()
                if isinstance(val, ConcVals):
                    continue  # the replay signs for real below
                der = sym_der(val, f"in{k}.sig{i}")
                der = der[:len(der) - 1] + bytes([SIGHASH_ALL])
                # a genuine signature by cosigner i over the digest the signer computes (ideal signature)
                core.assume(valid_pred(sec, signer_digest(p, k), core.int_from_bytes(der[4:36]), core.int_from_bytes(der[38:70])))
                pi.sigs[sec] = der
        if isinstance(val, ConcVals):
            # a path that assumed Valid stands for a genuine signature over the concrete transaction: make one
            sign_first(M, p, n, max(1, m - 1))
            for k, pi in enumerate(p.psbt_ins):
                for i in range(max(1, m - 1)):
                    sec = named(M, i, "m/0/%d" % k).sec()
                    pi.sigs[sec] = pi.sigs[sec][:-1] + bytes([SIGHASH_ALL])
    return p, err


def _roundtrip_wallet_path(kind, m, n, n_in, stage, utxo, xpub, unk_len):
    M = mods()
    del VALID_LOG[:]
    val = SymVals()
    shape = {"kind": kind, "m": m, "n": n, "n_in": n_in, "stage": stage, "utxo": utxo, "xpub": xpub, "unk_len": unk_len}
    w = lambda env: {"source": "wallet", "shape": shape, "vals": val.witness(env)}  # noqa
    p, err = make_wallet_psbt(M, val, kind, m, n, n_in, stage, utxo, xpub, unk_len)
    if err is not None:
        check(False, "wallet flow refused: " + err, witness=w)
    # signatures are genuine by assumption: nothing may be refused
    verdict, detail, _ = roundtrip_judge(M, p, lambda: False)
    return _finish_roundtrip(verdict, detail, w)


def ob_roundtrip_wallet(kind, m, n, n_in, stages, utxos, xpub, unk_lens):
    runs = []
    for stage in stages:
        for utxo in utxos:
            for unk_len in unk_lens:
                expect = ["ok"]
                r = sym_run(lambda: _roundtrip_wallet_path(kind, m, n, n_in, stage, utxo, xpub, unk_len), max_violations=2, timeout_ms=60000)
                # reachability twin only where the shape is expected to load at all on a correct library
                if not r["violations"]:
                    for e in expect:
                        if repr(e) not in r["classes"]:
                            r["inconclusive"].append(f"reachability twin: outcome {e!r} never reached for {stage}/{utxo}")
                runs.append(r)
    mr = merge_runs(runs)
    mr["sample"] = {"wallet": f"{kind} {m}-of-{n}, {n_in} input(s), global xpubs {xpub}", "stages": list(stages), "utxo_records": list(utxos),
                    "symbolic": "version, locktime, sequences, amounts, hash_type, unknown values, partial signature r/s/sighash byte"}
    return mr


def replay_roundtrip(w):
    M = mods(True)
    val = ConcVals(w["vals"])
    if w["source"] == "wallet":
        s = w["shape"]
        p, err = make_wallet_psbt(M, val, s["kind"], s["m"], s["n"], s["n_in"], s["stage"], s["utxo"], s["xpub"], s["unk_len"])
        what = f"{s['kind']} {s['m']}-of-{s['n']} stage={s['stage']} utxo={s['utxo']}"
        if err is not None and "wallet flow refused" in (w.get("label") or ""):
            return {"violated": True, "observed": f"{what}: {err}"}
    else:
        p = M.psbt.PSBT.parse(M.BytesIO(bytes.fromhex(w["vector"])))
        apply_fields(M, p, val, edit_tx=w["edit_tx"], unk_len=w["unk_len"])
        what = f"vector of {len(w['vector']) // 2} bytes"
    verdict, detail, raw1 = roundtrip_judge(M, p, lambda: False)
    if verdict == "ok":
        eq, emb = detail
        return {"violated": not (eq and emb), "observed": f"{what}: re-serialisation equal={bool(eq)}, embedded form ok={bool(emb)}"}
    return {"violated": True, "observed": f"{what}: {verdict} {detail}; serialize(p)={bytes(raw1).hex()[:100]}..."}


def repo_vectors():
    out = set()
    for f in ("buidl/test/test_psbt.py", "buidl/test/test_psbt_helper.py"):
        try:
            src = open(os.path.join(REPO, f)).read()
        except OSError:
            continue
        out.update(re.findall(r'"(70736274ff[0-9a-f]+)"', src))
        for b in re.findall(r'"(cHNidP8[A-Za-z0-9+/=]+)"', src):
            try:
                out.add(base64.b64decode(b).hex())
            except Exception:
                pass
    return sorted(out, key=lambda h: (len(h), h))


def _roundtrip_vector_path(hexraw, edit_tx, unk_len):
    M = mods()
    del VALID_LOG[:]
    val = SymVals()
    p = M.psbt.PSBT.parse(M.BytesIO(bytes.fromhex(hexraw)))
    apply_fields(M, p, val, edit_tx=edit_tx, unk_len=unk_len)
    w = lambda env: {"source": "vector", "vector": hexraw, "edit_tx": edit_tx, "unk_len": unk_len, "vals": val.witness(env)}  # noqa
    verdict, detail, _ = roundtrip_judge(M, p, lambda: False)
    return _finish_roundtrip(verdict, detail, w)


def ob_roundtrip_vectors(chunk, of, maxlen):
    N = mods(True)
    vecs = [h for i, h in enumerate(repo_vectors()) if i % of == chunk and len(h) // 2 <= maxlen]
    runs, used = [], 0
    for h in vecs:
        try:
            p = N.psbt.PSBT.parse(N.BytesIO(bytes.fromhex(h)))
        except Exception:
            continue  # the negative vectors of the suite
        has_sig = any(i.sigs or i.script_sig is not None or i.witness is not None for i in p.psbt_ins)
        used += 1
        r = sym_run(lambda: _roundtrip_vector_path(h, not has_sig, 2), expect_classes=["ok"], max_violations=2, timeout_ms=60000)
        runs.append(r)
    if not runs:
        return {"engine": "symx/bv", "stats": core.Stats().asdict(), "classes": {}, "violations": [], "wall_s": 0, "symbolic": True, "vars": [],
                "inconclusive": ["no parseable PSBT vector in this chunk of the repository's test vectors"], "sample": {"vectors": 0}}
    m = merge_runs(runs)
    m["sample"] = {"vectors_in_chunk": used, "symbolic": "tx fields (vectors without signatures), hash_type fields, unknown values, added unknown pairs"}
    return m


# ---------------------------------------------------------------------------------------- O3 combiner algebra

def sym_bool(name):
    n = core.b_var(name)
    core.ctx().vars[name] = n
    return bool(core.wrapb(n))


IN_GROUPS = {
    "utxo": ("prev_tx", "prev_out"),
    "sigs": ("sig0", "sig1", "redeem_script", "witness_script"),
    "single": ("hash_type", "script_sig", "witness"),
    "maps": ("pub0", "pub1", "unk0", "unk1"),
}
IN_FIELDS = ("prev_tx", "prev_out", "sig0", "sig1", "hash_type", "redeem_script", "witness_script", "pub0", "pub1", "script_sig", "witness",
             "unk0", "unk1")
OUT_FIELDS = ("redeem_script", "witness_script", "pub0", "pub1", "unk0", "unk1")


def make_in(M, kind, pres, V):
    """a PSBTIn of a 2-of-2 wallet of `kind` carrying exactly the fields in pres; V: shared values"""
    spk, r, w, pubs = wallet_script(M, kind, 2, 2, 0)
    T = M.tx
    prev = prev_tx_of(M, kind, 2, 2, 0, 100000)
    tx_in = T.TxIn(prev.hash(), 0, sequence=V["seq"])
    kw = {}
    if "prev_tx" in pres:
        kw["prev_tx"] = prev
    if "prev_out" in pres:
        kw["prev_out"] = T.TxOut(V["amt"], spk)
    sigs = {}
    for i in (0, 1):
        if f"sig{i}" in pres:
            sigs[pubs[i].sec()] = V[f"sig{i}"]
    kw["sigs"] = sigs
    if "hash_type" in pres:
        kw["hash_type"] = V["ht"]
    if "redeem_script" in pres and r is not None:
        kw["redeem_script"] = r
    if "witness_script" in pres and w is not None:
        kw["witness_script"] = w
    kw["named_pubs"] = {pubs[i].sec(): pubs[i].point for i in (0, 1) if f"pub{i}" in pres}
    if "script_sig" in pres:
        kw["script_sig"] = M.script.Script([V["ss"]])
    if "witness" in pres:
        kw["witness"] = M.witness.Witness([V["wit"]])
    kw["extra_map"] = {UNK_KEYS["in"][i]: V[f"unk{i}"] for i in (0, 1) if f"unk{i}" in pres}
    return M.psbt.PSBTIn(tx_in, **kw)


def make_out(M, kind, pres, V):
    spk, r, w, pubs = wallet_script(M, kind, 2, 2, 7)
    kw = {}
    if "redeem_script" in pres and r is not None:
        kw["redeem_script"] = r
    if "witness_script" in pres and w is not None:
        kw["witness_script"] = w
    kw["named_pubs"] = {pubs[i].sec(): pubs[i].point for i in (0, 1) if f"pub{i}" in pres}
    kw["extra_map"] = {UNK_KEYS["out"][i]: V[f"unk{i}"] for i in (0, 1) if f"unk{i}" in pres}
    return M.psbt.PSBTOut(M.tx.TxOut(V["amt"], spk), **kw)


def combine_values(val):
    return {"seq": val("seq", 4), "amt": val("amt", 8), "ht": val("ht", 4), "sig0": sym_der(val, "sig0") if isinstance(val, SymVals) else val("sig0", 0, True),
            "sig1": sym_der(val, "sig1", 33, 32) if isinstance(val, SymVals) else val("sig1", 0, True),
            "ss": val("ss", 3, True), "wit": val("wit", 2, True), "unk0": val("unk0", 2, True), "unk1": val("unk1", 1, True)}


def law_check(law, make, nops):
    """evaluate one algebraic law on freshly made operands.  make(i) builds operand i.  Returns (lhs bytes, rhs bytes)"""
    if law == "comm":
        a, b = make(0), make(1)
        a.combine(b)
        b2, a2 = make(1), make(0)
        b2.combine(a2)
        return a.serialize(), b2.serialize()
    if law == "idem":
        a = make(0)
        a.combine(make(0))
        return a.serialize(), make(0).serialize()
    # assoc: (a + b) + c  ==  a + (b + c)
    a, b, c = make(0), make(1), make(2)
    a.combine(b)
    a.combine(c)
    a2, b2, c2 = make(0), make(1), make(2)
    b2.combine(c2)
    a2.combine(b2)
    return a.serialize(), a2.serialize()


NOPS = {"comm": 2, "idem": 1, "assoc": 3}


def _combine_path(level, kind, law, group, background):
    M = mods()
    val = SymVals()
    V = combine_values(val)
    fields = IN_FIELDS if level == "in" else OUT_FIELDS
    free = [f for f in group if f in fields]
    base = set(fields) - set(free) if background == "full" else set()
    if level == "in" and background == "full":
        base -= {"script_sig", "witness"} if "script_sig" not in free else set()
    pres = []
    for op in range(NOPS[law]):
        s = set(base)
        for f in free:
            if sym_bool(f"{'ABC'[op]}.{f}"):
                s.add(f)
        pres.append(s)
    mk = (lambda i: make_in(M, kind, pres[i], V)) if level == "in" else (lambda i: make_out(M, kind, pres[i], V))
    w = lambda env: {"level": level, "kind": kind, "law": law, "presence": [sorted(s) for s in pres], "vals": _combine_vals_witness(val, env)}  # noqa
    try:
        for i in range(NOPS[law]):
            mk(i)
    except Exception:
        return "operand-refused"  # the library's own consistency rules refuse this field combination: not an operand
    lhs, rhs = law_check(law, mk, NOPS[law])
    check(beq(lhs, rhs), f"{level}.combine is not {LAW_NAME[law]} on the serialisation", witness=w)
    return "ok"


LAW_NAME = {"comm": "commutative", "idem": "idempotent", "assoc": "associative"}


def _combine_vals_witness(val, env):
    d = val.witness(env)
    out = {k: d[k] for k in ("seq", "amt", "ht", "ss", "wit", "unk0", "unk1")}
    for name, (rl, sl) in (("sig0", (32, 32)), ("sig1", (33, 32))):
        body = bytes([2, rl]) + bytes.fromhex(d[name + ".r"]) + bytes([2, sl]) + bytes.fromhex(d[name + ".s"])
        out[name] = (bytes([0x30, len(body)]) + body + bytes([d[name + ".sighash"]])).hex()
    return out


def ob_combine(level, kind, law, groups, backgrounds):
    runs = []
    for g in groups:
        for bg in backgrounds:
            runs.append(sym_run(lambda: _combine_path(level, kind, law, g, bg), max_violations=6, max_paths=40000, min_checks=0))
    m = merge_runs(runs)
    if "'ok'" not in m["classes"]:
        m["inconclusive"].append("reachability twin: no admissible operand combination")
    m["sample"] = {"level": level, "wallet": kind + " 2-of-2", "law": LAW_NAME[law], "presence_groups": [list(g) for g in groups],
                   "other_fields": list(backgrounds), "values": "symbolic, shared between operands"}
    return m


def replay_combine(w):
    M = mods(True)
    val = ConcVals(w["vals"])
    V = combine_values(val)
    if w["level"] == "psbt":
        return _replay_combine_psbt(M, w)
    pres = [set(s) for s in w["presence"]]
    mk = (lambda i: make_in(M, w["kind"], pres[i], V)) if w["level"] == "in" else (lambda i: make_out(M, w["kind"], pres[i], V))
    lhs, rhs = law_check(w["law"], mk, NOPS[w["law"]])
    return {"violated": lhs != rhs, "observed": f"{w['level']}.combine {w['law']} presence={w['presence']}: lhs={lhs.hex()[:80]}... rhs={rhs.hex()[:80]}..."}


PSBT_BITS = ("xpub0", "xpub1", "gunk0", "gunk1", "in.ht", "in.pub0", "out.unk0", "out.pub1")


def make_psbt(M, kind, pres, V):
    T = M.tx
    spk, r, w, pubs = wallet_script(M, kind, 2, 2, 0)
    pin = {"prev_out"} | ({"witness_script"} if w is not None else set()) | ({"redeem_script"} if r is not None else set())
    if kind == "p2sh":
        pin = {"prev_tx", "redeem_script"}
    if "in.ht" in pres:
        pin.add("hash_type")
    if "in.pub0" in pres:
        pin.add("pub0")
    pout = {"witness_script", "redeem_script"}
    if "out.unk0" in pres:
        pout.add("unk0")
    if "out.pub1" in pres:
        pout.add("pub1")
    i = make_in(M, kind, pin, V)
    o = make_out(M, kind, pout, V)
    tx = T.Tx(V["ht"] if False else 2, [i.tx_in], [o.tx_out], 0, network="mainnet")
    hd = {}
    for k in (0, 1):
        if f"xpub{k}" in pres:
            a = named(M, k, "m/0")
            hd[a.raw_serialize()] = a
    extra = {UNK_KEYS["g"][k]: V[f"unk{k}"] for k in (0, 1) if f"gunk{k}" in pres}
    return M.psbt.PSBT(tx, [i], [o], hd, extra, "mainnet")


def _combine_psbt_path(kind, law, bits):
    M = mods()
    val = SymVals()
    V = combine_values(val)
    pres = []
    for op in range(NOPS[law]):
        pres.append({b for b in bits if sym_bool(f"{'ABC'[op]}.{b}")})
    w = lambda env: {"level": "psbt", "kind": kind, "law": law, "presence": [sorted(s) for s in pres], "vals": _combine_vals_witness(val, env)}  # noqa
    try:
        for i in range(NOPS[law]):
            make_psbt(M, kind, pres[i], V)
    except Exception:
        return "operand-refused"
    lhs, rhs = law_check(law, lambda i: make_psbt(M, kind, pres[i], V), NOPS[law])
    check(beq(lhs, rhs), f"PSBT.combine is not {LAW_NAME[law]} on the serialisation", witness=w)
    return "ok"


def ob_combine_psbt(kind, law, bitsets):
    runs = [sym_run(lambda: _combine_psbt_path(kind, law, bits), max_violations=6, max_paths=40000, min_checks=0) for bits in bitsets]
    m = merge_runs(runs)
    if "'ok'" not in m["classes"]:
        m["inconclusive"].append("reachability twin: no admissible operand combination")
    m["sample"] = {"level": "psbt", "wallet": kind + " 2-of-2, 1 input, 1 output", "law": LAW_NAME[law], "presence_bits": [list(b) for b in bitsets]}
    return m


def _replay_combine_psbt(M, w):
    V = combine_values(ConcVals(w["vals"]))
    pres = [set(s) for s in w["presence"]]
    lhs, rhs = law_check(w["law"], lambda i: make_psbt(M, w["kind"], pres[i], V), NOPS[w["law"]])
    return {"violated": lhs != rhs, "observed": f"PSBT.combine {w['law']} presence={w['presence']}: lhs={lhs.hex()[:80]}... rhs={rhs.hex()[:80]}..."}


# ---------------------------------------------------------------------------------------- O4 finaliser threshold, order independence

def spec_final_input(kind, sigs_in_script_order, m, sec, redeem_raw, witness_raw):
    """(scriptSig commands, witness items) a finaliser must produce"""
    use = sigs_in_script_order[:m]
    if kind == "p2pkh":
        return [use[0], sec], []
    if kind == "p2wpkh":
        return [], [use[0], sec]
    if kind == "p2sh-p2wpkh":
        return [redeem_raw], [use[0], sec]
    if kind == "p2sh":
        return [0] + use + [redeem_raw], []
    if kind == "p2wsh":
        return [], [b""] + use + [witness_raw]
    return [redeem_raw], [b""] + use + [witness_raw]


ALL_SECTIONS = ("create", "sign-order", "combine-order", "reload", "finalize", "structure", "verify", "final-reload", "final-order", "create-back", "extract-history")


def _msg(e):
    return f"{type(e).__name__}: {(str(e).strip().splitlines() or [''])[0][:60]}"


def workflow(M, kind, m, n, n_in, subset, sections=ALL_SECTIONS):
    """the whole create/update/sign/combine/finalise/extract history for one subset of signers.
    Returns the list of (section, label, ok) judgements and an outcome class.  `sections` limits the work (replays)."""
    J = []
    F = F0(n_in)
    P = M.psbt.PSBT
    base, err = build_lenient(M, kind, m, n, n_in, F, xpub=(n == 2))
    if err is not None:
        J.append(("create", "wallet flow refused: " + err, False))
    raw0 = base.serialize()
    rs = roots(M, n)
    signers = [i for i in range(n) if subset[i]]
    loadable = [None]

    def fresh():
        # a participant's own copy: loaded from the bytes when the library can load what it wrote
        if loadable[0] is not False:
            try:
                r = P.parse(M.BytesIO(raw0))
                loadable[0] = True
                return r
            except Exception:
                loadable[0] = False
        return build_lenient(M, kind, m, n, n_in, F, xpub=(n == 2))[0]
    # reference: sequential signing in index order on one object
    ref = fresh()
    for i in signers:
        if not ref.sign(rs[i]):
            J.append(("create", f"sign() reports nothing signed for cosigner {i}", False))
    ref_raw = ref.serialize()
    perms = list(itertools.permutations(signers))
    if "sign-order" in sections:
        for perm in perms[1:]:
            q = fresh()
            for i in perm:
                q.sign(rs[i])
            J.append(("sign-order", "combined PSBT depends on the order in which signers sign (sequential signing)", q.serialize() == ref_raw))
    # parallel signing, then combine in every order (left fold into an unsigned copy / into the first signed copy), one right-nested tree
    if signers and "combine-order" in sections:
        copies = {}

        def signed_copy(i):
            if i not in copies:
                c = fresh()
                c.sign(rs[i])
                copies[i] = c.serialize()
            try:
                return P.parse(M.BytesIO(copies[i]))
            except Exception:
                c = fresh()
                c.sign(rs[i])
                return c
        for perm in perms:
            acc = fresh()
            for i in perm:
                acc.combine(signed_copy(i))
            J.append(("combine-order", "combined PSBT depends on the order in which PSBTs are combined", acc.serialize() == ref_raw))
            acc2 = signed_copy(perm[0])
            for i in perm[1:]:
                acc2.combine(signed_copy(i))
            J.append(("combine-order", "combined PSBT depends on which signed copy the others are merged into", acc2.serialize() == ref_raw))
        if len(signers) == 3:
            a, b, c = (signed_copy(i) for i in signers)
            b.combine(c)
            a.combine(b)
            J.append(("combine-order", "combined PSBT depends on the shape of the combine tree", a.serialize() == ref_raw))
    # the signed PSBT survives a round trip
    if "reload" in sections:
        try:
            again = P.parse(M.BytesIO(ref_raw))
            J.append(("reload", "serialize(parse(serialize(signed))) differs", again.serialize() == ref_raw))
        except Exception as e:
            J.append(("reload", "the signed PSBT cannot be loaded again: " + _msg(e), False))
    # finalise + extract
    expect = len(signers) >= m
    sig_tables = [dict(pi.sigs) for pi in ref.psbt_ins]
    scripts = [(pi.redeem_script.raw_serialize() if pi.redeem_script else None, pi.witness_script.raw_serialize() if pi.witness_script else None)
               for pi in ref.psbt_ins]
    try:
        ref.finalize()
        fraw = ref.serialize()
        ftx = ref.final_tx()
        ok, why = True, ""
    except Exception as e:
        ok, why, ftx = False, _msg(e), None
    if ok != expect:
        J.append(("finalize", f"finalize+final_tx {'succeeds' if ok else 'fails (' + why + ')'} with {len(signers)} of {n} signers, threshold {m}", False))
    else:
        J.append(("finalize", "threshold", True))
    if ok:
        ftx_raw = ftx.serialize()
        T = M.tx
        if "structure" in sections:
            # independent structure oracle
            for k, ti in enumerate(ftx.tx_ins):
                secs = [named(M, i, "m/0/%d" % k).sec() for i in range(n)]
                ordered = [sig_tables[k][s] for s in secs if s in sig_tables[k]]
                want_ss, want_wit = spec_final_input(kind, ordered, m, secs[0], scripts[k][0], scripts[k][1])
                got_wit = list(ti.witness.items) if ftx.segwit else []
                J.append(("structure", f"final scriptSig/witness of input {k} is not the standard {kind} spend",
                          list(ti.script_sig.commands) == want_ss and got_wit == want_wit))
        if "verify" in sections:
            # the extracted transaction verifies (fresh parse, UTXO data re-attached) and is the PSBT's transaction
            v = T.Tx.parse(M.BytesIO(ftx_raw), network="mainnet")
            for k, ti in enumerate(v.tx_ins):
                prev = prev_tx_of(M, kind, m, n, k, F["in_amt"][k])
                ti._value, ti._script_pubkey = prev.tx_outs[0].amount, prev.tx_outs[0].script_pubkey
            J.append(("verify", "extracted transaction does not verify", all(v.verify_input(k) for k in range(len(v.tx_ins)))))
            J.append(("verify", "extracted transaction spends other outpoints/outputs than the PSBT's",
                      spec_unsigned_tx(*fields_of(v)) == spec_unsigned_tx(*fields_of(base.tx_obj))))
        if "extract-history" in sections:
            # history on one object: extraction must not change the PSBT it was extracted from
            try:
                again = ref.serialize()
                J.append(("extract-history", "the finalised PSBT serialises differently after final_tx() was called on it", again == fraw))
                J.append(("extract-history", "a second final_tx() on the same object gives another transaction", ref.final_tx().serialize() == ftx_raw))
                J.append(("extract-history", "the PSBT written after extraction does not load to the same PSBT", P.parse(M.BytesIO(again)).serialize() == fraw))
            except Exception as e:
                J.append(("extract-history", "after final_tx() the same PSBT object can no longer be written / loaded / extracted: " + _msg(e), False))
        if "final-reload" in sections:
            try:
                fin = P.parse(M.BytesIO(fraw))
                J.append(("final-reload", "serialize(parse(serialize(finalised))) differs", fin.serialize() == fraw))
                J.append(("final-reload", "final transaction depends on serialisation history", fin.final_tx().serialize() == ftx_raw))
            except Exception as e:
                J.append(("final-reload", "the finalised PSBT cannot be loaded again: " + _msg(e), False))
        if "final-order" in sections:
            for perm in perms[1:3]:
                q = fresh()
                for i in perm:
                    q.sign(rs[i])
                try:
                    q.finalize()
                    J.append(("final-order", "final transaction depends on the signing order", q.final_tx().serialize() == ftx_raw))
                except Exception as e:
                    J.append(("final-order", f"finalize after signing order {perm} raises {type(e).__name__}", False))
        if "create-back" in sections:
            # feeding the signed transaction back into PSBT.create: embedded transaction stays unsigned / non-witness
            try:
                back = P.create(ftx)
                J.append(("create-back", "PSBT.create(final tx): embedded transaction is not the non-witness serialisation with empty scriptSigs",
                          bool(embedded_ok(back.serialize(), base.tx_obj))))
            except Exception as e:
                J.append(("create-back", "PSBT.create(final tx) raises " + _msg(e), False))
    return J, ("final" if ok else "refused")


_REPORTED = set()


def _threshold_path(kind, m, n, n_in, sections):
    M = mods()
    subset = [sym_bool(f"signer{i}") for i in range(n)]
    J, cls = workflow(M, kind, m, n, n_in, subset, sections)
    for section, label, ok in J:
        if ok:
            check(True, label)
        elif label not in _REPORTED:
            _REPORTED.add(label)  # one witness per judgement and obligation (every path would repeat it)
            check(False, label, witness=lambda env: {"kind": kind, "m": m, "n": n, "n_in": n_in, "section": section,  # noqa
                                                     "subset": [bool(env[f"signer{i}"]) for i in range(n)]})
    return (cls, sum(subset) >= m)


def ob_threshold(kind, m, n, n_in, create_back=False):
    sections = tuple(x for x in ALL_SECTIONS if x != "create-back" or create_back)
    r = sym_run(lambda: _threshold_path(kind, m, n, n_in, sections))
    if not r["violations"]:
        for e in (("final", True), ("refused", False)):
            if repr(e) not in r["classes"]:
                r["inconclusive"].append(f"reachability twin: outcome {e!r} never reached")
    r["sample"] = {"wallet": f"{kind} {m}-of-{n}", "inputs": n_in, "signers": "symbolic subset", "orders": "all permutations of signing and combining"}
    return r


def replay_threshold(w):
    M = mods(True)
    sec = w.get("section")
    sections = ALL_SECTIONS if sec is None else (sec,)
    J, cls = workflow(M, w["kind"], w["m"], w["n"], w["n_in"], w["subset"], sections)
    bad = [label for _, label, ok in J if not ok]
    label = w.get("label")
    return {"violated": label in bad if label is not None else bool(bad),
            "observed": f"{w['kind']} {w['m']}-of-{w['n']}, {w['n_in']} input(s), signers={w['subset']}: " +
                        ("; ".join(([b for b in bad if b == label] or bad)[:3]) if bad else f"all judgements hold ({cls})")}


# ---------------------------------------------------------------------------------------- O5 invalid partial signature at load

def make_signed_raw(M, kind, m, n, utxo, nsym):
    """serialised PSBT with nsym genuine partial signatures on input 0, and where they are"""
    F = F0(1)
    p, err = build_lenient(M, kind, m, n, 1, F)
    if utxo == "both" and kind in SEGWIT_KINDS:
        add_both_utxos(M, p, kind, m, n, F)
    sign_first(M, p, n, nsym)
    pi = p.psbt_ins[0]
    if kind == "p2sh-p2wpkh":
        # without the BIP32 derivation records: with them the library cannot load this wallet kind at all (reported by O2/O4)
        pi.named_pubs = {}
        for po in p.psbt_outs:
            po.named_pubs = {}
    if utxo == "both" and kind in SEGWIT_KINDS:
        # keep both records in the bytes (the library's serialiser writes only one): splice the witness UTXO pair in by hand
        raw = p.serialize()
        ins_start = len(raw) - sum(len(x.serialize()) for x in p.psbt_ins) - sum(len(x.serialize()) for x in p.psbt_outs)
        first = spec_varstr(b"\x00") + spec_varstr(pi.prev_tx.serialize())
        assert raw[ins_start:ins_start + len(first)] == first
        extra = spec_varstr(b"\x01") + spec_varstr(pi.prev_out.serialize())
        if raw[ins_start + len(first):ins_start + len(first) + len(extra)] != extra:
            raw = raw[:ins_start + len(first)] + extra + raw[ins_start + len(first):]
    else:
        raw = p.serialize()
    locs = []
    for i in range(nsym):
        sec = named(M, i, "m/0/0").sec()
        sig = pi.sigs[sec]
        off = raw.find(spec_varstr(sig))
        assert off > 0 and raw.count(spec_varstr(sig)) == 1
        locs.append((i, off + len(spec_varint(len(sig))), sig))
    return raw, locs, p


def digest_for(M, p, kind, hash_type, k=0):
    """the library-independent part is only *which* digest: the one of input k for the signature's own sighash byte"""
    pi = p.psbt_ins[k]
    if kind in SEGWIT_KINDS:
        return p.tx_obj.sig_hash_bip143(k, pi.redeem_script, pi.witness_script, hash_type=hash_type)
    return p.tx_obj.sig_hash_legacy(k, pi.redeem_script, hash_type=hash_type)


SIGHASH_BYTES = (0, 1, 2, 3, 0x81, 0x82, 0x83, 0x41, 0xFF)


def _badsig_path(kind, m, n, utxo, nsym):
    M = mods()
    del VALID_LOG[:]
    val = SymVals()
    raw, locs, p = make_signed_raw(M, kind, m, n, utxo, nsym)
    pieces, pos, sbs = [], 0, []
    for (i, off, sig) in locs:
        rl, sl = sig[3], sig[5 + sig[3]]
        s = sym_der(val, f"sig{i}", rl, sl)
        sb = val.made[f"sig{i}.sighash"]
        core.assume(core.s_or(*[sb == v for v in SIGHASH_BYTES]))
        sbv = core.concretize(sb)  # one path per sighash byte: the digests stay concrete
        sbs.append(sbv)
        s = s[:len(s) - 1] + bytes([sbv])
        assert len(s) == len(sig)
        pieces += [raw[pos:off], s]
        pos = off + len(sig)
    sraw = pieces[0]
    for x in pieces[1:] + [raw[pos:]]:
        sraw = sraw + x
    try:
        M.psbt.PSBT.parse(M.BytesIO(sraw))
        accepted = True
    except Exception:
        accepted = False
    # which signatures did this path take to be invalid (Valid decided false, or never asked)
    forged = [not any(ok and lsec == named(M, i, "m/0/0").sec() for (ok, lsec, _) in VALID_LOG) for (i, _, _) in locs]
    w = lambda env: {"kind": kind, "m": m, "n": n, "utxo": utxo, "nsym": nsym, "sighash": list(sbs), "forged": forged, "vals": val.witness(env)}  # noqa
    if accepted:
        # oracle: each partial signature was found valid for the digest that its own sighash byte selects
        for (i, off, sig), sbv in zip(locs, sbs):
            sec = named(M, i, "m/0/0").sec()
            z = digest_for(M, p, kind, sbv)
            check(any(ok and lsec == sec and _plain(lz) and lz == z for (ok, lsec, lz) in VALID_LOG),
                  "partial signature accepted without a successful check against the digest its sighash byte selects", witness=w)
        return "accepted"
    if VALID_LOG and all(ok for (ok, _, _) in VALID_LOG) and len(VALID_LOG) >= nsym:
        return "refused-valid"  # refused for another reason (a sighash type the library does not support, or an unloadable shape: O2)
    check(True, "refused with an invalid signature")
    return "rejected"


def ob_badsig(kind, m, n, utxo, nsym):
    mr = sym_run(lambda: _badsig_path(kind, m, n, utxo, nsym), max_violations=2)
    cut = len(mr["violations"]) >= 2   # exploration stopped at the candidate cap: the classes seen so far are not the whole picture
    if cut:
        return dict(mr, sample={"wallet": f"{kind} {m}-of-{n}", "utxo_records": utxo, "note": "exploration stopped after 2 violation candidates"})
    if "'rejected'" not in mr["classes"]:
        mr["inconclusive"].append("reachability twin: no path on which an invalid signature is refused")
    if "'accepted'" not in mr["classes"]:
        mr["inconclusive"].append("reachability twin: no path on which valid signatures are accepted")
    mr["sample"] = {"wallet": f"{kind} {m}-of-{n}", "utxo_records": utxo,
                    "symbolic": f"r, s of {nsym} partial signature(s) (Valid uninterpreted); sighash byte in {list(SIGHASH_BYTES)}"}
    return mr


def replay_badsig(w):
    """genuine signatures with the witness' sighash bytes (one bit of s flipped where the path took the signature to be invalid):
    do they verify for the digest their sighash byte selects, and is the PSBT accepted?"""
    M = mods(True)
    raw, locs, p = make_signed_raw(M, w["kind"], w["m"], w["n"], w["utxo"], w["nsym"])
    raw = bytearray(raw)
    verifies = True
    for (i, off, sig), sb, forged in zip(locs, w["sighash"], w.get("forged") or [False] * len(locs)):
        sig = bytearray(sig)
        sig[-1] = sb
        if forged:
            sig[-2] ^= 1  # last byte of s
        raw[off:off + len(sig)] = sig
        z = digest_for(M, p, w["kind"], sb)
        point = named(M, i, "m/0/0").point
        verifies = verifies and bool(point.verify(z, M.ecc.Signature.parse(bytes(sig[:-1]))))
    try:
        M.psbt.PSBT.parse(M.BytesIO(bytes(raw)))
        accepted = True
    except Exception:
        accepted = False
    return {"violated": accepted and not verifies,
            "observed": f"{w['kind']} utxo={w['utxo']}: partial signature(s) = genuine SIGHASH_ALL signature(s) with sighash byte {w['sighash']}"
                        f"{' and one bit of s flipped' if any(w.get('forged') or []) else ''}: verifies for the digest of that sighash byte={verifies}, "
                        f"accepted at load={accepted}"}


# ---------------------------------------------------------------------------------------- O6 every partial signature is bound to its own input

def make_signed_raw_multi(M, kind, m, n, keys, utxo, nsym, variant=0):
    """serialised PSBT whose input k is locked to key index keys[k] (equal entries: one address funded several times) with the
    genuine partial signatures of the first nsym cosigners on every input, and where those are: [(k, i, offset of the
    length-prefixed value, signature)].  variant > 0: another payment from the same coins (the paid amount differs, hence every digest)"""
    n_in = len(keys)
    F = F0(n_in)
    F["out_amt"][0] -= variant
    p, err = build_lenient(M, kind, m, n, n_in, F, keys=keys)
    both = utxo == "both" and kind in SEGWIT_KINDS
    if both:
        add_both_utxos(M, p, kind, m, n, F, keys)
    sign_first(M, p, n, nsym)
    if kind == "p2sh-p2wpkh":
        # without the BIP32 derivation records (see make_signed_raw)
        for x in list(p.psbt_ins) + list(p.psbt_outs):
            x.named_pubs = {}
    raw = p.serialize()
    if both:
        # keep both UTXO records of every input in the bytes (the library's serialiser writes only one)
        sers = [x.serialize() for x in p.psbt_ins]
        start = len(raw) - sum(len(x) for x in sers) - sum(len(x.serialize()) for x in p.psbt_outs)
        spliced = b""
        for pi, ser in zip(p.psbt_ins, sers):
            first = spec_varstr(b"\x00") + spec_varstr(pi.prev_tx.serialize())
            assert ser[:len(first)] == first
            extra = spec_varstr(b"\x01") + spec_varstr(pi.prev_out.serialize())
            if ser[len(first):len(first) + len(extra)] != extra:
                ser = first + extra + ser[len(first):]
            spliced += ser
        assert raw[start:start + len(sers[0])] == sers[0]
        raw = raw[:start] + spliced + raw[start + sum(len(x) for x in sers):]
    locs = []
    for k, pi in enumerate(p.psbt_ins):
        for i in range(nsym):
            sig = pi.sigs[named(M, i, "m/0/%d" % keys[k]).sec()]
            assert raw.count(spec_varstr(sig)) == 1
            locs.append((k, i, raw.find(spec_varstr(sig)), sig))
    return raw, sorted(locs, key=lambda x: x[2]), p


def splice_sigs(raw, locs, sigs):
    """raw with the length-prefixed signature at every location replaced by the corresponding entry of sigs"""
    out, pos = b"", 0
    for (k, i, off, sig), new in zip(locs, sigs):
        out = out + raw[pos:off] + spec_varint(len(new)) + new
        pos = off + len(spec_varstr(sig))
    return out + raw[pos:]


SIGBIND_LABEL = "partial signature accepted at load without a successful check of that signature against the digest of its own input"


def _sigbind_path(kind, m, n, keys, utxo, nsym, loads):
    """every partial signature of the first nsym cosigners on every input is symbolic (r, s; SIGHASH_ALL); the solver is free to
    make signatures of different inputs / cosigners / loads equal.  Loading must check every one of them against the digest of
    the input it sits on."""
    M = mods()
    val = SymVals()
    slots, raws = [], []
    for ld in range(loads):
        # the last load is the wallet's PSBT; the loads before it are other payments from the same coins
        raw, locs, p = make_signed_raw_multi(M, kind, m, n, keys, utxo, nsym, variant=loads - 1 - ld)
        ders = []
        for (k, i, off, sig) in locs:
            name = f"L{ld}.in{k}.sig{i}"
            rb, sb = val(name + ".r", 32, True), val(name + ".s", 32, True)
            ders.append(bytes([0x30, 68, 2, 32]) + rb + bytes([2, 32]) + sb + bytes([SIGHASH_ALL]))
            z = digest_for(M, p, kind, SIGHASH_ALL, k)
            assert _plain(z)
            slots.append({"load": ld, "k": k, "i": i, "name": name, "sec": named(M, i, "m/0/%d" % keys[k]).sec(), "z": z,
                          "r": core.int_from_bytes(rb), "s": core.int_from_bytes(sb)})
        raws.append(splice_sigs(raw, locs, ders))
    logs = []

    def entries(sl):
        return [e for e in logs[sl["load"]] if e[1] == sl["sec"] and _plain(e[2]) and e[2] == sl["z"]]

    def w(env):
        vals = val.witness(env)
        status = []
        for sl in slots:
            st = "unchecked"
            if sl["load"] < len(logs):
                for (ok, _, _, er, es) in entries(sl):
                    if conc_value(er, env) == conc_value(sl["r"], env) and conc_value(es, env) == conc_value(sl["s"], env):
                        st = "valid" if ok else "invalid"
            status.append(st)
        out = []
        for a, sl in enumerate(slots):
            same = []
            if status[a] != "valid":
                # the same bytes as signatures that this path took to be valid where they sit: the replay puts such a genuine one here
                # (the model may make more signatures equal than the path needs, so every candidate is kept)
                same = [b for b, o in enumerate(slots) if b != a and status[b] == "valid" and
                        all(vals[o["name"] + x] == vals[sl["name"] + x] for x in (".r", ".s"))]
            out.append({"load": sl["load"], "k": sl["k"], "i": sl["i"], "status": status[a], "same_as": same})
        return {"wallet": kind, "m": m, "n": n, "keys": list(keys), "utxo": utxo, "nsym": nsym, "loads": loads, "slots": out, "vals": vals}

    outcome = []
    for ld in range(loads):
        del VALID_LOG[:]
        del VALID_LOG_RS[:]
        try:
            M.psbt.PSBT.parse(M.BytesIO(raws[ld]))
            accepted = True
        except Exception:
            accepted = False
        logs.append(list(VALID_LOG_RS))
        mine = [sl for sl in slots if sl["load"] == ld]
        if not accepted:
            if len(logs[ld]) >= len(mine) and all(e[0] for e in logs[ld]):
                outcome.append("refused-valid")  # refused for another reason (an unloadable shape: O2)
            else:
                check(True, "refused with an invalid signature")
                outcome.append("rejected")
            break
        for sl in mine:
            cands = [core.s_and(e[3] == sl["r"], e[4] == sl["s"]) for e in entries(sl) if e[0]]
            check(core.s_or(*cands) if cands else False, SIGBIND_LABEL, witness=w)
        outcome.append("accepted")
    return "+".join(outcome)


def ob_sigbind(kind, m, n, keys, utxo, nsym, loads):
    mr = sym_run(lambda: _sigbind_path(kind, m, n, keys, utxo, nsym, loads), max_violations=4)
    mr["sample"] = {"wallet": f"{kind} {m}-of-{n}", "inputs": len(keys), "key index of each input": list(keys), "utxo_records": utxo,
                    "loads in one process": loads,
                    "symbolic": f"r, s of {nsym} partial signature(s) on every input of every load (Valid uninterpreted, SIGHASH_ALL); "
                                "equalities between them are the solver's choice"}
    if len(mr["violations"]) >= 4:
        mr["sample"]["note"] = "exploration stopped after 4 violation candidates"
        return mr
    if not mr["violations"]:
        for e in ["+".join(["accepted"] * loads)] + ["+".join(["accepted"] * j + ["rejected"]) for j in range(loads)]:
            if repr(e) not in mr["classes"]:
                mr["inconclusive"].append(f"reachability twin: outcome {e!r} never reached")
    return mr


def replay_sigbind(w):
    """every slot gets concrete bytes that respect what the path assumed: its own genuine signature where the path found it valid;
    the genuine signature of another slot where the model made the bytes equal to a signature that was valid there (every such
    choice is tried); otherwise its own genuine signature with one bit of s flipped.  Independent oracle: does each verify for the
    SIGHASH_ALL digest of the input it sits on (key of its own slot), and is the PSBT accepted?"""
    M = mods(True)
    kind, keys = w["wallet"], w["keys"]
    made = [make_signed_raw_multi(M, kind, w["m"], w["n"], keys, w["utxo"], w["nsym"], variant=w["loads"] - 1 - ld) for ld in range(w["loads"])]
    genuine = {(ld, k, i): sig for ld, (_, locs, _) in enumerate(made) for (k, i, off, sig) in locs}
    head = f"{kind} {w['m']}-of-{w['n']}, inputs locked to key indices {keys}, utxo={w['utxo']}: "
    last = ""
    for choice in itertools.islice(itertools.product(*[(x["same_as"] or [None]) for x in w["slots"]]), 64):
        src_of = dict(zip([(x["load"], x["k"], x["i"]) for x in w["slots"]], choice))
        notes = []
        for ld in range(w["loads"]):
            raw, locs, p = made[ld]
            sigs, bad = [], []
            for (k, i, off, sig) in locs:
                sl = [x for x in w["slots"] if (x["load"], x["k"], x["i"]) == (ld, k, i)][0]
                if sl["status"] == "valid":
                    new, what = sig, "own"
                elif src_of[(ld, k, i)] is not None:
                    src = w["slots"][src_of[(ld, k, i)]]
                    new, what = genuine[(src["load"], src["k"], src["i"])], f"the signature of input {src['k']} cosigner {src['i']}" + \
                        (f" of the PSBT loaded before (load {src['load']})" if src["load"] != ld else "")
                else:
                    new, what = sig[:-2] + bytes([sig[-2] ^ 1]) + sig[-1:], "own with one bit of s flipped"
                z = digest_for(M, p, kind, SIGHASH_ALL, k)
                if not bool(named(M, i, "m/0/%d" % keys[k]).point.verify(z, M.ecc.Signature.parse(new[:-1]))):
                    bad.append(f"input {k} cosigner {i} carries {what}")
                sigs.append(new)
            try:
                M.psbt.PSBT.parse(M.BytesIO(splice_sigs(raw, locs, sigs)))
                accepted = True
            except Exception:
                accepted = False
            notes.append(f"load {ld}: " + ("every partial signature verifies for its own input" if not bad else
                                           "not verifying for its own input: " + "; ".join(bad)) + f", accepted={accepted}")
            if accepted and bad:
                return {"violated": True, "observed": head + " | ".join(notes)}
            if not accepted:
                break
        last = " | ".join(notes)
    return {"violated": False, "observed": head + last}


# ---------------------------------------------------------------------------------------- registry

def obligations(tier):
    q = tier == "quick"
    obs = []
    cnt = (1, 2) if q else (1, 2, 3)
    for n_in in cnt:
        for n_out in cnt:
            for seg in (False, True):
                obs.append(Ob("O1-embedded", ob_embedded, {"n_in": n_in, "n_out": n_out, "segwit": seg}, replay="embedded"))
    K = 8
    for c in range(K):
        obs.append(Ob("O2-vectors", ob_roundtrip_vectors, {"chunk": c, "of": K, "maxlen": 1400 if q else 100000}, replay="roundtrip", budget_s=900))
    for kind in KINDS:
        mn = (1, 1) if kind in SINGLE else (2, 3)
        utxos = ("update", "both") if kind in SEGWIT_KINDS else ("update",)
        obs.append(Ob("O2-wallet", ob_roundtrip_wallet, {"kind": kind, "m": mn[0], "n": mn[1], "n_in": 1, "stages": ("updated", "symsig"),
                                                        "utxos": utxos, "xpub": True, "unk_lens": (0, 2)}, replay="roundtrip", budget_s=900))
        obs.append(Ob("O2-wallet", ob_roundtrip_wallet, {"kind": kind, "m": mn[0], "n": mn[1], "n_in": 1, "stages": ("signed", "final"),
                                                        "utxos": utxos, "xpub": False, "unk_lens": (2,)}, replay="roundtrip", budget_s=900))
        if not q and kind not in SINGLE:
            obs.append(Ob("O2-wallet", ob_roundtrip_wallet, {"kind": kind, "m": 3, "n": 3, "n_in": 2, "stages": ("updated", "symsig", "signed", "final"),
                                                            "utxos": utxos, "xpub": True, "unk_lens": (2,)}, replay="roundtrip", budget_s=1500))
    for kind in ("p2sh", "p2wsh", "p2sh-p2wsh"):
        for law in ("comm", "idem", "assoc"):
            if law == "assoc":
                if kind == "p2wsh":
                    continue  # same serialiser branch (witness script order) as p2sh-p2wsh, which carries every field
                groups = [("prev_tx", "prev_out"), ("sig0", "sig1", "witness_script"), ("sig0", "redeem_script", "witness_script"),
                          ("hash_type", "script_sig", "witness"), ("pub0", "pub1", "unk0")]
            else:
                groups = list(IN_GROUPS.values())
            obs.append(Ob("O3-combine-in", ob_combine, {"level": "in", "kind": kind, "law": law, "groups": tuple(groups),
                                                       "backgrounds": ("empty", "full")}, replay="combine", budget_s=900))
    for law in ("comm", "idem", "assoc"):
        groups = {"comm": [("redeem_script", "witness_script", "pub0", "pub1"), ("pub0", "pub1", "unk0", "unk1")], "idem": [OUT_FIELDS],
                  "assoc": [("redeem_script", "witness_script", "pub0"), ("pub0", "pub1", "unk0"), ("pub1", "unk0", "unk1")]}[law]
        obs.append(Ob("O3-combine-out", ob_combine, {"level": "out", "kind": "p2sh-p2wsh", "law": law, "groups": tuple(groups),
                                                    "backgrounds": ("empty", "full") if law != "idem" else ("empty",)}, replay="combine", budget_s=900))
    for kind in ("p2wsh", "p2sh"):
        obs.append(Ob("O3-combine-psbt", ob_combine_psbt, {"kind": kind, "law": "comm", "bitsets": (("xpub0", "xpub1", "gunk0", "gunk1"),
                                                                                                 ("gunk1", "in.ht", "in.pub0", "out.unk0"),
                                                                                                 ("in.ht", "out.unk0", "out.pub1"))}, replay="combine", budget_s=900))
    obs.append(Ob("O3-combine-psbt", ob_combine_psbt, {"kind": "p2wsh", "law": "idem", "bitsets": (PSBT_BITS,)}, replay="combine", budget_s=900))
    obs.append(Ob("O3-combine-psbt", ob_combine_psbt, {"kind": "p2wsh", "law": "assoc", "bitsets": (("xpub0", "gunk0", "in.ht"), ("xpub1", "in.pub0", "out.pub1"))},
                  replay="combine", budget_s=900))
    for kind in KINDS:
        if kind in SINGLE:
            obs.append(Ob("O4-threshold", ob_threshold, {"kind": kind, "m": 1, "n": 1, "n_in": 1, "create_back": True}, replay="threshold", budget_s=900))
            if kind == "p2wpkh" or not q:
                obs.append(Ob("O4-threshold", ob_threshold, {"kind": kind, "m": 1, "n": 1, "n_in": 3}, replay="threshold", budget_s=900))
            continue
        for n in (1, 2, 3):
            for m in range(1, n + 1):
                obs.append(Ob("O4-threshold", ob_threshold, {"kind": kind, "m": m, "n": n, "n_in": 1, "create_back": (m, n) == (2, 3)}, replay="threshold",
                              budget_s=900))
                if (m, n) == (2, 2) or (not q and n > 1):
                    obs.append(Ob("O4-threshold", ob_threshold, {"kind": kind, "m": m, "n": n, "n_in": 2}, replay="threshold", budget_s=1500))
    for kind in KINDS:
        mn = (1, 1) if kind in SINGLE else (2, 2)
        for utxo in (("update", "both") if kind in SEGWIT_KINDS else ("update",)):
            obs.append(Ob("O5-badsig", ob_badsig, {"kind": kind, "m": mn[0], "n": mn[1], "utxo": utxo, "nsym": 1}, replay="badsig", budget_s=900))
            if not q and kind not in SINGLE:
                obs.append(Ob("O5-badsig", ob_badsig, {"kind": kind, "m": 2, "n": 2, "utxo": utxo, "nsym": 2}, replay="badsig", budget_s=900))
    for kind in KINDS:
        mn = (1, 1) if kind in SINGLE else (2, 2)
        patterns = [(0, 0), (0, 1)] if q else [(0, 0), (0, 1), (0, 0, 0), (0, 1, 0), (0, 0, 1), (0, 1, 1)]
        for keys in patterns:
            for utxo in (("update", "both") if kind in SEGWIT_KINDS and not q else ("update",)):
                for nsym in ((1,) if q or kind in SINGLE else (1, 2)):
                    for loads in (1, 2):
                        if loads == 2 and ((q and keys != (0, 0)) or len(keys) > 2 or utxo == "both"):
                            continue
                        obs.append(Ob("O6-sigbind", ob_sigbind, {"kind": kind, "m": mn[0], "n": mn[1], "keys": keys, "utxo": utxo, "nsym": nsym,
                                                                 "loads": loads}, replay="sigbind", budget_s=900))
    return obs
