"""C05 — signature hashes (DESIGN.md section 3, C05).

Oracle: the three digest algorithms written from their defining texts — Bitcoin Core's legacy SignatureHash
(CTransactionSignatureSerializer), BIP143, BIP341 (SigMsg) / BIP342 (tapleaf extension) — over a plain content
dictionary.  The spec_* functions run on symbolic proxies (hashes are the same uninterpreted functions the shimmed
library uses) and on plain Python values with hashlib (this is how a replay judges a witness).

Structure of the claim
  O1..O3  Tx.sig_hash_legacy / sig_hash_bip143 / sig_hash_bip341 on a fresh object  ==  specification
          (final digest and the bytes handed to the outer hash)
  O4      Tx.sig_hash (dispatch) == the library's own algorithm function called on a fresh object with the algorithm,
          scripts and ext_flag that BIP141/BIP341 select from the spent output and the witness
  O5      history independence: after any history (memo fields filled for an earlier content, edits, other queries) a
          digest equals the digest of a fresh object with the current content.
O4 and O5 compare against a *fresh object of the library itself* so that each defect is reported by exactly one group.
"""
import re
import hashlib

from symx import core, loader, shims
from symx.core import SI, SBytes, check, s_and, assume, norm, Out, conc_value
from vlib.run import Ob, sym_run, merge_runs

PROPERTY = "C05"

META = {
    "bounds": {
        "quick": {"digests (O1-O3)": "n_in in 1..3 x n_out in 0..3, every input index, hash types {1,2,3,0x81,0x82,0x83} (+0 for taproot); every "
                                     "field symbolic: version, locktime, outpoints, sequences (32 bit), spent amounts and output amounts in [0,2^63), "
                                     "hash160/sha256/x-only contents of the standard scriptPubKeys, 1..3-byte push contents of the other scripts; "
                                     "script-code kinds p2pkh, p2sh(multisig-shaped redeem script), p2wpkh, p2sh-p2wpkh, p2wsh, p2sh-p2wsh; taproot "
                                     "witness shapes [], [sig], [sig,annex], [arg,script,cb], [arg,script,cb,annex], [script,cb], [script,cb,annex] "
                                     "with symbolic item contents; the signed input index and the hash type are solver-chosen from their explicit "
                                     "sets (one path each); legacy and BIP143 additionally with a hash-type byte that stays symbolic (constrained to "
                                     "the six standard values) through the library's and the oracle's branches on the 2x2 shape",
                  "dispatch (O4)": "same shapes, kinds, witness shapes and hash types",
                  "history (O5)": "inductive step: memo groups {BIP143 inputs, BIP143 outputs, BIP341 inputs, BIP341 outputs} each unset or "
                                  "computed for an arbitrary earlier content A (2 in, 2 out, symbolic), then (a) one of 15 attribute-level edits "
                                  "with symbolic new values or (b) replacement of inputs, outputs, version and locktime by an arbitrary content "
                                  "B with n_in in 1..3, n_out in 0..3; then every (input index, hash type) query; 14 fixed query/edit sequences "
                                  "of up to 11 steps with symbolic values (single algorithm and three algorithms interleaved)"},
        "thorough": {"digests (O1-O3)": "n_in in 1..6 x n_out in 0..6, otherwise as quick",
                     "dispatch (O4)": "n_in in 1..4 x n_out in 0..4",
                     "history (O5)": "earlier content A in {(1,0),(2,2),(3,3)}, B with n_in in 1..4, n_out in 0..4"}},
    "outside": ["OP_CODESEPARATOR handling and FindAndDelete in the legacy script code (the script code is the given script)",
                "scripts with pushes > 75 bytes or non-minimal pushes (a parsed-and-reserialised script then differs from the raw bytes: C04)",
                "hash types outside {0,1,2,3,0x81,0x82,0x83}",
                "taproot witnesses whose last element is empty, leaf version 0x50, control blocks whose internal key is not on the curve "
                "(all invalid spends; no digest is defined)",
                "BIP341 SIGHASH_SINGLE without a matching output: BIP341 makes the signature invalid; the oracle demands that no digest is "
                "returned (the library raises IndexError, accepted)",
                "BIP341 with an empty witness (signing time) is taken as key path without annex",
                "TxIn._value / TxIn._script_pubkey are preset (never fetched); edits of them (correcting the recorded spent output) are history steps of their own",
                "Tx.sha_sequences() called directly on a fresh object (AttributeError from the _sha_sequence/_sha_sequences naming) is "
                "reported only through the digest functions"],
    "stubs": ["sha256 (hence hash256 and tagged hashes) as an uninterpreted function on symbolic input, same symbol in code and oracle",
              "the x-only internal key inside control blocks is the concrete generator point (it does not enter the digest)"],
    "assumptions": ["digest equality is decided on the preimages and the UF outputs; a replay recomputes both sides with real SHA-256",
                    "O5: a memo group (BIP143 inputs / outputs, BIP341 inputs / outputs) is either unset or holds the value of one earlier content; "
                    "the groups depend on disjoint parts of that content, so one arbitrary A covers states whose groups stem from different "
                    "earlier contents; a query reads only the groups of its own algorithm",
                    "memo_used_stale in history witnesses is a triage label computed by a small model of which midstates a hash type reads; "
                    "it never enters a verdict",
                    "O4 + (O1..O3) compose: O4 shows the dispatcher calls the algorithm function the BIPs select with the selected arguments"],
}

MANIFEST = {"technique": "symbolic execution of the real Tx.sig_hash* functions on transactions whose every field is symbolic; the preimage "
                         "bytes and digests (SHA-256 uninterpreted) are compared by z3 with an independent transcription of the legacy / "
                         "BIP143 / BIP341 algorithms; history independence as one inductive step over memo states plus fixed sequences"}

ALL, NONE, SINGLE, ACP = 1, 2, 3, 0x80
HT_STD = (1, 2, 3, 0x81, 0x82, 0x83)
HT_TAP = (0, 1, 2, 3, 0x81, 0x82, 0x83)
G_X = bytes.fromhex("79be667ef9dcbbac55a06295ce870b07029bfcdb2dce28d959f2815b16f81798")
ONE_INT = 1 << 248  # uint256(1) = 01 00 .. 00, read big-endian as the library does with every digest
ALG_OF_KIND = {"p2pkh": "legacy", "p2sh": "legacy", "p2wpkh": "bip143", "p2sh-p2wpkh": "bip143", "p2wsh": "bip143",
               "p2sh-p2wsh": "bip143", "p2tr": "bip341"}
TVARS = ("sign", "key", "key+annex", "script", "script+annex", "script0", "script0+annex",
         # annexes whose length looks like that of other witness elements: 1 byte, 33 bytes (a depth-0 control block), 65 (depth 1), 64 (a signature)
         "key+annex1", "key+annex33", "script+annex33", "script0+annex65", "key+annex64")


def annex_len(tvar):
    m = re.search(r"\+annex(\d*)$", tvar)
    return None if not m else int(m.group(1) or 3)


# ---------------------------------------------------------------------------------------- specification

def _isconc(b):
    return isinstance(b, (bytes, bytearray))


def sha256(d):
    d = norm(d) if isinstance(d, SBytes) else d
    if _isconc(d):
        return hashlib.sha256(bytes(d)).digest()
    return shims._H("sha256", d).digest()


def hash256(d):
    return sha256(sha256(d))


def tagged(tag, msg):
    t = hashlib.sha256(tag).digest()
    return sha256(t + t + msg)


def le(x, n):
    if isinstance(x, int) and not isinstance(x, SI):
        return int(x).to_bytes(n, "little")
    return core.wrap(core.lift(x)).to_bytes(n, "little")


def be_int(b):
    return core.int_from_bytes(b, "big")


def varint(n):
    if n < 0xFD:
        return bytes([n])
    if n < 0x10000:
        return b"\xfd" + n.to_bytes(2, "little")
    return b"\xfe" + n.to_bytes(4, "little")


def varstr(b):
    return varint(len(b)) + b


def spec_script(cmds):
    """raw script bytes of a command list (opcodes as ints, pushes as byte strings of <= 75 bytes)"""
    out = b""
    for c in cmds:
        if isinstance(c, int):
            out = out + bytes([c])
        elif len(c) == 0:
            out = out + b"\x00"
        else:
            assert len(c) <= 75
            out = out + bytes([len(c)]) + c
    return out


def cat(parts):
    out = b""
    for p in parts:
        out = out + p
    return out


def outpoint(i):
    return i["prev"][::-1] + le(i["idx"], 4)


def ser_out(o):
    return le(o["amt"], 8) + varstr(spec_script(o["spk"]))


def spec_legacy(c, nin, code_cmds, ht):
    """Bitcoin Core SignatureHash (SigVersion::BASE): returns ('one',) or ('digest', preimage, int)"""
    ins, outs = c["ins"], c["outs"]
    if nin >= len(ins):
        return ("one", None, ONE_INT)
    base = ht & 0x1F
    single = base == SINGLE
    none = base == NONE
    if single and nin >= len(outs):
        return ("one", None, ONE_INT)
    acp = (ht & ACP) != 0
    s = le(c["version"], 4)
    idxs = [nin] if acp else list(range(len(ins)))
    s = s + varint(len(idxs))
    for k in idxs:
        i = ins[k]
        s = s + outpoint(i)
        s = s + (varstr(spec_script(code_cmds)) if k == nin else b"\x00")
        if k != nin and (single or none):
            s = s + le(0, 4)
        else:
            s = s + le(i["seq"], 4)
    nout = 0 if none else (nin + 1 if single else len(outs))
    s = s + varint(nout)
    for k in range(nout):
        if single and k != nin:
            s = s + b"\xff" * 8 + b"\x00"  # CTxOut(): nValue = -1, empty script
        else:
            s = s + ser_out(outs[k])
    s = s + le(c["locktime"], 4) + le(ht, 4)
    return ("digest", s, be_int(hash256(s)))


def spec_bip143(c, nin, script_code, ht):
    """BIP143; script_code is the serialised scriptCode (with its length prefix)"""
    ins, outs = c["ins"], c["outs"]
    Z = bytes(32)
    base = ht & 0x1F
    single = base == SINGLE
    none = base == NONE
    acp = (ht & ACP) != 0
    hp = Z if acp else hash256(cat(outpoint(i) for i in ins))
    hs = Z if (acp or single or none) else hash256(cat(le(i["seq"], 4) for i in ins))
    if not (single or none):
        ho = hash256(cat(ser_out(o) for o in outs))
    elif single and nin < len(outs):
        ho = hash256(ser_out(outs[nin]))
    else:
        ho = Z
    i = ins[nin]
    s = (le(c["version"], 4) + hp + hs + outpoint(i) + script_code + le(i["value"], 8) + le(i["seq"], 4) + ho
         + le(c["locktime"], 4) + le(ht, 4))
    return ("digest", s, be_int(hash256(s)))


def p2pkh_code(h160):
    return b"\x19\x76\xa9\x14" + h160 + b"\x88\xac"


def split_annex(wit):
    """BIP341: 'If there are at least two witness elements, and the first byte of the last element is 0x50, this last
    element is called annex'.  Returns (annex or None, remaining items)."""
    if len(wit) >= 2 and len(wit[-1]) > 0 and wit[-1][0] == 0x50:
        return wit[-1], wit[:-1]
    return None, wit


def spec_bip341(c, nin, ht, ext_flag):
    """BIP341 SigMsg(hash_type, ext_flag) with the BIP342 extension when ext_flag = 1; ('invalid',) where BIP341 says fail"""
    ins, outs = c["ins"], c["outs"]
    if ht not in HT_TAP:
        return ("invalid", None, None)
    out_type = ALL if ht == 0 else ht & 3
    acp = (ht & ACP) != 0
    i = ins[nin]
    annex, rest = split_annex(i["wit"])
    s = bytes([ht]) + le(c["version"], 4) + le(c["locktime"], 4)
    if not acp:
        s = s + sha256(cat(outpoint(x) for x in ins))
        s = s + sha256(cat(le(x["value"], 8) for x in ins))
        s = s + sha256(cat(varstr(spec_script(x["spk"])) for x in ins))
        s = s + sha256(cat(le(x["seq"], 4) for x in ins))
    if out_type == ALL:
        s = s + sha256(cat(ser_out(o) for o in outs))
    s = s + bytes([ext_flag * 2 + (1 if annex is not None else 0)])
    if acp:
        s = s + outpoint(i) + le(i["value"], 8) + varstr(spec_script(i["spk"])) + le(i["seq"], 4)
    else:
        s = s + le(nin, 4)
    if annex is not None:
        s = s + sha256(varstr(annex))
    if out_type == SINGLE:
        if nin >= len(outs):
            return ("invalid", None, None)
        s = s + sha256(ser_out(outs[nin]))
    if ext_flag == 1:
        if len(rest) < 2:
            return ("invalid", None, None)
        script, cb = rest[-2], rest[-1]
        leaf_version = cb[0] & 0xFE
        lv = bytes([leaf_version]) if isinstance(leaf_version, int) else SBytes([leaf_version])
        s = s + tagged(b"TapLeaf", lv + varstr(script)) + b"\x00" + b"\xff\xff\xff\xff"
    pre = b"\x00" + s
    return ("digest", pre, tagged(b"TapSighash", pre))


def spec_direct(c, idx, ht, ext_flag=None):
    """the digest the algorithm function of the signed input's kind must return"""
    i = c["ins"][idx]
    k = i["kind"]
    if k == "p2pkh":
        return spec_legacy(c, idx, i["spk"], ht)
    if k == "p2sh":
        return spec_legacy(c, idx, i["redeem"], ht)
    if k == "p2wpkh":
        return spec_bip143(c, idx, p2pkh_code(i["spk"][1]), ht)
    if k == "p2sh-p2wpkh":
        return spec_bip143(c, idx, p2pkh_code(i["redeem"][1]), ht)
    if k in ("p2wsh", "p2sh-p2wsh"):
        return spec_bip143(c, idx, varstr(spec_script(i["wscript"])), ht)
    if k == "p2tr":
        return spec_bip341(c, idx, ht, ext_flag)
    raise KeyError(k)


def spec_select(c, idx):
    """which algorithm / arguments BIP16, BIP141 and BIP341 select for this input (byte patterns of the spent output,
    the scriptSig's last push, the witness)"""
    i = c["ins"][idx]
    spk = spec_script(i["spk"])

    def wpkh(b):
        return len(b) == 22 and b[0] == 0 and b[1] == 20

    def wsh(b):
        return len(b) == 34 and b[0] == 0 and b[1] == 32
    if wpkh(spk):
        return {"alg": "bip143", "redeem": False, "wscript": False}
    if wsh(spk):
        return {"alg": "bip143", "redeem": False, "wscript": True}
    if len(spk) == 34 and spk[0] == 0x51 and spk[1] == 32:
        annex, rest = split_annex(i["wit"])
        return {"alg": "bip341", "ext_flag": 1 if len(rest) >= 2 else 0}
    if len(spk) == 23 and spk[0] == 0xA9 and spk[1] == 20 and spk[22] == 0x87:
        redeem = i["sig"][-1]
        if wpkh(redeem):
            return {"alg": "bip143", "redeem": True, "wscript": False}
        if wsh(redeem):
            return {"alg": "bip143", "redeem": True, "wscript": True}
        return {"alg": "legacy", "redeem": True}
    return {"alg": "legacy", "redeem": False}


# ---------------------------------------------------------------------------------------- content construction

class Gen:
    """factory of symbolic values that remembers their ranges (random concrete environments for self-validation)"""

    def __init__(self):
        self.reg = {}

    def si(self, name, lo, hi):
        self.reg[name] = (lo, hi)
        return SI.var(name, lo, hi)

    def sb(self, name, n):
        for k in range(n):
            self.reg[f"{name}[{k}]"] = (0, 255)
        return SBytes.sym(name, n) if n else b""

    def env(self, rng):
        return {k: rng.randint(lo, hi) for k, (lo, hi) in self.reg.items()}


MULTISIG = lambda g, p: [0x51, g.sb(p, 3), 0x51, 0xAE]  # noqa: E731  (1-of-1 multisig-shaped script with a short key placeholder)


def mk_in(g, p, kind, tvar="sign", pos=0):
    d = {"prev": g.sb(p + ".prev", 32), "idx": g.si(p + ".idx", 0, (1 << 32) - 1), "seq": g.si(p + ".seq", 0, (1 << 32) - 1),
         "value": g.si(p + ".value", 0, (1 << 63) - 1), "sig": [], "wit": [], "kind": kind, "redeem": None, "wscript": None}
    if kind == "p2pkh":
        d["spk"] = [0x76, 0xA9, g.sb(p + ".h160", 20), 0x88, 0xAC]
        d["sig"] = [g.sb(p + ".sig", 2), g.sb(p + ".pub", 3)]
    elif kind == "p2sh":
        d["redeem"] = MULTISIG(g, p + ".rkey")
        d["spk"] = [0xA9, g.sb(p + ".h160", 20), 0x87]
        d["sig"] = [0, g.sb(p + ".sig", 2), spec_script(d["redeem"])]
    elif kind == "p2wpkh":
        d["spk"] = [0, g.sb(p + ".h160", 20)]
        d["wit"] = [g.sb(p + ".sig", 2), g.sb(p + ".pub", 3)]
    elif kind == "p2sh-p2wpkh":
        d["redeem"] = [0, g.sb(p + ".h160", 20)]
        d["spk"] = [0xA9, g.sb(p + ".sh", 20), 0x87]
        d["sig"] = [spec_script(d["redeem"])]
        d["wit"] = [g.sb(p + ".sig", 2), g.sb(p + ".pub", 3)]
    elif kind == "p2wsh":
        d["wscript"] = MULTISIG(g, p + ".wkey")
        d["spk"] = [0, g.sb(p + ".s256", 32)]
        d["wit"] = [b"", g.sb(p + ".sig", 2), spec_script(d["wscript"])]
    elif kind == "p2sh-p2wsh":
        d["wscript"] = MULTISIG(g, p + ".wkey")
        d["redeem"] = [0, g.sb(p + ".s256", 32)]
        d["spk"] = [0xA9, g.sb(p + ".sh", 20), 0x87]
        d["sig"] = [spec_script(d["redeem"])]
        d["wit"] = [b"", g.sb(p + ".sig", 2), spec_script(d["wscript"])]
    elif kind == "p2tr":
        d["spk"] = [0x51, g.sb(p + ".xonly", 32)]
        d["wit"] = mk_tap_witness(g, p, tvar)
    else:  # an unrelated input: some non-standard script, nothing in scriptSig / witness that matters
        v = pos % 3
        d["spk"] = [0x76, g.sb(p + ".s", 2), 0xAC] if v == 0 else ([g.sb(p + ".s", 1), 0x87] if v == 1 else [0x6A, g.sb(p + ".s", 3)])
        d["sig"] = [g.sb(p + ".ss", 1)]
    return d


def mk_tap_witness(g, p, tvar):
    """witness stacks of a taproot spend; every non-annex last element other than a lone signature is assumed not to
    start with 0x50 (otherwise it *is* an annex and the stack has the other shape)"""
    if tvar == "sign":
        return []
    al = annex_len(tvar)
    annex = [] if al is None else [b"\x50" + g.sb(p + ".annex", al - 1) if al > 1 else b"\x50"]
    base = tvar.split("+")[0]
    if base == "key":
        return [g.sb(p + ".sig", 2)] + annex
    script = spec_script([g.sb(p + ".tkey", 2), 0xAC])
    cbv = g.sb(p + ".cbv", 1)
    assume(cbv[0] != 0x50)
    cb = cbv + G_X
    items = [script, cb] + annex
    if base == "script":
        items = [g.sb(p + ".arg", 1)] + items
    return items


def mk_out(g, p, pos=0):
    v = pos % 4
    spk = [0x76, g.sb(p + ".s", 1)] if v == 0 else ([0x76, g.sb(p + ".s", 2), 0x88] if v == 1 else ([g.sb(p + ".s", 3)] if v == 2 else [0x6A]))
    return {"amt": g.si(p + ".amt", 0, (1 << 63) - 1), "spk": spk}


def mk_content(g, p, n_in, n_out, kinds, tvar="sign"):
    """kinds: dict input position -> kind (other positions are unrelated inputs) or a single kind for all inputs"""
    ins = []
    for k in range(n_in):
        kind = kinds if isinstance(kinds, str) else kinds.get(k, "other")
        ins.append(mk_in(g, f"{p}in{k}", kind, tvar, k))
    return {"version": g.si(p + "version", 0, (1 << 32) - 1), "locktime": g.si(p + "locktime", 0, (1 << 32) - 1),
            "ins": ins, "outs": [mk_out(g, f"{p}out{k}", k) for k in range(n_out)]}


def _js(x):
    if isinstance(x, (bytes, bytearray)):
        return "0x" + bytes(x).hex()
    if isinstance(x, dict):
        return {k: _js(v) for k, v in x.items()}
    if isinstance(x, (list, tuple)):
        return [_js(v) for v in x]
    return x


def _unjs(x):
    if isinstance(x, str):
        return bytes.fromhex(x[2:]) if x.startswith("0x") else x
    if isinstance(x, dict):
        return {k: _unjs(v) for k, v in x.items()}
    if isinstance(x, list):
        return [_unjs(v) for v in x]
    return x


# ---------------------------------------------------------------------------------------- driving the library

class _Mods:
    pass


def mods(sym):
    m = _Mods()
    ld = loader.load if sym else loader.native
    m.tx, m.script, m.witness, m.timelock = ld("tx"), ld("script"), ld("witness"), ld("timelock")
    _install_recorder(m.tx)
    return m


_REC = []


def _install_recorder(txm):
    """record the argument of the outer hash (transparent wrappers around the two names Tx.sig_hash_* call)"""
    if getattr(txm, "_c05_rec", False):
        return
    o1, o2 = txm.hash256, txm.hash_tapsighash

    def h256(s):
        _REC.append(("hash256", s))
        return o1(s)

    def hts(s):
        _REC.append(("tapsighash", s))
        return o2(s)
    txm.hash256, txm.hash_tapsighash = h256, hts
    txm._c05_rec = True


def build_in(M, i):
    ti = M.tx.TxIn(i["prev"], i["idx"], M.script.Script(list(i["sig"])), i["seq"])
    ti._value = i["value"]
    ti._script_pubkey = M.script.ScriptPubKey(list(i["spk"]))
    ti.witness = M.witness.Witness(list(i["wit"]))
    return ti


def build_out(M, o):
    return M.tx.TxOut(o["amt"], M.script.ScriptPubKey(list(o["spk"])))


def build(M, c):
    return M.tx.Tx(c["version"], [build_in(M, i) for i in c["ins"]], [build_out(M, o) for o in c["outs"]], c["locktime"],
                   network="mainnet", segwit=True)


def call_direct(M, tx, c, idx, ht, ext_flag=None):
    i = c["ins"][idx]
    k = i["kind"]
    S = M.script
    if k == "p2pkh":
        return tx.sig_hash_legacy(idx, None, hash_type=ht)
    if k == "p2sh":
        return tx.sig_hash_legacy(idx, S.RedeemScript(list(i["redeem"])), hash_type=ht)
    if k == "p2wpkh":
        return tx.sig_hash_bip143(idx, hash_type=ht)
    if k == "p2sh-p2wpkh":
        return tx.sig_hash_bip143(idx, redeem_script=S.RedeemScript(list(i["redeem"])), hash_type=ht)
    if k == "p2wsh":
        return tx.sig_hash_bip143(idx, witness_script=S.WitnessScript(list(i["wscript"])), hash_type=ht)
    if k == "p2sh-p2wsh":
        return tx.sig_hash_bip143(idx, redeem_script=S.RedeemScript(list(i["redeem"])),
                                  witness_script=S.WitnessScript(list(i["wscript"])), hash_type=ht)
    if k == "p2tr":
        return tx.sig_hash_bip341(idx, ext_flag=ext_flag, hash_type=ht)
    raise KeyError(k)


def call_selected(M, tx, c, idx, ht, sel):
    i = c["ins"][idx]
    S = M.script
    if sel["alg"] == "legacy":
        return tx.sig_hash_legacy(idx, S.RedeemScript(list(i["redeem"])) if sel["redeem"] else None, hash_type=ht)
    if sel["alg"] == "bip143":
        return tx.sig_hash_bip143(idx, redeem_script=S.RedeemScript(list(i["redeem"])) if sel["redeem"] else None,
                                  witness_script=S.WitnessScript(list(i["wscript"])) if sel["wscript"] else None, hash_type=ht)
    return tx.sig_hash_bip341(idx, ext_flag=sel["ext_flag"], hash_type=ht)


def _try(f):
    try:
        return ("ok", f())
    except Exception as e:  # an exception of the code under test is an outcome
        return ("exc", type(e).__name__)


def _same(a, b):
    """equality of two ('ok', digest) / ('exc', name) outcomes: bool or SB"""
    if a[0] != b[0]:
        return False
    if a[0] == "exc":
        return a[1] == b[1]
    x, y = a[1], b[1]
    if isinstance(x, (bytes, bytearray, SBytes)) != isinstance(y, (bytes, bytearray, SBytes)):
        return False
    if isinstance(x, (bytes, bytearray, SBytes)) and len(x) != len(y):
        return False
    return x == y


def _ext_of(tvar):
    return 1 if tvar.startswith("script") else 0


def _outval(r):
    return r[1] if r[0] == "ok" else "exc:" + r[1]


def _pick(name, values):
    """an element of a small explicit set, chosen by the solver: the exploration forks into one path per value (the
    signed input index and the hash type are selected this way, so one exploration covers all of them)"""
    values = list(values)
    v = SI.var(name, min(values), max(values))
    assume(core.s_or(*[v == x for x in values]))
    return core.concretize(v)


# ---------------------------------------------------------------------------------------- O1..O3 digests

def _direct_path(kind, n_in, n_out, hts, tvar, holder):
    M = mods(True)
    g = holder.setdefault("g", Gen())  # one registry for all paths (the variables differ with the signed input)
    alg = ALG_OF_KIND[kind]
    idx = _pick("input_index", range(n_in))
    sym_ht = hts == "sym"
    if sym_ht:
        ht = SI.var("hash_type", 0, 255)  # stays symbolic: the library and the oracle branch on it
        assume(core.s_or(*[ht == v for v in HT_STD]))
    else:
        ht = _pick("hash_type", hts)
    c = holder[idx] = mk_content(g, "", n_in, n_out, {idx: kind}, tvar)
    ext = _ext_of(tvar) if alg == "bip341" else None
    meta = {"algorithm": alg, "kind": kind, "n_in": n_in, "n_out": n_out, "input_index": idx,
            "path": ("script" if ext else "key") if alg == "bip341" else None, "ext_flag": ext,
            "annex": (annex_len(tvar) is not None) if alg == "bip341" else None, "witness_shape": tvar if alg == "bip341" else None}

    def wit(env):
        w = dict(meta, hash_type=conc_value(ht, env), content=_js(conc_value(c, env)))
        if alg == "bip341":
            items = conc_value(c["ins"][idx]["wit"], env)
            w["n_witness"] = len(items)
            w["witness_first_bytes"] = [it[0] if len(it) else None for it in items]
            w["annex"] = split_annex(items)[0] is not None
        return w
    tx = build(M, c)
    del _REC[:]
    r = _try(lambda: call_direct(M, tx, c, idx, ht, ext))
    pre_code = _REC[-1][1] if _REC else None
    st, pre, dig = spec_direct(c, idx, ht, ext)
    hl = ("symbolic" if sym_ht else f"{ht:#04x}") + f" [{n_in} in, {n_out} out, index {idx}" + (f", witness {tvar}]" if alg == "bip341" else "]")
    if st == "invalid":
        check(r[0] == "exc", f"{alg}/{kind} hash_type={hl}: BIP341 defines no digest here (signature invalid) but one was returned", witness=wit)
        return Out("invalid", _outval(r))
    if r[0] == "exc":
        check(False, f"{alg}/{kind} hash_type={hl}: raised {r[1]} where the specification defines a digest", witness=wit)
        return Out("exc", _outval(r))
    got = r[1]
    if st == "one":
        check(got == ONE_INT, f"{alg}/{kind} hash_type={hl}: SIGHASH_SINGLE without matching output must give uint256(1)", witness=wit)
        return Out("one", got)
    same_pre = pre_code is not None and len(pre_code) == len(pre) and (pre_code == pre)
    check(s_and(same_pre, _same(("ok", got), ("ok", dig))),
          f"{alg}/{kind} hash_type={hl}: preimage / digest differs from the specification", witness=wit)
    return Out("digest", got)


def _run_direct(kind, n_in, n_out, hts, tvar="sign", n_val=4):
    """one (shape, script kind, witness shape) instance covering every signed input and every hash type of hts; the
    symbolic digests are also validated against the native library on n_val random concrete environments"""
    holder = {}
    alg = ALG_OF_KIND[kind]
    ext = _ext_of(tvar) if alg == "bip341" else None

    def gen_env(rng):
        env = holder["g"].env(rng)
        for k in env:
            if k.endswith(".cbv[0]") and env[k] == 0x50:  # stay inside the harness assumption on control blocks
                env[k] = 0xC0
        env["input_index"] = rng.randrange(n_in)
        env["hash_type"] = rng.choice(HT_STD if hts == "sym" else hts)
        return env

    def native(env):
        M = mods(False)
        idx = env["input_index"]
        c = conc_value(holder[idx], env)
        return _outval(_try(lambda: call_direct(M, build(M, c), c, idx, env["hash_type"], ext)))
    return sym_run(lambda: _direct_path(kind, n_in, n_out, hts, tvar, holder), timeout_ms=60000, gen_env=gen_env, native=native, n_val=n_val)


LEGACY_KINDS = ("p2pkh", "p2sh")
BIP143_KINDS = ("p2wpkh", "p2sh-p2wpkh", "p2wsh", "p2sh-p2wsh")


def ob_legacy(n_in, n_outs):
    runs = []
    for n_out in n_outs:
        runs += [_run_direct(kind, n_in, n_out, HT_STD) for kind in LEGACY_KINDS]
        runs.append(sym_run(lambda: _legacy_range_path(n_in, n_out)))
        if (n_in, n_out) == (2, 2):
            runs.append(_run_direct("p2pkh", n_in, n_out, "sym"))
    m = merge_runs(runs)
    m["sample"] = {"tx": f"{n_in} inputs, {list(n_outs)} outputs, all fields symbolic", "signed input": "each", "script code": list(LEGACY_KINDS),
                   "hash types": [hex(h) for h in HT_STD]}
    return m


def _legacy_range_path(n_in, n_out):
    """input index == number of inputs: the original code returns 1 (no symbolic content is involved)"""
    M = mods(True)
    g = Gen()
    c = mk_content(g, "", n_in, n_out, "p2pkh")
    tx = build(M, c)
    r = _try(lambda: tx.sig_hash_legacy(n_in, None, hash_type=ALL))
    check(_same(r, ("ok", ONE_INT)), "legacy: input index out of range must give uint256(1)",
          witness=lambda env: {"algorithm": "legacy", "kind": "p2pkh", "n_in": n_in, "n_out": n_out, "input_index": n_in, "hash_type": ALL,
                               "content": _js(conc_value(c, env))})
    return "range"


def ob_bip143(n_in, n_outs):
    runs = []
    for n_out in n_outs:
        runs += [_run_direct(kind, n_in, n_out, HT_STD) for kind in BIP143_KINDS]
        if (n_in, n_out) == (2, 2):
            runs.append(_run_direct("p2wpkh", n_in, n_out, "sym"))
    m = merge_runs(runs)
    m["sample"] = {"tx": f"{n_in} inputs, {list(n_outs)} outputs, all fields symbolic", "signed input": "each", "script code": list(BIP143_KINDS),
                   "hash types": [hex(h) for h in HT_STD]}
    return m


def ob_bip341(n_in, n_outs):
    runs = [_run_direct("p2tr", n_in, n_out, HT_TAP, tvar) for n_out in n_outs for tvar in TVARS]
    m = merge_runs(runs)
    m["sample"] = {"tx": f"{n_in} inputs, {list(n_outs)} outputs, all fields symbolic", "signed input": "each", "witness shapes": list(TVARS),
                   "hash types": [hex(h) for h in HT_TAP]}
    return m


def _diff(a, b):
    if a is None:
        return "no outer hash call"
    if len(a) != len(b):
        k = next((j for j in range(min(len(a), len(b))) if a[j] != b[j]), min(len(a), len(b)))
        return f"preimage lengths {len(a)} (library) vs {len(b)} (specification), first difference at offset {k}"
    k = next((j for j in range(len(a)) if a[j] != b[j]), None)
    return "preimages equal" if k is None else f"preimages differ first at offset {k} of {len(a)}"


def replay_direct(w):
    M = mods(False)
    c = _unjs(w["content"])
    idx, ht, ext = w["input_index"], w["hash_type"], w.get("ext_flag")
    tx = build(M, c)
    del _REC[:]
    if idx >= len(c["ins"]):
        r = _try(lambda: tx.sig_hash_legacy(idx, None, hash_type=ht))
        return {"violated": r != ("ok", ONE_INT), "observed": f"sig_hash_legacy(index {idx} of {len(c['ins'])} inputs) -> {r}"}
    r = _try(lambda: call_direct(M, tx, c, idx, ht, ext))
    pre_code = _REC[-1][1] if _REC else None
    st, pre, dig = spec_direct(c, idx, ht, ext)
    head = (f"{w['algorithm']}/{w['kind']} n_in={len(c['ins'])} n_out={len(c['outs'])} index={idx} hash_type={ht:#04x}"
            + (f" witness={w.get('witness_shape')} ext_flag={ext}" if w["algorithm"] == "bip341" else ""))
    if st == "invalid":
        return {"violated": r[0] != "exc", "observed": f"{head}: no digest defined; library -> {r[0]}"}
    if r[0] == "exc":
        return {"violated": True, "observed": f"{head}: library raised {r[1]}; specification digest "
                                              f"{dig.hex() if isinstance(dig, bytes) else hex(dig)}"}
    got = r[1]
    if st == "one":
        return {"violated": got != ONE_INT, "observed": f"{head}: library {got:#x}, specification uint256(1)"}
    f = (lambda v: v.hex() if isinstance(v, (bytes, bytearray)) else f"{v:064x}")
    return {"violated": got != dig, "expected": f(dig),
            "observed": f"{head}: library {f(got)} vs specification {f(dig)}; {_diff(pre_code, pre)}"}


# ---------------------------------------------------------------------------------------- O4 dispatch

def _dispatch_path(kind, n_in, n_out, tvar):
    M = mods(True)
    g = Gen()
    idx = _pick("input_index", range(n_in))
    ht = _pick("hash_type", HT_TAP if kind == "p2tr" else HT_STD)
    c = mk_content(g, "", n_in, n_out, {idx: kind}, tvar)
    sel = spec_select(c, idx)

    def wit(env):
        items = conc_value(c["ins"][idx]["wit"], env)
        return {"algorithm": "dispatch", "selected": sel["alg"], "kind": kind, "n_in": n_in, "n_out": n_out, "input_index": idx, "hash_type": ht,
                "path": ("script" if sel.get("ext_flag") else "key") if sel["alg"] == "bip341" else None,
                "annex": (split_annex(items)[0] is not None) if sel["alg"] == "bip341" else None,
                "witness_shape": tvar if kind == "p2tr" else None, "n_witness": len(items),
                "witness_first_bytes": [it[0] if len(it) else None for it in items], "content": _js(conc_value(c, env))}
    tx, fresh = build(M, c), build(M, c)
    r = _try(lambda: tx.sig_hash(idx, ht))
    f = _try(lambda: call_selected(M, fresh, c, idx, ht, sel))
    check(_same(r, f), f"dispatch/{kind}{'/' + tvar if kind == 'p2tr' else ''}: Tx.sig_hash differs from the {sel['alg']} function called with the "
                        f"arguments the BIPs select (hash_type={ht:#04x}) [{n_in} in, {n_out} out, index {idx}]", witness=wit)
    return (sel["alg"], sel.get("ext_flag"))


def ob_dispatch(n_in, n_outs):
    runs = []
    for n_out in n_outs:
        for kind in LEGACY_KINDS + BIP143_KINDS:
            runs.append(sym_run(lambda: _dispatch_path(kind, n_in, n_out, "sign"), timeout_ms=60000))
        for tvar in TVARS:
            runs.append(sym_run(lambda: _dispatch_path("p2tr", n_in, n_out, tvar), timeout_ms=60000))
    m = merge_runs(runs)
    for cls in ("('legacy', None)", "('bip143', None)", "('bip341', 0)", "('bip341', 1)"):
        if cls not in m["classes"]:
            m["inconclusive"].append(f"reachability twin: selection {cls} never exercised")
    m["sample"] = {"tx": f"{n_in} inputs, {list(n_outs)} outputs", "spent output kinds": list(LEGACY_KINDS + BIP143_KINDS) + ["p2tr"],
                   "taproot witness shapes": list(TVARS)}
    return m


def replay_dispatch(w):
    M = mods(False)
    c = _unjs(w["content"])
    idx, ht = w["input_index"], w["hash_type"]
    sel = spec_select(c, idx)
    r = _try(lambda: build(M, c).sig_hash(idx, ht))
    f = _try(lambda: call_selected(M, build(M, c), c, idx, ht, sel))
    fm = (lambda o: o[1] if o[0] == "exc" else (o[1].hex() if isinstance(o[1], bytes) else f"{o[1]:064x}"))
    return {"violated": r != f, "observed": f"{w['kind']} witness items={w['n_witness']} annex={w['annex']} hash_type={ht:#04x}: Tx.sig_hash -> {fm(r)}; "
                                            f"selected {sel} -> {fm(f)}"}


# ---------------------------------------------------------------------------------------- O5 history independence

H_KIND = {"legacy": "p2pkh", "bip143": "p2wpkh", "bip341": "p2tr"}
EDITS_OUT = ("out_amount", "out_script", "out_append", "out_pop", "outs_replace")
EDITS_IN = ("in_sequence", "in_prev_index", "in_prev_tx", "in_append", "in_pop", "ins_replace")
EDITS_OTHER = ("locktime", "version", "witness", "replace_all")
EDITS_SPENT = ("in_value", "in_spk")      # the recorded spent-output data of an input (amount / scriptPubKey), corrected in place
EDITS = EDITS_OUT + EDITS_IN + EDITS_OTHER
FILLS = {"none": (), "in": ("in",), "out": ("out",), "both": ("in", "out")}
FILL_METHOD = {("bip143", "in"): "hash_prevouts", ("bip143", "out"): "hash_outputs", ("bip341", "in"): "sha_prevouts",
               ("bip341", "out"): "sha_outputs"}


def mk_edit_args(g, p, edit, c, kind, shape=None):
    """new (symbolic) values of one edit of content c"""
    n_in, n_out = len(c["ins"]), len(c["outs"])
    if edit == "out_amount":
        return {"j": n_out - 1, "amt": g.si(p + ".amt", 0, (1 << 63) - 1)}
    if edit == "out_script":
        return {"j": 0, "spk": [0x76, g.sb(p + ".s", 2)]}
    if edit == "out_append":
        return {"out": mk_out(g, p + ".out", n_out + 1)}
    if edit in ("out_pop", "in_pop"):
        return {}
    if edit == "outs_replace":
        return {"outs": [mk_out(g, f"{p}.out{k}", k + 1) for k in range(shape[1])]}
    if edit == "in_sequence":
        return {"i": n_in - 1, "seq": g.si(p + ".seq", 0, (1 << 32) - 1)}
    if edit == "in_prev_index":
        return {"i": 0, "idx": g.si(p + ".idx", 0, (1 << 32) - 1)}
    if edit == "in_prev_tx":
        return {"i": n_in - 1, "prev": g.sb(p + ".prev", 32)}
    if edit == "in_value":
        return {"i": n_in - 1, "value": g.si(p + ".value", 0, (1 << 63) - 1)}
    if edit == "in_spk":
        old = c["ins"][0]["spk"]
        return {"i": 0, "spk": [x if isinstance(x, int) else g.sb(p + f".spk{k}", len(x)) for k, x in enumerate(old)]}
    if edit == "in_append":
        return {"in": mk_in(g, p + ".in", kind)}
    if edit == "ins_replace":
        return {"ins": [mk_in(g, f"{p}.in{k}", kind) for k in range(shape[0])]}
    if edit == "locktime":
        return {"locktime": g.si(p + ".locktime", 0, (1 << 32) - 1)}
    if edit == "version":
        return {"version": g.si(p + ".version", 0, (1 << 32) - 1)}
    if edit == "witness":
        return {"i": 0, "wit": [g.sb(p + ".sig", 2), b"\x50" + g.sb(p + ".annex", 2)]}
    if edit == "replace_all":
        return {"ins": [mk_in(g, f"{p}.in{k}", kind) for k in range(shape[0])],
                "outs": [mk_out(g, f"{p}.out{k}", k + 1) for k in range(shape[1])],
                "version": g.si(p + ".version", 0, (1 << 32) - 1), "locktime": g.si(p + ".locktime", 0, (1 << 32) - 1)}
    raise KeyError(edit)


def apply_edit(M, tx, c, edit, a):
    """apply the edit to the library object through its public attributes and to the content mirror"""
    c = {"version": c["version"], "locktime": c["locktime"], "ins": [dict(i) for i in c["ins"]], "outs": [dict(o) for o in c["outs"]]}
    if edit == "out_amount":
        tx.tx_outs[a["j"]].amount = a["amt"]
        c["outs"][a["j"]]["amt"] = a["amt"]
    elif edit == "out_script":
        tx.tx_outs[a["j"]].script_pubkey = M.script.ScriptPubKey(list(a["spk"]))
        c["outs"][a["j"]]["spk"] = a["spk"]
    elif edit == "out_append":
        tx.tx_outs.append(build_out(M, a["out"]))
        c["outs"].append(a["out"])
    elif edit == "out_pop":
        tx.tx_outs.pop()
        c["outs"].pop()
    elif edit == "outs_replace":
        tx.tx_outs = [build_out(M, o) for o in a["outs"]]
        c["outs"] = list(a["outs"])
    elif edit == "in_sequence":
        tx.tx_ins[a["i"]].sequence = M.timelock.Sequence(a["seq"])
        c["ins"][a["i"]]["seq"] = a["seq"]
    elif edit == "in_prev_index":
        tx.tx_ins[a["i"]].prev_index = a["idx"]
        c["ins"][a["i"]]["idx"] = a["idx"]
    elif edit == "in_prev_tx":
        tx.tx_ins[a["i"]].prev_tx = a["prev"]
        c["ins"][a["i"]]["prev"] = a["prev"]
    elif edit == "in_value":
        tx.tx_ins[a["i"]]._value = a["value"]
        c["ins"][a["i"]]["value"] = a["value"]
    elif edit == "in_spk":
        tx.tx_ins[a["i"]]._script_pubkey = M.script.ScriptPubKey(list(a["spk"]))
        c["ins"][a["i"]]["spk"] = list(a["spk"])
    elif edit == "in_append":
        tx.tx_ins.append(build_in(M, a["in"]))
        c["ins"].append(a["in"])
    elif edit == "in_pop":
        tx.tx_ins.pop()
        c["ins"].pop()
    elif edit == "ins_replace":
        tx.tx_ins = [build_in(M, i) for i in a["ins"]]
        c["ins"] = list(a["ins"])
    elif edit == "locktime":
        tx.locktime = M.timelock.Locktime(a["locktime"])
        c["locktime"] = a["locktime"]
    elif edit == "version":
        tx.version = a["version"]
        c["version"] = a["version"]
    elif edit == "witness":
        tx.tx_ins[a["i"]].witness = M.witness.Witness(list(a["wit"]))
        c["ins"][a["i"]]["wit"] = list(a["wit"])
    elif edit == "replace_all":
        tx.tx_ins = [build_in(M, i) for i in a["ins"]]
        tx.tx_outs = [build_out(M, o) for o in a["outs"]]
        tx.version = a["version"]
        tx.locktime = M.timelock.Locktime(a["locktime"])
        c = {"version": a["version"], "locktime": a["locktime"], "ins": list(a["ins"]), "outs": list(a["outs"])}
    else:
        raise KeyError(edit)
    return c


def run_history(M, c0, steps, on_query):
    """steps: ['fill', method] | ['edit', kind, args] | ['query', index, hash_type].  After every query the digest of
    the long-lived object is handed to on_query together with the digest of a fresh object with the current content."""
    tx = build(M, c0)
    c = c0
    for si, st in enumerate(steps):
        if st[0] == "fill":
            getattr(tx, st[1])()
        elif st[0] == "edit":
            c = apply_edit(M, tx, c, st[1], st[2])
        else:
            idx, ht = st[1], st[2]
            ext = 0 if c["ins"][idx]["kind"] == "p2tr" else None
            cc = c
            r = _try(lambda: call_direct(M, tx, cc, idx, ht, ext))
            f = _try(lambda: call_direct(M, build(M, cc), cc, idx, ht, ext))
            on_query(si, st, c, r, f)


def stale_sim(c0, steps):
    """triage aid only (never part of a verdict): for each query step, would a never-invalidated memo that was filled
    before an edit of the data it summarises be *used* by this query?  -> {step index: bool}"""
    filled = {}  # (alg, group) -> set of stale parts
    out = {}
    kinds = [i["kind"] for i in c0["ins"]]
    dirty_map = {"out": {"out"}, "in_sequence": {"seq"}, "in_prev": {"prev"}, "in_all": {"prev", "seq", "amounts"}}
    for si, st in enumerate(steps):
        if st[0] == "fill":
            alg = "bip143" if st[1].startswith("hash_") else "bip341"
            grp = "out" if st[1].endswith("outputs") else "in"
            filled.setdefault((alg, grp), set())
        elif st[0] == "edit":
            e = st[1]
            if e in EDITS_OUT:
                d = dirty_map["out"]
            elif e == "in_sequence":
                d = dirty_map["in_sequence"]
            elif e in ("in_prev_index", "in_prev_tx"):
                d = dirty_map["in_prev"]
            elif e in ("in_append", "in_pop", "ins_replace"):
                d = dirty_map["in_all"]
            elif e == "replace_all":
                d = dirty_map["in_all"] | dirty_map["out"]
            else:
                d = set()
            for (alg, grp), s in filled.items():
                s |= {x for x in d if (x == "out") == (grp == "out")}
            if e == "in_append":
                kinds = kinds + [None]
            elif e in ("ins_replace", "replace_all"):
                kinds = [None] * 16
        else:
            idx, ht = st[1], st[2]
            k = kinds[idx] if idx < len(kinds) and kinds[idx] else None
            alg = ALG_OF_KIND.get(k) if k else st[3] if len(st) > 3 else None
            acp = bool(ht & ACP)
            base_all = (ht & 3) not in (NONE, SINGLE)
            used = set()
            if alg == "bip143":
                if not acp:
                    used.add(("in", "prev"))
                    if base_all:
                        used.add(("in", "seq"))
                if base_all:
                    used.add(("out", "out"))
            elif alg == "bip341":
                if not acp:
                    used |= {("in", "prev"), ("in", "seq"), ("in", "amounts")}
                if base_all:
                    used.add(("out", "out"))
            stale = False
            for grp in {u[0] for u in used}:
                if (alg, grp) in filled:
                    if any(u[0] == grp and u[1] in filled[(alg, grp)] for u in used):
                        stale = True
                else:
                    filled[(alg, grp)] = set()
            out[si] = stale
    return out


def _history_path(alg, shape_a, steps_fn, meta, pick=None):
    """steps_fn(g, c0, idx, ht) -> steps with symbolic arguments; pick = (number of inputs at the final query, hash types)
    lets the solver choose the final query"""
    M = mods(True)
    g = Gen()
    idx = ht = None
    if pick:
        idx = _pick("input_index", range(pick[0]))
        ht = _pick("hash_type", pick[1])
    kinds = meta.get("kinds") or H_KIND[alg]
    c0 = mk_content(g, "A.", shape_a[0], shape_a[1], kinds)
    steps = steps_fn(g, c0, idx, ht)
    stale = stale_sim(c0, [s + [alg] if s[0] == "query" else s for s in steps])
    edits = [s[1] for s in steps if s[0] == "edit"]
    fills = [s[1] for s in steps if s[0] == "fill"]
    classes = []

    def on_query(si, st, c, r, f):
        idx, ht = st[1], st[2]
        qalg = ALG_OF_KIND[c["ins"][idx]["kind"]]

        def wit(env):
            return {"algorithm": qalg, "obligation_kind": "history", "hash_type": ht, "input_index": idx, "n_in": len(c["ins"]),
                    "n_out": len(c["outs"]), "edits": edits, "edit": ([s[1] for s in steps[:si] if s[0] == "edit"] or [None])[-1],
                    "fill": meta.get("fill"), "fills": fills, "at_step": si, "memo_used_stale": stale.get(si, False),
                    "queries_before": sum(1 for s in steps[:si] if s[0] == "query"),
                    "content": _js(conc_value(c0, env)), "steps": _js(conc_value(steps, env))}
        check(_same(r, f), f"history/{qalg}: digest after {' '.join(str(s[1]) for s in steps[:si] if s[0] != 'query') or 'queries'} "
                           f"differs from a fresh object (hash_type={ht:#04x}) [step {si}, {len(c['ins'])} in, {len(c['outs'])} out, index {idx}]",
              witness=wit)
        classes.append(r[0])
    run_history(M, c0, steps, on_query)
    return tuple(classes)


def _edit_ok(alg, edit, sa):
    if edit == "witness" and alg != "bip341":
        return False
    if edit in ("out_amount", "out_script", "out_pop") and sa[1] == 0:
        return False
    if edit == "in_pop" and sa[0] < 2:
        return False
    return True


def ob_history_step(alg, edits, shape_a=(2, 2), shapes_b=((2, 2),)):
    """inductive steps: memo groups filled for content A, one edit, one query"""
    runs = []
    for edit in edits:
        if _edit_ok(alg, edit, shape_a):
            sb = shapes_b if edit in ("outs_replace", "ins_replace", "replace_all") else ((2, 2),)
            runs += _history_step_runs(alg, edit, shape_a, sb)
    m = merge_runs(runs)
    m["sample"] = {"pre-state": f"Tx with {shape_a[0]} inputs / {shape_a[1]} outputs (symbolic content A), memo groups of {alg} each unset or "
                                f"computed for A", "edits": list(edits), "then": "digest for every input index and hash type == fresh object"}
    return m


def _history_step_runs(alg, edit, shape_a, shapes_b):
    runs = []
    kind = H_KIND[alg]
    # (nothing filled is the fresh object itself; it is the only memo state of the legacy algorithm)
    # "query": whatever a complete digest computation (input 0, ALL / DEFAULT) leaves behind on the object, under any name
    fills = ("none", "query") if alg == "legacy" else ("in", "out", "both", "query")
    hts = HT_TAP if alg == "bip341" else HT_STD
    for shape_b in shapes_b:
        for fill in fills:
            # shape after the edit decides the valid input indices
            n_in_after = {"in_append": shape_a[0] + 1, "in_pop": shape_a[0] - 1, "ins_replace": shape_b[0], "replace_all": shape_b[0]}.get(edit, shape_a[0])

            def steps_fn(g, c0, idx, ht):
                if fill == "query":
                    st = [["query", 0, 0 if alg == "bip341" else ALL]]
                else:
                    st = [["fill", FILL_METHOD[(alg, grp)]] for grp in FILLS[fill]]
                st.append(["edit", edit, mk_edit_args(g, "B", edit, c0, kind, shape_b)])
                st.append(["query", idx, ht])
                return st
            runs.append(sym_run(lambda: _history_path(alg, shape_a, steps_fn, {"fill": fill}, pick=(n_in_after, hts)), timeout_ms=60000))
    return runs


def _seq_defs():
    """fixed histories (values symbolic).  Each: (name, kinds per input, n_out, steps builder)"""
    E = lambda g, tag, edit, c, kind, shape=None: ["edit", edit, mk_edit_args(g, tag, edit, c, kind, shape)]  # noqa: E731
    Q = lambda idx, ht: ["query", idx, ht]  # noqa: E731
    out = []
    for alg in ("legacy", "bip143", "bip341"):
        k = H_KIND[alg]
        d = 0 if alg == "bip341" else ALL
        out.append((f"{alg}:sign-edit-output-sign", k, 2, 2, lambda g, c, k=k, d=d: [Q(0, d), E(g, "e1", "out_amount", c, k), Q(0, d)]))
        out.append((f"{alg}:queries-only", k, 3, 2, lambda g, c, k=k, d=d: [Q(0, d), Q(1, SINGLE), Q(2, NONE | ACP), Q(1, d), Q(0, SINGLE | ACP), Q(2, d)]))
        out.append((f"{alg}:sign-all-bump-sequence-sign-all", k, 2, 2,
                    lambda g, c, k=k, d=d: [Q(0, d), Q(1, d), E(g, "e1", "in_sequence", c, k), Q(0, d), Q(1, d)]))
        out.append((f"{alg}:add-change-output-between-signatures", k, 2, 1,
                    lambda g, c, k=k, d=d: [Q(0, d), E(g, "e1", "out_append", c, k), Q(1, d), E(g, "e2", "locktime", c, k), Q(0, d), Q(1, NONE)]))
    mixed = {0: "p2pkh", 1: "p2wpkh", 2: "p2tr"}
    out.append(("mixed:three-algorithms-interleaved", mixed, 3, 2,
                lambda g, c: [Q(0, ALL), Q(1, ALL), Q(2, 0), E(g, "e1", "out_script", c, "p2wpkh"), Q(2, 0), Q(1, ALL), Q(0, ALL),
                              E(g, "e2", "in_prev_index", c, "p2wpkh"), Q(1, SINGLE), Q(2, ALL | ACP), Q(0, NONE)]))
    out.append(("mixed:queries-only", mixed, 3, 3, lambda g, c: [Q(2, 0), Q(0, SINGLE), Q(1, NONE), Q(2, SINGLE | ACP), Q(1, ALL), Q(0, ALL | ACP)]))
    return out


def ob_history_sequences():
    runs = []
    names = []
    for (name, kinds, n_in, n_out, fn) in _seq_defs():
        names.append(name)
        alg = name.split(":")[0]
        runs.append(sym_run(lambda: _history_path(alg if alg != "mixed" else "bip143", (n_in, n_out), lambda g, c, i, h: fn(g, c),
                                                  {"kinds": kinds, "fill": None}), timeout_ms=60000))
    m = merge_runs(runs)
    m["sample"] = {"histories": names}
    return m


def replay_history(w):
    M = mods(False)
    c0 = _unjs(w["content"])
    steps = _unjs(w["steps"])
    res = {}

    def on_query(si, st, c, r, f):
        res[si] = (r, f, len(c["ins"]), len(c["outs"]))
    run_history(M, c0, steps, on_query)
    r, f, n_in, n_out = res[w["at_step"]]
    fm = (lambda o: o[1] if o[0] == "exc" else (o[1].hex() if isinstance(o[1], bytes) else f"{o[1]:064x}"))
    hist = " ; ".join(f"{s[0]} {s[1]}" + (f" ht={s[2]:#04x}" if s[0] == "query" else "") for s in steps[:w["at_step"] + 1])
    return {"violated": r != f, "observed": f"{w['algorithm']} history [{hist}] on {n_in} in/{n_out} out: long-lived object -> {fm(r)}; "
                                            f"fresh object with the same content -> {fm(f)}"}


# ---------------------------------------------------------------------------------------- registry

def obligations(tier):
    """few, large obligations: every worker process pays a start-up cost that exceeds the solver work of a small one"""
    q = tier == "quick"
    ins = range(1, 4) if q else range(1, 7)
    outs = tuple(range(0, 4) if q else range(0, 7))
    obs = []
    for n_in in ins:
        obs.append(Ob("O1-legacy", ob_legacy, {"n_in": n_in, "n_outs": outs}, replay="direct", budget_s=(600 if q else 1500)))
        obs.append(Ob("O2-bip143", ob_bip143, {"n_in": n_in, "n_outs": outs}, replay="direct", budget_s=(600 if q else 1500)))
        for part in ((outs[:2], outs[2:]) if q else tuple((o,) for o in outs)):
            obs.append(Ob("O3-bip341", ob_bip341, {"n_in": n_in, "n_outs": part}, replay="direct", budget_s=(600 if q else 1500)))
    for n_in in (ins if q else range(1, 5)):
        for part in ((outs[:2], outs[2:]) if q else ((0, 1), (2, 3), (4,))):
            obs.append(Ob("O4-dispatch", ob_dispatch, {"n_in": n_in, "n_outs": part}, replay="dispatch", budget_s=(600 if q else 1500)))
    shapes_a = ((2, 2),) if q else ((1, 0), (2, 2), (3, 3))
    b_in = range(1, 4) if q else range(1, 5)
    b_out = range(0, 4) if q else range(0, 5)
    small = tuple(e for e in EDITS if e not in ("outs_replace", "ins_replace", "replace_all"))
    for sa in shapes_a:
        obs.append(Ob("O5-history-step", ob_history_step, {"alg": "legacy", "edits": small, "shape_a": sa}, replay="history", budget_s=(600 if q else 1500)))
        obs.append(Ob("O5-history-step", ob_history_step, {"alg": "legacy", "edits": ("outs_replace", "ins_replace", "replace_all"), "shape_a": sa,
                                                            "shapes_b": tuple((bi, bo) for bi in b_in for bo in b_out)}, replay="history", budget_s=(600 if q else 1500)))
        for alg in ("bip143", "bip341"):
            for grp in (EDITS_OUT[:4], EDITS_IN[:5], EDITS_OTHER[:3], EDITS_SPENT):
                obs.append(Ob("O5-history-step", ob_history_step, {"alg": alg, "edits": grp, "shape_a": sa}, replay="history", budget_s=(600 if q else 1500)))
            obs.append(Ob("O5-history-step", ob_history_step, {"alg": alg, "edits": ("outs_replace",), "shape_a": sa,
                                                                "shapes_b": tuple((sa[0], bo) for bo in b_out)}, replay="history", budget_s=(600 if q else 1500)))
            obs.append(Ob("O5-history-step", ob_history_step, {"alg": alg, "edits": ("ins_replace",), "shape_a": sa,
                                                                "shapes_b": tuple((bi, sa[1]) for bi in b_in)}, replay="history", budget_s=(600 if q else 1500)))
            for bi in b_in:
                obs.append(Ob("O5-history-step", ob_history_step, {"alg": alg, "edits": ("replace_all",), "shape_a": sa,
                                                                    "shapes_b": tuple((bi, bo) for bo in b_out)}, replay="history", budget_s=(600 if q else 1500)))
    obs.append(Ob("O5-history-sequences", ob_history_sequences, replay="history", budget_s=(600 if q else 1500)))
    return obs
