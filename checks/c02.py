"""C02 — BIP340 Schnorr: signatures equal the specification and verify exactly per spec (DESIGN.md section 3, C02)."""
from symx import core, loader, shims, field
from symx.core import SI, SBytes, check, s_and, s_or, s_not, s_implies, assume, bytes_env, Out, conc_value, wrapb, lift, branch
from vlib.run import Ob, sym_run, merge_runs, conc_run
from checks._group import Env, with_env, N, P, seven_is_nonresidue

PROPERTY = "C02"

META = {
    "bounds": {
        "quick": {"sign": "all secrets d in [1,N-1] (both key parities), all 32-byte messages and aux values; both nonce parities; cold and warm tag cache; compressed and uncompressed key objects; a second signing on the same key object after an arbitrary first one",
                  "verify": "key = d*G for any d in [0,N-1] incl. infinity, R = any abstract point incl. infinity, s in [0,2^256), any 32-byte message",
                  "codec": "all 32-byte s for the s >= N rejection (real N); x-only lift on toy fields p in {11,19,23,43} with the full 32-byte input symbolic"},
        "thorough": {"codec": "toy fields: all primes p = 3 mod 4 up to 251"}},
    "outside": ["square roots / curve membership at the real 256-bit field (toy fields instead)", "tagged-hash values (SHA-256 uninterpreted)",
                "cecc.py", "x coordinates >= N (probability 2^-128, no such point can be exhibited)"],
    "stubs": ["abstract prime-order group (symx/field.py) replacing S256Point construction/addition/multiplication/coordinates",
              "SHA-256 uninterpreted on symbolic input; tag prefixes are concrete and hashed for real",
              "bitwise xor of bytes is an uninterpreted function in the LIA back end (same symbol in implementation and specification)"],
    "assumptions": ["prime-order group (C03)", "BIP340 failure case k' = 0 treated as 'both fail'"],
}
MANIFEST = {"technique": "symbolic execution of the real sign_schnorr/verify_schnorr/codec code over an abstract prime-order group, compared with the "
                         "BIP340 step lists run in the same path; GF(N) canonical form + z3 (LIA), toy-field lift with z3 bit-vectors"}


def tagged(tag, msg):
    import hashlib
    th = hashlib.sha256(tag).digest()
    return shims._H("sha256", th + th + msg).digest()


def hash_injective():
    """collision resistance as instances: two distinct SHA-256 applications made on this path have equal outputs only for equal
    inputs (stated assumption; used as a hypothesis of the history obligations, where a memo keyed by a hash value is at stake)"""
    from symx.core import b_and, b_or, b_not, b_cmp, wrapb
    by = {}
    for fname, node in shims.HASH_CALLS:
        lst = by.setdefault(fname, [])
        if node not in lst:
            lst.append(node)
    conds = []
    for nodes in by.values():
        for i, a in enumerate(nodes):
            for b in nodes[i + 1:]:
                if len(a.args) != len(b.args):
                    conds.append(b_not(b_cmp("eq", a, b)))
                else:
                    conds.append(b_or(b_not(b_cmp("eq", a, b)), b_and(*[b_cmp("eq", x, y) for x, y in zip(a.args[3:], b.args[3:])])))
    return wrapb(b_and(*conds)) if conds else True


def xor32(a, b):
    return core.norm(SBytes([x ^ y for x, y in zip(a, b)]))


def to32(x):
    if isinstance(x, int):
        return x.to_bytes(32, "big")
    return x.to_bytes(32, "big")


def from32(b):
    return core.int_from_bytes(b, "big")


# ---------------------------------------------------------------------------------------- O1 sign == BIP340


def spec_sign(e, d, P_pt, msg, aux):
    """BIP340 default signing over the abstract group; returns 64 bytes or raises Fail"""
    F = e.fld
    Px, Ppar = e.grp.coords(d)
    dd = (N - d) if branch(Ppar) else d
    t = xor32(to32(dd), tagged(b"BIP0340/aux", aux))
    pxb = to32(core.wrap(Px))
    rand = tagged(b"BIP0340/nonce", t + pxb + msg)
    k0 = F.reduce(field.lift_si(from32(rand)))
    if branch(F.is_zero_cond(field.lift_si(k0))):
        raise ValueError("k' == 0")
    Rx, Rpar = e.grp.coords(k0)
    k = (N - k0) if branch(Rpar) else k0
    rb = to32(core.wrap(Rx))
    ee = F.reduce(field.lift_si(from32(tagged(b"BIP0340/challenge", rb + pxb + msg))))
    s = F.reduce(field.lift_si(k) + field.lift_si(ee) * field.lift_si(dd))
    return rb + to32(s)


@with_env()
def _sign_path(e, warm, compressed=True, second=False, tweak=None):
    pecc = e.pecc
    phash = loader.load("phash")
    phash.TAG_HASH_CACHE.clear()
    if warm:
        phash.tagged_hash(b"TapTweak", b"\x00")  # history: an earlier call with a different tag
        phash.tagged_hash(b"BIP0340/challenge", b"\x01" * 3)
    d = SI.var("d", 1, N - 1)
    msg = SBytes.sym("msg", 32)
    aux = SBytes.sym("aux", 32)

    def wit(env):
        w = {"d": env["d"], "msg": bytes_env(env, "msg", 32).hex(), "aux": bytes_env(env, "aux", 32).hex(), "warm": warm,
             "compressed": compressed}
        if second or tweak:
            w["first"] = [bytes_env(env, "msg0", 32).hex(), bytes_env(env, "aux0", 32).hex()]
        if tweak:
            w["tweak"] = tweak
            w["root"] = bytes_env(env, "root", 32).hex()
        return w
    pk = pecc.PrivateKey(d, compressed=compressed)
    if tweak:
        # history across two RELATED key objects: a key and the key derived from it by tweaked_key() (taproot output key); one of
        # them signed something earlier (arbitrary message / aux, possibly the same), then the other signs msg / aux
        base = pk
        try:
            derived = base.tweaked_key(SBytes.sym("root", 32))
        except core.Unsupported:
            raise
        except Exception:
            check(True, "tweaked secret 0 (refused by the constructor; probability 2^-256)")
            return "degenerate"
        earlier, pk = (base, derived) if tweak == "base-then-tweaked" else (derived, base)
        try:
            earlier.sign_schnorr(SBytes.sym("msg0", 32), SBytes.sym("aux0", 32))
        except core.Unsupported:
            raise
        except Exception:
            pass
        d = pk.secret
    if second:
        # history on one key object: an earlier signing with other message / aux must not influence this one
        try:
            pk.sign_schnorr(SBytes.sym("msg0", 32), SBytes.sym("aux0", 32))
        except Exception:
            pass
    try:
        sig = pk.sign_schnorr(msg, aux)
        out = sig.serialize()
        ierr = None
    except Exception as ex:
        ierr = type(ex).__name__
    try:
        want = spec_sign(e, d, pk.point, msg, aux)
        serr = None
    except ValueError:
        serr = "fail"
    if ierr or serr:
        check((ierr is not None) == (serr is not None), f"sign_schnorr raised {ierr} where BIP340 signing gives {serr or 'a signature'}", witness=wit)
        return "fail"
    check((len(out) == 64) and (out == want), "sign_schnorr output differs from the BIP340 signature", witness=wit)
    # the returned signature verifies under the x-only key (completeness), through the real parser-free path
    ok = pk.point.verify_schnorr(msg, sig)
    check(bool(ok), "verify_schnorr rejects the signature just produced", witness=wit)
    return "ok"


def ob_sign():
    runs = [sym_run(lambda: _sign_path(False), mode="int", timeout_ms=60000, max_violations=6),
            sym_run(lambda: _sign_path(True), mode="int", timeout_ms=60000, max_violations=6),
            sym_run(lambda: _sign_path(False, compressed=False), mode="int", timeout_ms=60000, max_violations=6),
            sym_run(lambda: _sign_path(False, second=True), mode="int", timeout_ms=60000, max_paths=3000, max_violations=6)]
    m = merge_runs(runs)
    if m["classes"].get("'ok'", 0) < 8 and not m["violations"]:
        m["inconclusive"].append("reachability twin: fewer than 4 parity paths per cache state reached")
    m["sample"] = {"d": "symbolic [1,N-1]", "msg/aux": "32 symbolic bytes", "paths": "key parity x nonce parity"}
    return m


def ob_sign_tweaked(order):
    m = sym_run(lambda: _sign_path(False, tweak=order), mode="int", timeout_ms=60000, max_paths=3000, max_violations=6)
    if "'ok'" not in m["classes"] and not m["violations"]:
        m["inconclusive"].append("reachability twin: no signing path reached")
    m["sample"] = {"history": order, "d, root, msg0, aux0, msg, aux": "symbolic"}
    return m


# BIP340 reference implementation (from the BIP text), on the real curve: used by replays only
def ref_lift_x(x):
    from buidl import pecc
    if x >= P:
        return None
    c = (pow(x, 3, P) + 7) % P
    y = pow(c, (P + 1) // 4, P)
    if pow(y, 2, P) != c:
        return None
    return pecc.S256Point(x, y if y % 2 == 0 else P - y)


def ref_tag(tag, m):
    import hashlib
    th = hashlib.sha256(tag).digest()
    return hashlib.sha256(th + th + m).digest()


def ref_sign(d0, msg, aux):
    from buidl import pecc
    Pp = d0 * pecc.G
    d = d0 if Pp.y.num % 2 == 0 else N - d0
    t = bytes(a ^ b for a, b in zip(d.to_bytes(32, "big"), ref_tag(b"BIP0340/aux", aux)))
    k0 = int.from_bytes(ref_tag(b"BIP0340/nonce", t + Pp.x.num.to_bytes(32, "big") + msg), "big") % N
    if k0 == 0:
        return None
    R = k0 * pecc.G
    k = k0 if R.y.num % 2 == 0 else N - k0
    e = int.from_bytes(ref_tag(b"BIP0340/challenge", R.x.num.to_bytes(32, "big") + Pp.x.num.to_bytes(32, "big") + msg), "big") % N
    return R.x.num.to_bytes(32, "big") + ((k + e * d) % N).to_bytes(32, "big")


def ref_verify(pkx, msg, sig):
    from buidl import pecc
    if len(sig) != 64:
        return False
    Pp = ref_lift_x(pkx)
    r = int.from_bytes(sig[:32], "big")
    s = int.from_bytes(sig[32:], "big")
    if Pp is None or r >= P or s >= N:
        return False
    e = int.from_bytes(ref_tag(b"BIP0340/challenge", sig[:32] + pkx.to_bytes(32, "big") + msg), "big") % N
    R = s * pecc.G + (N - e) * Pp
    if R.x is None or R.y.num % 2 != 0 or R.x.num != r:
        return False
    return True


def replay_sign(w):
    from buidl import pecc, phash
    d = w["d"]
    msg, aux = bytes.fromhex(w["msg"]), bytes.fromhex(w["aux"])
    phash.TAG_HASH_CACHE.clear()
    if w.get("warm"):
        phash.tagged_hash(b"TapTweak", b"\x00")
    pk = pecc.PrivateKey(d, compressed=w.get("compressed", True))
    if w.get("tweak"):
        # d is the model's value of the signing key's secret; rebuild the relation with real hashes from the base key instead
        for db in (d, 1, 2, N - 1):
            base = pecc.PrivateKey(db)
            derived = base.tweaked_key(bytes.fromhex(w["root"]))
            earlier, signer = (base, derived) if w["tweak"] == "base-then-tweaked" else (derived, base)
            for m0, a0 in ((bytes.fromhex(w["first"][0]), bytes.fromhex(w["first"][1])), (msg, aux)):
                try:
                    earlier.sign_schnorr(m0, a0)
                except Exception:
                    pass
                try:
                    got = signer.sign_schnorr(msg, aux).serialize()
                except Exception:
                    got = None
                want = ref_sign(signer.secret, msg, aux)
                if got != want or not ref_verify(signer.point.x.num, msg, got):
                    return {"violated": True, "observed": f"base key {db:#x}, tweaked_key({w['root']}): after the {'base' if earlier is base else 'tweaked'} key signed "
                                                          f"({m0.hex()}, {a0.hex()}), the other key's sign_schnorr({msg.hex()}, {aux.hex()}) = "
                                                          f"{got.hex() if got else None}, BIP340 = {want.hex()}"}
        return {"violated": False, "observed": "related keys sign per BIP340 after each other"}
    if w.get("first"):
        try:
            pk.sign_schnorr(bytes.fromhex(w["first"][0]), bytes.fromhex(w["first"][1]))
        except Exception:
            pass
    try:
        got = pk.sign_schnorr(msg, aux).serialize()
    except Exception as ex:
        got = None
    want = ref_sign(d, msg, aux)
    bad = got != want
    if not bad and got is not None:
        bad = not ref_verify(pk.point.x.num, msg, got)
    if not bad:
        # the model's hash values are uninterpreted: rebuild the witness classes that depend on hash *values* with real hashes --
        # a masked secret t = d' xor H_aux(aux) with leading zero byte(s), found by stepping aux (about 256 trials per zero byte)
        Pp = pk.point
        dd = d if Pp.y.num % 2 == 0 else N - d
        found = 0
        for c in range(200000):
            a2 = c.to_bytes(32, "big")
            t = bytes(x ^ y for x, y in zip(dd.to_bytes(32, "big"), ref_tag(b"BIP0340/aux", a2)))
            if t[0] != 0:
                continue
            found += 1
            try:
                g2 = pecc.PrivateKey(d, compressed=w.get("compressed", True)).sign_schnorr(msg, a2).serialize()
            except Exception:
                g2 = None
            w2 = ref_sign(d, msg, a2)
            if g2 != w2:
                return {"violated": True, "observed": f"d={d:#x} aux={a2.hex()} (masked secret starts with {t[:2].hex()}): sign_schnorr="
                                                      f"{g2.hex() if g2 else None} BIP340={w2.hex() if w2 else None}"}
            if found >= 6 or (found >= 3 and t[1] == 0):
                break
    return {"violated": bad, "observed": f"d={d:#x}: sign_schnorr={got.hex() if got else None} BIP340={want.hex() if want else None}"}


# ---------------------------------------------------------------------------------------- O2 verify == BIP340 verify


class _SSig:
    def __init__(self, r, s):
        self.r = r
        self.s = s


@with_env()
def _verify_path(e, key_inf, r_inf, history=False, other=None):
    F = e.fld
    d = 0 if key_inf else SI.var("d", 1, N - 1)
    rr = 0 if r_inf else SI.var("rr", 1, N - 1)
    s = SI.var("s", 0, N - 1)
    msg = SBytes.sym("msg", 32)
    Ppt = e.point(d)
    Rpt = e.point(rr)
    sigobj = _SSig(Rpt, s)
    first = None
    o = None
    if other:
        del shims.HASH_CALLS[:]
        # an earlier verification of ANY (key, message, R, s) on other objects: module / class level state must not leak.
        # `other` = which argument is known to differ (the identical call is pointless and the same-objects case is `history`)
        e.grp.injective_x = True
        if other == "s-only":
            # same key, message and R (syntactically the same hash inputs), another s
            o = {"d": d, "rr": rr, "s": SI.var("s0", 0, N - 1), "msg": msg}
            core.assume(o["s"] != s)
            try:
                first = bool(e.point(d).verify_schnorr(msg, _SSig(e.point(rr), o["s"])))
            except Exception:
                first = False
        else:
            o = {"d": SI.var("d0", 1, N - 1), "rr": SI.var("rr0", 1, N - 1), "s": SI.var("s0", 0, N - 1), "msg": SBytes.sym("msg0", 32)}
            core.assume({"s": o["s"] != s, "d": o["d"] != d, "rr": o["rr"] != rr}[other])
            try:
                first = bool(e.point(o["d"]).verify_schnorr(o["msg"], _SSig(e.point(o["rr"]), o["s"])))
            except Exception:
                first = False
    if history:
        # the same key and signature objects were first asked about another message: the answer for msg stays BIP340's
        msg0 = SBytes.sym("msg0", 32)
        try:
            first = bool(Ppt.verify_schnorr(msg0, sigobj))
        except Exception:
            first = False

    def wit(env):
        w = {"d": env.get("d", 0), "rr": env.get("rr", 0), "s": env["s"], "msg": bytes_env(env, "msg", 32).hex(),
             "cls": "accept-without-equation"}
        if history:
            w["msg0"] = bytes_env(env, "msg0", 32).hex()
            w["first"] = first
        if other:
            if other == "s-only":
                w["other"] = {"differs": other, "d": env.get("d"), "rr": env.get("rr"), "s": env["s0"], "msg": w["msg"], "first": first,
                              "same": [True, True, False, True]}
            else:
                w["other"] = {"differs": other, "d": env["d0"], "rr": env["rr0"], "s": env["s0"], "msg": bytes_env(env, "msg0", 32).hex(), "first": first,
                              "same": [env["d0"] == env.get("d"), env["rr0"] == env.get("rr"), env["s0"] == env["s"],
                                       bytes_env(env, "msg0", 32) == bytes_env(env, "msg", 32)]}
        return w
    try:
        got = bool(Ppt.verify_schnorr(msg, sigobj))
    except Exception:
        got = False
    # BIP340 verification on the abstract group (P given by its x-only key => the even-y point)
    if key_inf or r_inf:
        want = False
    else:
        Px, Ppar = e.grp.coords(d)
        dd = (N - d) if branch(Ppar) else d
        Rx, Rpar = e.grp.coords(rr)
        ee = F.reduce(field.lift_si(from32(tagged(b"BIP0340/challenge", to32(core.wrap(Rx)) + to32(core.wrap(Px)) + msg))))
        tot = F.reduce(field.lift_si(s) - field.lift_si(ee) * field.lift_si(dd))
        if branch(F.is_zero_cond(field.lift_si(tot))):
            want = False
        else:
            Tx, Tpar = e.grp.coords(tot)
            if branch(Tpar):
                want = False
            else:
                want = bool(core.wrap(Tx) == core.wrap(Rx))
    check((got == want) if not other else core.s_implies(hash_injective(), got == want),
          f"verify_schnorr answers {got} where BIP340 verification answers {want}"
          + (f" (after verifying the same signature for another message answered {first})" if history else "")
          + (f" (after an earlier verification of another tuple answered {first})" if other else ""), witness=wit)
    return (got, want) if not (history or other) else (first, got, want)


def ob_verify():
    runs = [sym_run(lambda: _verify_path(ki, ri), mode="int", timeout_ms=60000) for ki in (False, True) for ri in (False, True)]
    m = merge_runs(runs)
    if "(True, True)" not in m["classes"] or "(False, False)" not in m["classes"]:
        m["inconclusive"].append("reachability twin: accept or reject class missing")
    m["sample"] = {"key": "d*G (d symbolic) or infinity", "R": "rr*G or infinity", "s": "symbolic", "msg": "32 symbolic bytes"}
    return m


def ob_verify_history():
    m = sym_run(lambda: _verify_path(False, False, history=True), mode="int", timeout_ms=60000)
    if "(True, False, False)" not in m["classes"] or "(False, True, True)" not in m["classes"]:
        m["inconclusive"].append("reachability twin: accepted-then-rejected or rejected-then-accepted history missing")
    m["sample"] = {"history": "verify_schnorr(msg0, sig) then verify_schnorr(msg, sig) on the same point and signature objects", "all": "symbolic"}
    return m


def ob_verify_other(differs):
    m = sym_run(lambda: _verify_path(False, False, other=differs), mode="int", timeout_ms=60000, max_violations=6, max_paths=3000)
    if "(True, False, False)" not in m["classes"] and "(False, True, True)" not in m["classes"] and not m["violations"]:
        m["inconclusive"].append("reachability twin: no history with differing answers")
    m["sample"] = {"history": f"verify_schnorr of another tuple (its {differs} differs) on other objects, then the tuple under test", "all": "symbolic"}
    return m


def _replay_verify_other(w):
    """rebuild on the real curve: which arguments of the earlier call coincide with the later one is taken from the model"""
    from buidl import pecc
    o = w["other"]
    same_d, same_r, same_s, same_m = o["same"]
    d = w["d"] or 1
    d0 = d if same_d else ((N - d) if o["d"] == N - d else (o["d"] or 2))
    msg = bytes.fromhex(w["msg"])
    msg0 = msg if same_m else bytes.fromhex(o["msg"])
    if not same_m and msg0 == msg:
        msg0 = bytes([msg[0] ^ 1]) + msg[1:]
    hist = []

    def ask(dk, m, sig):
        pt = pecc.S256Point.parse(pecc.PrivateKey(dk).point.sec())
        try:
            return bool(pt.verify_schnorr(m, pecc.SchnorrSignature.parse(sig))), pt
        except Exception:
            return False, pt

    def alter(sig):
        sv = int.from_bytes(sig[32:], "big")
        return [sig[:32] + ((sv + 1) % N).to_bytes(32, "big"), sig[:32] + ((N - sv) % N).to_bytes(32, "big"), sig[:32] + (1).to_bytes(32, "big")]
    # (a) the earlier call verifies a genuine signature, the later one asks about a tuple that shares what the model shares
    g0 = ref_sign(d0, msg0, b"\x00" * 32)
    later = [g0] if same_s and same_r else (alter(g0) if same_r else [ref_sign(d, msg, b"\x01" * 32)])
    for sig in later:
        a, _ = ask(d0, msg0, g0)
        got, pt = ask(d, msg, sig)
        want = ref_verify(pt.x.num, msg, sig)
        hist.append((a, got, want))
        if got != want:
            return {"violated": True, "observed": f"verify_schnorr(key {d0:#x}, {msg0.hex()}, {g0.hex()}) = {a}; then verify_schnorr(key {d:#x}, {msg.hex()}, {sig.hex()}) = {got}; BIP340 = {want}"}
    # (b) the earlier call rejects an altered signature, the later one asks about the genuine one
    g = ref_sign(d, msg, b"\x00" * 32)
    for bad in alter(g):
        a, _ = ask(d0 if not same_d else d, msg0 if not same_m else msg, bad)
        got, pt = ask(d, msg, g)
        want = ref_verify(pt.x.num, msg, g)
        hist.append((a, got, want))
        if got != want:
            return {"violated": True, "observed": f"an altered signature {bad.hex()} was verified first ({a}); then verify_schnorr(key {d:#x}, {msg.hex()}, {g.hex()}) = {got}; BIP340 = {want}"}
    return {"violated": False, "observed": f"histories agree with BIP340: {hist}"}


def _replay_verify_history(w):
    from buidl import pecc
    d = w["d"] or 1
    msg, msg0 = bytes.fromhex(w["msg"]), bytes.fromhex(w["msg0"])
    if msg == msg0:
        msg = bytes([msg[0] ^ 1]) + msg[1:]
    pk = pecc.PrivateKey(d)
    hist = []
    # accepted first: genuine for msg0, then asked about msg; rejected first: genuine for msg, first offered under msg0
    for (ma, mb) in ((msg0, msg), (msg, msg0), (msg0, msg0)):
        for signed in (ma, mb):
            sig = ref_sign(d, signed, b"\x00" * 32)
            pt = pecc.S256Point.parse(pk.point.sec())
            ss = pecc.SchnorrSignature.parse(sig)
            try:
                a = bool(pt.verify_schnorr(ma, ss))
            except Exception:
                a = False
            try:
                got = bool(pt.verify_schnorr(mb, ss))
            except Exception:
                got = False
            want = ref_verify(pt.x.num, mb, sig)
            hist.append((a, got, want))
            if got != want:
                return {"violated": True, "observed": f"on one point and signature object: verify_schnorr({ma.hex()}) = {a}, then verify_schnorr({mb.hex()}) = {got}; "
                                                      f"BIP340 = {want} (signature {sig.hex()} made for {signed.hex()})"}
    return {"violated": False, "observed": f"histories agree with BIP340: {hist}"}


def replay_verify(w):
    """the abstract X values are uninterpreted; rebuild concrete tuples of the same class on the real curve: a genuine signature
    and its mutations, judged by the BIP340 reference verifier"""
    from buidl import pecc
    if "other" in w:
        return _replay_verify_other(w)
    if "msg0" in w:
        return _replay_verify_history(w)
    if not w["d"]:
        # the key is the point at infinity (what parse_xonly makes of the all-zero x-only key): BIP340 rejects every signature
        # (lift_x(0) fails), in particular (x(sG), s), for which the equation s*G - e*P = R holds trivially
        msg = bytes.fromhex(w["msg"])
        inf = pecc.S256Point.parse_xonly(b"\x00" * 32)
        for k in [w["s"] % N or 1, 1, 2, 3, 4, 5]:
            R = k * pecc.G
            sig = R.x.num.to_bytes(32, "big") + k.to_bytes(32, "big")
            try:
                got = bool(inf.verify_schnorr(msg, pecc.SchnorrSignature.parse(sig)))
            except Exception:
                got = False
            if got:
                return {"violated": True, "observed": f"x-only key 00..00 (point at infinity): verify_schnorr({sig.hex()}) = True; BIP340 rejects (lift_x(0) fails)"}
        return {"violated": False, "observed": "every signature is rejected under the all-zero key"}
    d = w["d"] or 1
    msg = bytes.fromhex(w["msg"])
    pk = pecc.PrivateKey(d)
    good = ref_sign(d, msg, b"\x00" * 32)
    cands = [good, good[:32] + ((int.from_bytes(good[32:], "big") + 1) % N).to_bytes(32, "big"),
             (w["rr"] * pecc.G).xonly() + (w["s"] % N).to_bytes(32, "big")]
    # signatures whose verification equation holds except for one BIP340 condition: odd-y R, negated key, R at infinity
    Pp = pk.point
    dd = d if Pp.y.num % 2 == 0 else N - d
    for k in (w["rr"] or 3, 5, 7, 11):
        R = k * pecc.G
        rb = R.x.num.to_bytes(32, "big")
        e = int.from_bytes(ref_tag(b"BIP0340/challenge", rb + Pp.x.num.to_bytes(32, "big") + msg), "big") % N
        cands.append(rb + ((k + e * dd) % N).to_bytes(32, "big"))          # R' = kG: valid iff kG has even y
        cands.append(rb + ((N - k + e * dd) % N).to_bytes(32, "big"))      # R' = -kG
        cands.append(rb + ((k + e * (N - dd)) % N).to_bytes(32, "big"))    # equation for the odd-y key
        cands.append(rb + ((e * dd) % N).to_bytes(32, "big"))              # R' = infinity
    cands.append(b"\x00" * 32 + good[32:])
    for sig in cands:
        try:
            ss = pecc.SchnorrSignature.parse(sig)
            got = bool(pk.point.verify_schnorr(msg, ss))
        except Exception:
            got = False
        want = ref_verify(pk.point.x.num, msg, sig)
        if got != want:
            return {"violated": True, "observed": f"verify_schnorr({sig.hex()}) = {got}, BIP340 = {want}"}
    return {"violated": False, "observed": "no disagreement on the reconstructed tuples"}


# ---------------------------------------------------------------------------------------- O3 codec and lift


def _s_range_path():
    """SchnorrSignature refuses s >= N for every 32-byte s (R parse stubbed: it is the lift, checked on toy fields)"""
    pecc = loader.load("pecc")
    sb = SBytes.sym("s", 32)
    marker = object()
    saved = pecc.S256Point.parse
    pecc.S256Point.parse = classmethod(lambda cls, b: marker)
    try:
        try:
            sig = pecc.SchnorrSignature.parse(b"\x11" * 32 + sb)
            ok = True
        except ValueError:
            ok = False
    finally:
        pecc.S256Point.parse = saved
    sv = from32(sb)
    check(ok == bool(sv < N), "SchnorrSignature.parse accepts s exactly when s < N", witness=lambda env: {"s": bytes_env(env, "s", 32).hex()})
    if ok:
        check(sig.s == sv, "parsed s differs", witness=lambda env: {"s": bytes_env(env, "s", 32).hex()})
    return ok


def ob_s_range():
    r = sym_run(_s_range_path, expect_classes=[True, False])
    r["sample"] = {"s": "32 symbolic bytes"}
    return r


def replay_s_range(w):
    from buidl import pecc
    sb = bytes.fromhex(w["s"])
    G = pecc.G
    try:
        sig = pecc.SchnorrSignature.parse(G.xonly() + sb)
        ok = True
    except ValueError:
        ok = False
    sv = int.from_bytes(sb, "big")
    return {"violated": ok != (sv < N) or (ok and sig.s != sv), "observed": f"s={sv:#x} accepted={ok}"}


def _lift_path(p):
    """parse_xonly on the toy field F_p (module constant P re-bound; code unchanged): full 32-byte input symbolic"""
    pecc = loader.load("pecc")
    saved = pecc.P
    pecc.P = p
    try:
        xb = SBytes.sym("x", 32)
        n = from32(xb)
        wit = lambda env: {"p": p, "x": bytes_env(env, "x", 32).hex()}  # noqa
        try:
            pt = pecc._RealS256Point.parse_xonly(xb) if hasattr(pecc, "_RealS256Point") else pecc.S256Point.parse_xonly(xb)
            acc = True
        except ValueError:
            acc = False
        if acc and pt.x is None:
            check(n == 0, "infinity returned for a non-zero x", witness=wit)
            return "inf"
        # specification: lift_x succeeds iff n < p and n^3 + 7 is a square mod p
        if not (n < p):
            check(not acc, "x >= p accepted by the x-only lift", witness=wit)
            return "ge-p"
        nn = core.concretize(n)  # n < p: at most p values, each a path
        c = (nn ** 3 + 7) % p
        roots = [y for y in range(p) if y * y % p == c]
        if not roots:
            check(not acc, "x that is not the abscissa of a curve point accepted", witness=wit)
            return "nonresidue"
        check(acc, "x of a curve point rejected", witness=wit)
        if acc:
            check(s_and(pt.x.num == nn, s_or(*[pt.y.num == y for y in roots]), (pt.y.num % 2) == 0),
                  "lifted point is not the even-y point with that x", witness=wit)
            back = pt.xonly()
            check(back == xb, "xonly(parse_xonly(x)) != x", witness=wit)
        return "ok"
    finally:
        pecc.P = saved


def ob_lift(primes):
    runs = [sym_run(lambda: _lift_path(p), timeout_ms=30000) for p in primes]
    m = merge_runs(runs)
    m["sample"] = {"toy fields": list(primes), "x": "32 symbolic bytes"}
    return m


def replay_lift(w):
    from buidl import pecc
    p = w["p"]
    xb = bytes.fromhex(w["x"])
    n = int.from_bytes(xb, "big")
    saved = pecc.P
    pecc.P = p
    try:
        try:
            pt = pecc.S256Point.parse_xonly(xb)
            acc = True
        except ValueError:
            acc = False
        if acc and pt.x is None:
            return {"violated": n != 0, "observed": "infinity"}
        c = (n ** 3 + 7) % p
        roots = [y for y in range(p) if y * y % p == c] if n < p else []
        want = bool(roots)
        bad = acc != want
        if acc and want:
            bad = not (pt.x.num == n and pt.y.num in roots and pt.y.num % 2 == 0 and pt.xonly() == xb)
        return {"violated": bad, "observed": f"F_{p}: x={n} accepted={acc} expected={want}"}
    finally:
        pecc.P = saved


def ob_constants():
    return conc_run(lambda: (seven_is_nonresidue(), "7 is a quadratic non-residue mod P: no curve point has x = 0"), "x = 0 is not on secp256k1")


def obligations(tier):
    q = tier == "quick"
    primes = [11, 19, 23, 43] if q else [p for p in range(11, 252) if p % 4 == 3 and all(p % k for k in range(2, int(p ** 0.5) + 1))]
    obs = [Ob("O0-constants", ob_constants), Ob("O1-sign-bip340", ob_sign, replay="sign"), Ob("O2-verify-bip340", ob_verify, replay="verify"), Ob("O2-verify-history", ob_verify_history, replay="verify"),
           Ob("O2-verify-history-other", ob_verify_other, {"differs": "s-only"}, replay="verify", budget_s=900),
           Ob("O2-verify-history-other", ob_verify_other, {"differs": "s"}, replay="verify", budget_s=900),
           Ob("O2-verify-history-other", ob_verify_other, {"differs": "d"}, replay="verify", budget_s=900),
           Ob("O2-verify-history-other", ob_verify_other, {"differs": "rr"}, replay="verify", budget_s=900),
           Ob("O1-sign-related-keys", ob_sign_tweaked, {"order": "base-then-tweaked"}, replay="sign", budget_s=900),
           Ob("O1-sign-related-keys", ob_sign_tweaked, {"order": "tweaked-then-base"}, replay="sign", budget_s=900),
           Ob("O3-s-range", ob_s_range, replay="s_range")]
    for i in range(0, len(primes), 4):
        obs.append(Ob("O3-lift-x", ob_lift, {"primes": tuple(primes[i:i + 4])}, replay="lift", budget_s=1200))
    return obs
