"""C15 — SLIP39 shares (DESIGN.md section 3, C15).

The real functions of buidl/shamir.py run on symbolic share bytes, header fields, word indices, passphrase bytes.

O1  the real ShareSet.exp / ShareSet.log2 tables (list subclass whose symbolic index is a table select) against carry-less
    multiplication modulo x^8+x^4+x^3+x+1 for symbolic a, b; exp/log2 inverse.
O2  per-constant lemma on the real tables (for every L in 0..254, all y: `exp[(log2[y] + L) % 255] if y > 0 else 0` equals
    GF(2^8) multiplication of y by exp[L]); with it the real split_secret / interpolate / recover_secret run on symbolic
    secrets and random bytes (all byte lanes symbolic at once) and z3 decides that the shares are the evaluations of the
    SLIP39 polynomial (secret at 255, digest share at 254, random shares at 0..k-3) and that every subset of >= k shares
    gives the secret back and passes the digest check.
O3  ShareSet.__init__ / recover with symbolic header fields: what is accepted is a consistent set of enough distinct shares.
    O3-digest-enforced: k shares with consistent headers and arbitrary values: recover() returns only when the digest equation holds.
O4  Share.mnemonic / Share.parse bit packing through a handle word list, RS1024 (real rs1024_polymod, if-converted):
    one-step XOR-linearity from an arbitrary state, per-position syndrome maps, every <= 3-word error pattern detected.
    O4-parse-detect: the real Share.parse on every well-formed share (all header / value words symbolic) with symbolic
    substitutions at up to three word positions: it returns only for the unchanged share (whatever customization strings / target
    values the parser compares against enter the decision).
O5  decrypt(encrypt(x)) == x with PBKDF2 uninterpreted.
O6  generate_shares -> recover_mnemonic wiring with the BIP39 codec and the checksum polynomial as seams.

Replays use the native buidl package, real hashlib / hmac.
"""
import ast
import hmac as _hmac
import itertools
import os
import random as _random

from symx import core, loader, shims
from symx.core import SI, SB, SBytes, check, s_and, s_or, s_not, s_ite, s_implies, norm, assume, bytes_env, Out, wrap, wrapb, lift
from vlib.run import Ob, sym_run, merge_runs, conc_run

PROPERTY = "C15"


def _untraced(fn):
    """the runner profiles the first path of every exploration (to list the /repo functions that ran).  Lowering and solving inside
    check() / assume() call no /repo function but make ~10^6 engine-internal calls; with the profile hook on, each of them costs a
    Python-level callback.  The hook is suspended for the duration of the call and restored afterwards (evidence unaffected)."""
    import functools
    import sys as _sys

    @functools.wraps(fn)
    def w(*a, **k):
        prof = _sys.getprofile()
        if prof is None:
            return fn(*a, **k)
        _sys.setprofile(None)
        try:
            return fn(*a, **k)
        finally:
            _sys.setprofile(prof)
    return w


check = _untraced(check)
assume = _untraced(assume)

META = {
    "bounds": {
        "quick": {
            "tables": "all a, b in [1,255] (both symbolic, one query per quarter of the a range); exp/log2 inverse for all a in [1,255], i in [0,254]",
            "lemma": "every constant L in 0..254 x every byte y",
            "split/recover": "secrets of 16 bytes: (k,n) in {(1,1),(2,2),(2,3),(3,3),(3,5)}; 32 bytes: {(1,1),(2,3),(3,3)}; every secret byte and "
                             "every random byte symbolic (all lanes at once); every subset of >= k of the n shares",
            "refusal": "0..5 shares; id, exponent, group threshold / count, member index / threshold and value of every share symbolic "
                       "over their whole field range; group index symbolic for one share per shape (others fixed by the shape); share "
                       "lengths 128/256 (also mixed)",
            "rs1024": "one step from every 30-bit state; left fold for fully symbolic prefixes of 0..2 symbols, affinity 0..1; per word "
                      "position of 20- and 33-word shares: syndrome map of a single symbolic error on the real function and rejection of "
                      "every single-word substitution by the real rs1024_verify_checksum; 2- and 3-word errors: 16 sampled position "
                      "pairs and 16 sampled position triples per share length, all error symbols symbolic",
            "parse under corruption": "20- and 33-word shares: every well-formed base share (17 / 30 header and value words symbolic, padding "
                                      "zero, group threshold <= count, checksum words by the reference polynomial) x 24 position triples per "
                                      "length (checksum words, header words, bursts, mixed; the rest sampled) x every value of the three "
                                      "10-bit differences (sub-patterns, i.e. 1- and 2-word substitutions on the triple, included): the real "
                                      "Share.parse returns only when all differences are 0",
            "codec": "Share.mnemonic / Share.parse for 128- and 256-bit shares with every header field and the value symbolic; every "
                     "sequence of 20 / 33 list words (full words, four-letter prefixes, alternating) accepted exactly when checksum, "
                     "padding and threshold <= count hold, and re-encoded identically; one unknown word at positions 0, 4, last",
            "digest enforced": "k = 2, 3 shares with consistent headers and arbitrary symbolic values (16 bytes; 32 bytes in the thorough tier; not produced by a split), "
                               "at group level and at member level: recover() returns only on paths where HMAC(D[4:], S)[:4] == D[:4] for the "
                               "values interpolated at 254 / 255",
            "feistel": "payload 16 / 32 symbolic bytes, passphrase of 0, 1, 2 (short) and 6, 40 (long, capped at 64 paths / 90 s per length) "
                       "symbolic bytes over all 256 values, identifier symbolic (15 bits), exponent symbolic in 0..2; both directions",
            "wiring": "generate_shares -> recover_mnemonic: 1-of-1 and 2-of-3 (every subset of >= 2 shares), 16-byte secret, symbolic "
                      "secret / passphrase (0 and 3 bytes) / identifier / random bytes, exponent 0 and 1"},
        "thorough": {
            "tables": "same", "lemma": "same",
            "split/recover": "16- and 32-byte secrets: every k <= n <= 5 with every subset of >= k shares; (k,k) for k = 6..16; "
                             "(1,16),(2,16),(5,16),(9,16),(15,16),(2,8),(7,10),(13,15) with 12 sampled subsets each (sampled - the first k, "
                             "the last k and all n shares always included)",
            "refusal": "additionally two shares with both group indices symbolic, three shares with two symbolic group indices + one fixed, four with one symbolic, six-share shapes "
                       "(three symbolic group indices exceed the 60000-path budget)",
            "rs1024": "left fold for prefixes of 0..3 symbols (affinity 0..2); every position triple of 20-word (1140) and 33-word (5456) shares with three symbolic "
                      "error symbols (each triple covers its sub-patterns, hence every 1-, 2- and 3-word error)",
            "parse under corruption": "every position triple of 20-word (1140) and 33-word (5456) shares (about 1.2 s per triple)",
            "digest enforced": "additionally k = 4, 5, more x-coordinate sets, 3 shares against threshold 2",
            "codec": "same plus the all-prefix form", "feistel": "passphrase lengths 0,1,2 and 6,13,40,100 (capped)",
            "wiring": "(1,1),(1,3),(2,2),(2,3),(3,5),(5,5),(2,8) over 16/32-byte secrets, exponents 0..2, sampled subsets for n >= 5"}},
    "outside": [
        "'fewer than k shares never return a secret' is decided structurally (O3: what recover() accepts is a consistent set with at "
        "least `threshold` distinct groups / members, the digest check being assumed to pass whenever it is reached); that k-1 shares "
        "carry no information and that a digest coincidence does not occur is cryptographic and not claimed",
        "'shares of different splits cannot be mixed' = differing identifier / exponent / thresholds / counts / lengths are refused; two "
        "splits that happen to share all of these are only told apart by the 4-byte digest (cryptographic, not claimed)",
        "judgement: split_secret(secret, 1, n) hands out ONE share (index 0, the secret itself) for every n, so generate_shares(m, 1, n) "
        "returns a single mnemonic that says '1 of n' (SLIP39 hands out n copies). The property quantifies over the shares that exist: "
        "every one of them recovers the mnemonic. Observed, not flagged",
        "judgement: O2 demands the SLIP39 polynomial (secret at x=255, digest share HMAC-SHA256(key=R, msg=secret)[:4] || R at x=254, "
        "random shares at x=0..k-3), not only that recover inverts split (the anchors of the property name these coordinates)",
        "share lengths other than 128 / 256 bits (20 / 33 words).  Observed, not flagged: for lengths that are multiples of 10 bits "
        "(e.g. 160) Share.mnemonic() pads with a whole extra zero word (padding = 10 - bits % 10 = 10): 24 words where SLIP39 has 23; "
        "Share.parse reads that form back, so the library is self-consistent there",
        "two-level (group / member) sharing: generate_shares only produces single-member groups; the group / member control flow of "
        "recover() is covered structurally in O3, the member-level interpolation is the same recover_secret as in O2",
        "RS1024 beyond 3 wrong words; insertion / deletion of words (a different word count changes the share length and is a different "
        "parse); the GF(1024) distance argument itself is replaced by one z3-verified linear-algebra certificate per position set",
        "RS1024 affinity at full length rests on: (i) XOR-linearity of one loop step from an arbitrary state (z3, real function), (ii) the "
        "function being a left fold of that step (read off the source; z3-checked for prefixes of 0..3 symbols), (iii) direct symbolic "
        "runs of the real function with one symbolic word at each position of 20- and 33-word shares",
        "judgement: 'any corruption of up to three words is rejected by the checksum' is demanded of Share.parse as a whole (O4-parse-detect): "
        "a substituted share must not be returned; a refusal by the padding / threshold checks after the checksum counts as rejected. "
        "The base ranges over the well-formed shares of the SLIP39 layout with customization string b'shamir' (what Share.mnemonic / "
        "generate_shares produce, O4-encode); substituted words are list words written in full (a non-list word is O4-decode's unknown word)",
        "Unicode normalisation of passphrases; passphrases are bytes", "exponents above 2 in O5/O6 (the iteration count is a PBKDF2 argument only)",
        "BIP39 encoding / decoding of the master secret (C14); in O6 it is a seam"],
    "stubs": [
        "source-level seams in sbuidl.shamir (loader.PATCHES): `a if c else b` in rs1024_polymod / interpolate becomes a non-forking ite; "
        "set comprehensions in ShareSet.__init__ / recover become a list-backed set with symbolic equality (hashing a symbolic field "
        "would enumerate it). Agreement of the rewritten functions with the native ones is re-checked on random vectors in every worker",
        "ShareSet.exp / ShareSet.log2 wrapped in a list subclass: a symbolic index is a table select over exactly the real entries",
        "O2 / O6: the expression `exp[(log2[y] + L) % 255] if y > 0 else 0` (concrete L, symbolic y) is replaced by the xor/shift form of "
        "y * exp[L % 255]; justified for every L by O2-lemma on the real tables",
        "O2 / O6: inside recover_secret, the result of interpolate is replaced by the original bytes once z3 has proved them equal "
        "(proved-equal substitution), so that the HMAC of the digest check is the same hash-consed symbol as in split_secret",
        "HMAC-SHA256 and PBKDF2-HMAC-SHA256 as hash-consed uninterpreted functions; secrets.randbits returns arbitrary symbolic values",
        "O3: recover_secret returns an arbitrary secret of the share length (the digest check is taken to pass whenever reached) and "
        "decrypt is the identity; Share.__repr__ (only used in error messages) is a constant",
        "O4 codec / O6: SLIP39 word list replaced by handle tables (token <-> symbolic index) behind the real WordList methods (facts "
        "checked concretely in O0); rs1024_polymod(values) for more than three values composed as Z(values[:-3]) ^ pack(values[-3:]) with "
        "Z an uninterpreted function of the prefix (lemmas O4-rs-step / O4-rs-fold on the real function)",
        "O4-rs-detect: the per-position syndrome columns are computed by concrete runs of the current rs1024_polymod (their agreement "
        "with the symbolic run of the real function is O4-rs-positions); the GF(2) left inverse used as a certificate is computed by "
        "the harness and only its product with the syndrome map is trusted to z3",
        "O4-parse-detect: the real rs1024_polymod runs (if-converted) on the symbolic words; its result is rewritten by symx/anf.py (DAG "
        "pass, strict: anything not XOR-affine is left as it is) into constant ^ A*e; the syndrome A*e is let-bound to a fresh 30-bit "
        "variable and the equation N*(A*e) == e (N: left inverse by harness Gaussian elimination) is proved by z3 before it is kept on "
        "the path; the rewritten value is compared with the native function on random words in every worker",
        "O6: mnemonic_to_bytes / bytes_to_mnemonic are seams (arbitrary secret in, token out)",
        "a witness found on uninterpreted hashes is reported only when it reproduces with the real hashlib / hmac (replay)"],
    "assumptions": [
        "SLIP39 as transcribed in checks/c15.py spec_* functions (field polynomial 0x11B, Lagrange interpolation, share layout with a "
        "15-bit identifier and 5-bit exponent as in the library and its test vectors, RS1024 generator constants, 4-round Feistel)",
        "rs1024_polymod is a left fold over its argument with the single state variable chk (read off the source)",
        "byte lanes: O2 runs all lanes symbolically at once, so lane independence is not assumed"],
}

MANIFEST = {"technique": "symbolic execution of the real SLIP39 functions (GF(256) tables as table selects, split / interpolate / recover on "
                         "symbolic secrets and random bytes, ShareSet checks on symbolic header fields, share codec on symbolic word "
                         "indices through a handle word list, RS1024 polymod if-converted, Feistel with PBKDF2 uninterpreted); z3 decides "
                         "every assertion (per-constant GF lemmas, GF(2)-linear identities, linear-algebra certificates for error detection)"}

POLY = 0x11B          # SLIP39: GF(256) = GF(2)[x] / (x^8 + x^4 + x^3 + x + 1)
DIGEST_X, SECRET_X = 254, 255
CS = b"shamir"


# =============================================================================================== specification (plain ints and proxies)

def spec_clmul_mod(a, b):
    """carry-less product of two bytes reduced modulo POLY; a, b ints or proxies"""
    r = 0
    for i in range(8):
        bit = (b >> i) & 1
        if isinstance(bit, int):
            if bit:
                r = r ^ (a << i)
        else:
            r = r ^ s_ite(bit == 1, a << i, 0)
    for i in range(14, 7, -1):
        top = (r >> i) & 1
        if isinstance(top, int):
            if top:
                r = r ^ (POLY << (i - 8))
        else:
            r = r ^ s_ite(top == 1, POLY << (i - 8), 0)
    return r


def gf_mul_const(y, c):
    """y * c in GF(256) for a concrete c: shift-and-add over the bits of c with x-time steps (x * v = (v << 1) reduced by POLY).
    Only xor / and / shift of y: a GF(2)-linear form that z3's bit-vector rewriter normalises (no ite, no table)"""
    if isinstance(y, int):
        return spec_clmul_mod(y, c)
    r = 0
    x = y
    for i in range(8):
        if (c >> i) & 1:
            r = r ^ x
        if (c >> (i + 1)) == 0:
            break
        hi = (x >> 7) & 1
        x = ((x << 1) & 0xFF)
        for j in range(8):
            if (POLY >> j) & 1:
                x = x ^ (hi << j)
    return r


def spec_inv(a):
    for b in range(1, 256):
        if spec_clmul_mod(a, b) == 1:
            return b
    raise ZeroDivisionError("0 has no inverse")


def spec_lagrange_coeffs(x, xs):
    """c_i = prod_{j != i} (x - x_j) / (x_i - x_j) in GF(256) (subtraction is xor)"""
    out = []
    for i, xi in enumerate(xs):
        num, den = 1, 1
        for j, xj in enumerate(xs):
            if j != i:
                num = spec_clmul_mod(num, x ^ xj)
                den = spec_clmul_mod(den, xi ^ xj)
        out.append(spec_clmul_mod(num, spec_inv(den)))
    return out


@_untraced
def spec_interpolate(x, points):
    """points: [(x_i, bytes-like)]; value at x of the polynomial of degree < len(points) through them, byte lane by byte lane"""
    xs = [p[0] for p in points]
    cs = spec_lagrange_coeffs(x, xs)
    n = len(points[0][1])
    out = []
    for lane in range(n):
        v = 0
        for c, (_, data) in zip(cs, points):
            v = v ^ gf_mul_const(data[lane], c)
        out.append(v)
    return out


@_untraced
def spec_split(secret, k, n, rnd, hmac_fn):
    """SLIP39 SplitSecret for 2 <= k <= n: rnd = the random bytes in the order the library draws them (len(secret)-4 for the
    digest share, then len(secret) per random share); returns ([(index, byte list)], digest share)"""
    nb = len(secret)
    R = rnd[:nb - 4]
    D = list(hmac_fn(R, secret))[:4]
    dshare = D + list(R)
    base = [(i, list(rnd[nb - 4 + i * nb: nb - 4 + (i + 1) * nb])) for i in range(k - 2)]
    pts = base + [(DIGEST_X, dshare), (SECRET_X, list(secret))]
    shares = list(base)
    for i in range(k - 2, n):
        shares.append((i, spec_interpolate(i, pts)))
    return shares, dshare


def _real_hmac(key, msg):
    return _hmac.new(bytes(key), bytes(msg), "sha256").digest()


def _sym_hmac(key, msg):
    key = key if isinstance(key, (bytes, SBytes)) else norm(SBytes(list(key)))
    msg = msg if isinstance(msg, (bytes, SBytes)) else norm(SBytes(list(msg)))
    return shims._HMAC(key, msg, "sha256").digest()


def spec_rs1024_polymod(values):
    """SLIP39 checksum polynomial with bit tests (concrete values only)"""
    gen = (0xE0E040, 0x1C1C080, 0x3838100, 0x7070200, 0xE0E0009, 0x1C0C2412, 0x38086C24, 0x3090FC48, 0x21B1F890, 0x3F3F120)
    chk = 1
    for v in values:
        b = chk >> 20
        chk = ((chk & 0xFFFFF) << 10) ^ v
        for i in range(10):
            if (b >> i) & 1:
                chk ^= gen[i]
    return chk


def spec_checksum(data):
    pm = spec_rs1024_polymod(list(CS) + list(data) + [0, 0, 0]) ^ 1
    return [(pm >> 10 * (2 - i)) & 1023 for i in range(3)]


@_untraced
def spec_pack(f, value, nbits):
    """SLIP39 share layout (the library's reading: 15-bit id, 5-bit exponent): word indices without the checksum"""
    pad = 10 - nbits % 10
    head = (f["id"] << 25) | (f["exponent"] << 20) | (f["gi"] << 16) | ((f["gt"] - 1) << 12) | ((f["gc"] - 1) << 8) | (f["mi"] << 4) | (f["mt"] - 1)
    allb = (head << (pad + nbits)) | value
    nw = 4 + (pad + nbits) // 10
    return [(allb >> (10 * (nw - 1 - i))) & 1023 for i in range(nw)]


# =============================================================================================== the shimmed module and its seams

class SymTable(list):
    """the real exp / log2 list; a symbolic index is a table select on exactly these entries"""

    def __getitem__(self, k):
        if isinstance(k, SI):
            n = k.n
            if n.lo < 0 or n.hi >= len(self):
                if bool(s_or(k < 0, k >= len(self))):
                    raise IndexError("list index out of range")
                n = core.mknode("and", (n, core.const(511)), 0, len(self) - 1)
            return wrap(core.n_sel(tuple(self), n))
        return list.__getitem__(self, k)


GF_REWRITE = [False]   # replace `exp[(log2[y] + L) % 255] if y > 0 else 0` by gf_mul_const(y, exp[L % 255]) (justified by O2-lemma)
USED_L = set()


def _match_mulconst(cn, an, S):
    """cn: bool node of `y > 0`; an: int node of exp[(log2[y] + L) % 255].  -> (y node, L) or None"""
    if cn.op != "lt" or not core.is_const(cn.args[0]) or cn.args[0].args[0] != 0:
        return None
    y = cn.args[1]
    if an.op != "sel" or an.args[0] != tuple(S.exp):
        return None
    idx, L = an.args[1], 0
    if idx.op == "mod" and idx.args[1] == 255:
        idx = idx.args[0]
    if idx.op == "add" and core.is_const(idx.args[1]):
        L = idx.args[1].args[0]
        idx = idx.args[0]
    if idx.op == "sel" and idx.args[0] == tuple(S.log2) and idx.args[1] is y and 0 <= L:
        return y, L
    return None


def _bit_test(c):
    """truth value of the int c.  For c = (x >> k) & 1 with x >= 0 the test is written on x at its full width
    ((x | ~(1 << k)) == all ones) so that x is lowered at one width only (the engine lowers on demand at minimal widths; a
    30-bit state tested bit by bit would otherwise be built at ten different widths per loop iteration)"""
    n = c.n
    if n.op == "and" and core.is_const(n.args[1]) and n.args[1].args[0] == 1:
        x, k = n.args[0], 0
        if x.op == "shr":
            x, k = x.args[0], x.args[1]
        if x.lo >= 0 and k < x.U:
            full = (1 << x.U) - 1
            return wrapb(core.b_cmp("eq", core.n_bit("or", x, core.const(full ^ (1 << k))), core.const(full)))
    return c != 0


@_untraced
def sx_ite(c, a, b):
    """conditional expression without a fork (the rewritten `a if c else b` of rs1024_polymod / interpolate)"""
    if isinstance(c, SI):
        c = _bit_test(c)
    if isinstance(c, SB):
        if GF_REWRITE[0] and isinstance(a, SI) and isinstance(b, int) and b == 0:
            m = _match_mulconst(c.n, a.n, _STATE["S"])
            if m is not None:
                y, L = m
                USED_L.add(L % 255)
                return gf_mul_const(wrap(y), list.__getitem__(_STATE["S"].exp, L % 255))
        return s_ite(c, a, b)
    return a if c else b


class SymSet:
    """stands for the set comprehensions of ShareSet.__init__ / recover: elements are compared with == (a symbolic comparison
    forks) instead of being hashed (hashing a symbolic int would enumerate its values)"""

    def __init__(self, it=()):
        self.items = []
        for x in it:
            if not any(bool(x == y) for y in self.items):
                self.items.append(x)

    def __len__(self):
        return len(self.items)

    def __iter__(self):
        return iter(list(self.items))

    def pop(self):
        if not self.items:
            raise KeyError("pop from an empty set")
        return self.items.pop()

    def __repr__(self):
        return "{...}"

    def __format__(self, spec):
        return "{...}"


class _Seams(ast.NodeTransformer):
    """`a if c else b` inside rs1024_polymod / interpolate -> __sx_ite__(c, a, b); {f(s) for s in shares} -> __sx_set__(generator)"""

    def __init__(self):
        self.fn = []

    def visit_FunctionDef(self, node):
        self.fn.append(node.name)
        self.generic_visit(node)
        self.fn.pop()
        return node

    def visit_IfExp(self, node):
        self.generic_visit(node)
        if self.fn and self.fn[-1] in ("rs1024_polymod", "interpolate"):
            return ast.copy_location(ast.Call(func=ast.Name(id="__sx_ite__", ctx=ast.Load()), args=[node.test, node.body, node.orelse],
                                              keywords=[]), node)
        return node

    def visit_SetComp(self, node):
        self.generic_visit(node)
        gen = ast.GeneratorExp(elt=node.elt, generators=node.generators)
        return ast.copy_location(ast.Call(func=ast.Name(id="__sx_set__", ctx=ast.Load()), args=[gen], keywords=[]), node)


loader.PATCHES["sbuidl.shamir"] = lambda tree: _Seams().visit(tree)

_STATE = {}


def mods():
    """the shimmed shamir module with the seams installed (once per process); agreement of the rewritten functions with the
    native ones is re-checked on random concrete vectors here"""
    if "sh" not in _STATE:
        sh = loader.load("shamir")
        sh.__dict__["__sx_ite__"] = sx_ite
        sh.__dict__["__sx_set__"] = SymSet
        S = sh.ShareSet
        S.exp = SymTable(S.exp)
        S.log2 = SymTable(S.log2)
        _STATE["sh"], _STATE["S"] = sh, S
        _STATE["real_slip39"] = sh.SLIP39
        _STATE["real_polymod"] = sh.rs1024_polymod
        sh.Share.__repr__ = lambda self: "<share>"   # only used inside error messages (it would render the mnemonic of symbolic fields)
        _STATE["real_interpolate"] = S.__dict__["interpolate"]
        _STATE["real_recover_secret"] = S.__dict__["recover_secret"]
        _STATE["real_split_secret"] = S.__dict__["split_secret"]
        _STATE["real_m2b"], _STATE["real_b2m"] = sh.mnemonic_to_bytes, sh.bytes_to_mnemonic
        _STATE["real_decrypt"] = S.__dict__["decrypt"]
        nat = loader.native("shamir")
        rng = _random.Random(15)
        for _ in range(60):
            v = [rng.randrange(1024) for _ in range(rng.randrange(0, 45))]
            if sh.rs1024_polymod(list(v)) != nat.rs1024_polymod(list(v)):
                raise RuntimeError("rewritten rs1024_polymod disagrees with the native function")
        for _ in range(40):
            m = rng.randrange(1, 7)
            xs = rng.sample(range(16), m)
            data = [(x, bytes(rng.choice([0, rng.randrange(256)]) for _ in range(5))) for x in xs]
            x = rng.choice([254, 255, 16 + rng.randrange(100)])
            if S.interpolate(x, list(data)) != nat.ShareSet.interpolate(x, list(data)):
                raise RuntimeError("rewritten interpolate disagrees with the native function")
        if list(S.exp) != list(nat.ShareSet.exp) or list(S.log2) != list(nat.ShareSet.log2):
            raise RuntimeError("tables differ from the native ones")
    return _STATE["sh"], _STATE["S"]


def _repo():
    return os.environ.get("VERIF_REPO", "/repo")


def _with_mods(fn):
    """load / patch / self-check the modules before the (profiled) exploration starts"""
    import functools

    @functools.wraps(fn)
    def w(*a, **k):
        mods()
        loader.native("shamir")
        return fn(*a, **k)
    return w


# =============================================================================================== O1 GF(256) tables

def _tables_mul_path(lo, hi):
    sh, S = mods()
    GF_REWRITE[0] = False
    a = SI.var("a", lo, hi)
    b = SI.var("b", 1, 255)
    wit = lambda env: {"kind": "mul", "a": env["a"], "b": env["b"]}  # noqa
    got = S.exp[(S.log2[a] + S.log2[b]) % 255]
    check(got == spec_clmul_mod(a, b), "exp[(log2[a] + log2[b]) % 255] is not the product of a and b modulo x^8+x^4+x^3+x+1", witness=wit,
          fresh=True, timeout_ms=200000)
    return Out("ok", got)


def _tables_inverse_path():
    sh, S = mods()
    GF_REWRITE[0] = False
    a = SI.var("a", 1, 255)
    i = SI.var("i", 0, 254)
    wit = lambda env: {"kind": "inv", "a": env["a"], "i": env["i"]}  # noqa
    check(len(S.exp) == 255 and len(S.log2) == 256, "table sizes", witness=wit)
    check(S.exp[S.log2[a]] == a, "exp[log2[a]] != a for a non-zero a", witness=wit, fresh=True, timeout_ms=100000)
    check(S.log2[S.exp[i]] == i, "log2[exp[i]] != i", witness=wit, fresh=True, timeout_ms=100000)
    check(S.exp[i] != 0, "exp[i] == 0", witness=wit, fresh=True)
    check(S.log2[0] == 0, "log2[0] is used as 0 by interpolate (i == j terms of the denominator)", witness=wit)
    return "ok"


@_with_mods
def ob_tables_mul(lo, hi):
    nat = loader.native("shamir").ShareSet
    r = sym_run(lambda: _tables_mul_path(lo, hi), expect_classes=["ok"], timeout_ms=200000,
                gen_env=lambda rng: {"a": rng.randrange(lo, hi + 1), "b": rng.randrange(1, 256)},
                native=lambda env: nat.exp[(nat.log2[env["a"]] + nat.log2[env["b"]]) % 255], n_val=20)
    r["sample"] = {"a": f"symbolic in [{lo},{hi}]", "b": "symbolic in [1,255]"}
    return r


@_with_mods
def ob_tables_inverse():
    r = sym_run(_tables_inverse_path, expect_classes=["ok"], timeout_ms=100000)
    r["sample"] = {"a": "symbolic in [1,255]", "i": "symbolic in [0,254]"}
    return r


def replay_tables(w):
    from buidl.shamir import ShareSet as S
    if w["kind"] == "mul":
        a, b = w["a"], w["b"]
        got = S.exp[(S.log2[a] + S.log2[b]) % 255]
        want = spec_clmul_mod(a, b)
        return {"violated": got != want, "observed": f"exp[(log2[{a}] + log2[{b}]) % 255] = {got}; {a}*{b} in GF(2^8)/0x11B = {want}"}
    if w["kind"] == "lemma":
        y, L = w["y"], w["L"]
        got = S.exp[(S.log2[y] + L) % 255] if y > 0 else 0
        want = spec_clmul_mod(y, S.exp[L % 255])
        return {"violated": got != want, "observed": f"y={y} L={L}: table route {got}, y*exp[L] = {want}"}
    a, i = w["a"], w["i"]
    bad = len(S.exp) != 255 or len(S.log2) != 256 or S.exp[S.log2[a]] != a or S.log2[S.exp[i]] != i or S.exp[i] == 0 or S.log2[0] != 0
    return {"violated": bad, "observed": f"exp[log2[{a}]] = {S.exp[S.log2[a]]}, log2[exp[{i}]] = {S.log2[S.exp[i]]}, log2[0] = {S.log2[0]}"}


# =============================================================================================== O2 per-constant lemma

def _lemma_path(Ls):
    sh, S = mods()
    GF_REWRITE[0] = False
    y = SI.var("y", 0, 255)
    for L in Ls:
        impl = sx_ite(y > 0, S.exp[(S.log2[y] + L) % 255], 0)   # the expression of ShareSet.interpolate, as the seam sees it
        c = list.__getitem__(S.exp, L % 255)
        check(impl == gf_mul_const(y, c), f"L={L}: `exp[(log2[y] + L) % 255] if y > 0 else 0` is not y * exp[L] in GF(2^8)",
              witness=lambda env, L=L: {"kind": "lemma", "y": env["y"], "L": L}, fresh=True, timeout_ms=60000)
    return "ok"


@_with_mods
def ob_lemma(lo, hi):
    r = sym_run(lambda: _lemma_path(range(lo, hi)), expect_classes=["ok"], timeout_ms=60000)
    r["sample"] = {"y": "symbolic byte", "L": f"{lo}..{hi - 1}"}
    return r


# =============================================================================================== O2 split / recover

def _rand_env(prefix="r"):
    """secrets.randbits as an arbitrary value per call, recorded in call order"""
    drawn = []

    def randbits(bits):
        v = SI.var(f"{prefix}[{len(drawn)}]", 0, (1 << bits) - 1)
        drawn.append((bits, v))
        return v
    shims.set_env(randbits=randbits)
    return drawn


@_untraced
def _bytes_all_eq(a, b):
    if len(a) != len(b):
        return False
    return s_and(*[x == y for x, y in zip(a, b)])


def _subsets(n, k, limit=None, rng=None):
    """index subsets of size >= k of range(n); all of them, or `limit` sampled ones (always including the first k, the last k and all n)"""
    if k > n:
        return []
    allc = sum(_comb(n, m) for m in range(k, n + 1))
    if limit is None or allc <= limit:
        return [c for m in range(k, n + 1) for c in itertools.combinations(range(n), m)]
    out = {tuple(range(k)), tuple(range(n - k, n)), tuple(range(n))}
    while len(out) < limit:
        m = rng.randrange(k, n + 1)
        out.add(tuple(sorted(rng.sample(range(n), m))))
    return sorted(out)


def _comb(n, m):
    import math
    return math.comb(n, m)


def _o2_path(nb, k, n, subsets):
    sh, S = mods()
    GF_REWRITE[0] = True
    secret = SBytes.sym("s", nb)
    drawn = _rand_env()

    def wit(env, subset=None):
        return {"secret": bytes_env(env, "s", nb).hex(), "k": k, "n": n, "rnd": [env[f"r[{i}]"] for i in range(len(drawn))],
                "subset": list(subset) if subset is not None else None}
    try:
        shares = S.split_secret(secret, k, n)
    except Exception as ex:
        check(False, f"split_secret({k} of {n}) raised {type(ex).__name__}", witness=wit)
        return "split-error"
    if k == 1:
        # the library hands out a single share for k = 1 (see META outside); what exists must be the secret itself
        ok = len(shares) >= 1 and all(isinstance(i, int) and 0 <= i < n for i, _ in shares) and len({i for i, _ in shares}) == len(shares)
        check(ok, "1-of-n: share indices", witness=wit)
        check(s_and(*[_bytes_all_eq(d, secret) for _, d in shares]), "1-of-n: a share differs from the secret", witness=wit)
        return "ok"
    check(all(b == 8 for b, _ in drawn) and len(drawn) == (nb - 4) + (k - 2) * nb, "number of random bytes drawn", witness=wit)
    rnd = [v for _, v in drawn]
    want, dshare = spec_split(secret, k, n, rnd, _sym_hmac)
    if [i for i, _ in shares] != list(range(n)):
        check(False, f"split_secret({k} of {n}) does not return the share indices 0..n-1", witness=wit)
        return "split-shape"
    for (i, got), (_, exp) in zip(shares, want):
        check(_bytes_all_eq(got, exp), f"share {i} is not the value at {i} of the polynomial through the random shares, the digest share at 254 "
                                       f"and the secret at 255", witness=wit, fresh=True, timeout_ms=120000)
    expected = {SECRET_X: secret, DIGEST_X: norm(SBytes(list(dshare)))}
    real = _STATE["real_interpolate"].__func__
    state = {"subset": None}

    def interp(cls, x, share_data):
        r = real(cls, x, share_data)
        e = expected.get(x)
        if e is not None and len(r) == len(e):
            # proved-equal substitution: once z3 has shown the recovered bytes equal to the original ones, the original term is
            # handed on, so that the HMAC of the digest check is the same (hash-consed) symbol as in split_secret
            if check(_bytes_all_eq(r, e), f"interpolate({x}, subset) does not give back the {'secret' if x == SECRET_X else 'digest share'}",
                     witness=lambda env: wit(env, state["subset"]), fresh=True, timeout_ms=120000):
                return e
        return r
    S.interpolate = classmethod(interp)
    try:
        for sub in subsets:
            state["subset"] = sub
            data = [shares[i] for i in sub]
            try:
                rec = S.recover_secret(data)
            except ValueError as ex:
                check(False, f"recover_secret on shares {list(sub)} of a {k}-of-{n} split raised {ex}", witness=lambda env: wit(env, sub))
                continue
            check((len(rec) == nb) and (rec == secret), f"recover_secret on shares {list(sub)} != secret", witness=lambda env: wit(env, sub))
    finally:
        S.interpolate = _STATE["real_interpolate"]
    return "ok"


@_with_mods
def ob_split_recover(nb, k, n, limit=None):
    rng = _random.Random(1000 * k + n)
    subsets = _subsets(n, k, limit, rng) if k >= 2 else []
    USED_L.clear()
    r = sym_run(lambda: _o2_path(nb, k, n, subsets), expect_classes=["ok"], timeout_ms=120000, max_violations=12)
    allc = sum(_comb(n, m) for m in range(k, n + 1))
    r["sample"] = {"secret_bytes": nb, "k": k, "n": n, "subsets": len(subsets), "all_subsets": len(subsets) == allc or k == 1,
                   "constants_L_used": len(USED_L)}
    return r


def _native_split(w):
    import buidl.shamir as shamir
    it = iter(w["rnd"])
    orig = shamir.randbits
    shamir.randbits = lambda bits: next(it)
    try:
        return shamir.ShareSet.split_secret(bytes.fromhex(w["secret"]), w["k"], w["n"])
    finally:
        shamir.randbits = orig


def replay_split_recover(w):
    from buidl.shamir import ShareSet
    secret, k, n = bytes.fromhex(w["secret"]), w["k"], w["n"]
    try:
        shares = _native_split(w)
    except Exception as ex:
        return {"violated": True, "observed": f"split_secret({secret.hex()}, {k}, {n}) raised {ex!r}"}
    if k == 1:
        bad = not shares or any(d != secret for _, d in shares)
        return {"violated": bad, "observed": f"1-of-{n}: {[(i, d.hex()) for i, d in shares]}"}
    want, _ = spec_split(secret, k, n, w["rnd"], _real_hmac)
    want = [(i, bytes(d)) for i, d in want]
    if [(i, bytes(d)) for i, d in shares] != want:
        return {"violated": True, "observed": f"{k}-of-{n} split of {secret.hex()} (random bytes {w['rnd'][:8]}..): shares "
                                              f"{[(i, bytes(d).hex()) for i, d in shares][:3]}.. differ from the SLIP39 polynomial values "
                                              f"{[(i, d.hex()) for i, d in want][:3]}.."}
    subs = [tuple(w["subset"])] if w.get("subset") else _subsets(n, k)
    for sub in subs:
        try:
            rec = ShareSet.recover_secret([shares[i] for i in sub])
        except Exception as ex:
            return {"violated": True, "observed": f"recover_secret(shares {list(sub)}) of a {k}-of-{n} split of {secret.hex()} raised {ex!r}"}
        if rec != secret:
            return {"violated": True, "observed": f"recover_secret(shares {list(sub)}) = {rec.hex()} != {secret.hex()}"}
    return {"violated": False, "observed": "agrees"}


# =============================================================================================== O3 refusal below threshold / mixing

FIELDS = (("id", 0, (1 << 15) - 1), ("exponent", 0, 31), ("gi", 0, 15), ("gt", 1, 16), ("gc", 1, 16), ("mi", 0, 15), ("mt", 1, 16))


@_untraced
def spec_consistent(shares):
    """what a set of shares must satisfy before anything may be returned (structural part of SLIP39 RecoverSecret).
    shares: dicts of the header fields + 'bits' (proxies or ints).  Returns bool / SB."""
    m = len(shares)
    if m == 0:
        return False
    f0 = shares[0]
    conds = []
    for s in shares[1:]:
        if s["bits"] != f0["bits"]:
            return False
        conds += [s["id"] == f0["id"], s["exponent"] == f0["exponent"], s["gt"] == f0["gt"], s["gc"] == f0["gc"]]
    for a in range(m):
        for b in range(a + 1, m):
            conds.append(s_not(s_and(shares[a]["gi"] == shares[b]["gi"], shares[a]["mi"] == shares[b]["mi"])))
    conds.append(f0["gt"] <= f0["gc"])
    # groups present: count the distinct group indices; inside a group: one member threshold, enough members
    distinct = 0
    for a in range(m):
        first = s_and(*[s_not(shares[b]["gi"] == shares[a]["gi"]) for b in range(a)]) if a else True
        distinct = distinct + s_ite(first, 1, 0)
        members = 0
        for b in range(m):
            same = shares[b]["gi"] == shares[a]["gi"]
            members = members + s_ite(same, 1, 0)
            conds.append(s_implies(same, shares[b]["mt"] == shares[a]["mt"]))
        conds.append(members >= shares[a]["mt"])
    conds.append(distinct >= f0["gt"])
    return s_and(*conds)


def _o3_path(shape):
    """shape: tuple of (group index or None = symbolic, bits) per share"""
    sh, S = mods()
    GF_REWRITE[0] = True
    fields = []
    objs = []
    for j, (gi, bits) in enumerate(shape):
        f = {"bits": bits}
        for name, lo, hi in FIELDS:
            f[name] = gi if (name == "gi" and gi is not None) else SI.var(f"{name}{j}", lo, hi)
        f["value"] = SBytes.sym(f"v{j}", bits // 8)
        fields.append(f)

    def wit(env):
        out = []
        for j, f in enumerate(fields):
            d = {k: (f[k] if isinstance(f[k], int) else env[f"{k}{j}"]) for k in ("id", "exponent", "gi", "gt", "gc", "mi", "mt")}
            d["bits"] = f["bits"]
            d["value"] = bytes_env(env, f"v{j}", f["bits"] // 8).hex()
            out.append(d)
        return {"shares": out}
    try:
        for f in fields:
            objs.append(sh.Share(f["bits"], f["id"], f["exponent"], f["gi"], f["gt"], f["gc"], f["mi"], f["mt"],
                                 core.int_from_bytes(f["value"], "big")))
    except ValueError:
        check(True, "share refused at construction")
        return "share-invalid"
    # seams: recover_secret (O2's subject) hands back an arbitrary secret of the share length, i.e. the digest check is taken to
    # pass whenever it is reached; decrypt (O5's subject) is the identity.  What is decided here is the control flow around them.
    calls = []

    def rec_stub(cls, share_data):
        calls.append(share_data)
        return SBytes.sym(f"rec{len(calls)}", len(share_data[0][1]))
    S.recover_secret = classmethod(rec_stub)
    S.decrypt = lambda self, secret, passphrase=b"": secret
    try:
        ss = S(list(objs))
        r = ss.recover(b"")
    except Exception as ex:
        check(True, "refused")
        return "refused:" + type(ex).__name__
    finally:
        S.recover_secret = _STATE["real_recover_secret"]
        S.decrypt = _STATE["real_decrypt"]
    check(r is not None and len(r) == fields[0]["bits"] // 8, "recover returned something that is not a secret of the share length", witness=wit)
    check(spec_consistent(fields), "recover returned a secret for shares that are inconsistent (different split / parameters / length), "
                                   "duplicated or fewer than the thresholds", witness=wit)
    return "returned"


@_with_mods
def ob_refusal(shape):
    exp = ["returned"] if len(shape) and len({b for _, b in shape}) == 1 else ["refused:ValueError" if shape else "refused:IndexError"]
    r = sym_run(lambda: _o3_path(shape), expect_classes=exp, timeout_ms=60000, max_violations=24, max_paths=60000)
    r["sample"] = {"shares": len(shape), "group indices": [("symbolic" if g is None else g) for g, _ in shape], "bits": [b for _, b in shape],
                   "symbolic": "id, exponent, group threshold/count, member index/threshold, value of every share"}
    return r


def _native_share(d, value=None):
    from buidl.shamir import Share
    v = int(d["value"], 16) if value is None else int.from_bytes(value, "big")
    return Share(d["bits"], d["id"], d["exponent"], d["gi"], d["gt"], d["gc"], d["mi"], d["mt"], v)


def _repaired_values(ds):
    """share values that pass the digest checks where the header fields allow it (two-level split of a fixed secret with the
    native split_secret), so that a structural acceptance is not masked by a digest mismatch of the solver's arbitrary bytes"""
    from buidl.shamir import ShareSet
    nb = ds[0]["bits"] // 8
    secret = bytes(range(1, nb + 1))
    gt, gc = ds[0]["gt"], ds[0]["gc"]
    try:
        groups = dict(ShareSet.split_secret(secret, gt, gc)) if gt > 1 else {g: secret for g in range(16)}
    except Exception:
        groups = {}
    out = []
    cache = {}
    for d in ds:
        gs = groups.get(d["gi"], secret)
        if d["mt"] == 1:
            out.append(gs)
            continue
        key = (d["gi"], d["mt"])
        if key not in cache:
            try:
                cache[key] = dict(ShareSet.split_secret(gs, d["mt"], 16))
            except Exception:
                cache[key] = {}
        out.append(cache[key].get(d["mi"], gs))
    return out


def replay_refusal(w):
    from buidl.shamir import ShareSet
    ds = w["shares"]
    ok = bool(spec_consistent(ds))
    last = None
    for values in (None, "repaired"):
        try:
            vals = _repaired_values(ds) if values else [None] * len(ds)
            objs = [_native_share(d, v) for d, v in zip(ds, vals)]
        except Exception as ex:
            last = f"Share() raised {ex!r}"
            continue
        try:
            r = ShareSet(objs).recover(b"")
        except Exception as ex:
            last = f"refused: {ex!r}"
            continue
        hdr = [{k: d[k] for k in ("id", "exponent", "gi", "gt", "gc", "mi", "mt", "bits")} for d in ds]
        if not ok:
            return {"violated": True, "observed": f"ShareSet(shares).recover() returned {r.hex()} for the inconsistent / insufficient shares {hdr}"}
        last = f"returned {r.hex()} (consistent set)"
    return {"violated": False, "observed": last}


# =============================================================================================== O3 digest enforced on arbitrary share values

def _digest_path(nb, xs, level, extra_fields):
    """len(xs) shares with consistent headers and ARBITRARY symbolic values (not the output of a split) at the x-coordinates xs
    (group indices for level='group', member indices inside one group for level='member').  Whenever recover() returns, the digest
    equation HMAC(key = D[4:], msg = S)[:4] == D[:4] must hold for D / S = the values interpolated at 254 / 255."""
    sh, S = mods()
    GF_REWRITE[0] = True
    k = len(xs)
    ident = SI.var("id", 0, (1 << 15) - 1)
    e = 0
    ds = []
    for j, x in enumerate(xs):
        if level == "group":
            d = {"id": ident, "exponent": e, "gi": x, "gt": extra_fields["threshold"], "gc": 16, "mi": 0, "mt": 1}
        else:
            d = {"id": ident, "exponent": e, "gi": 0, "gt": 1, "gc": 1, "mi": x, "mt": extra_fields["threshold"]}
        d["bits"] = 8 * nb
        d["value"] = SBytes.sym(f"v{j}", nb)
        ds.append(d)

    def wit(env):
        out = []
        for j, d in enumerate(ds):
            o = {kk: (env["id"] if kk == "id" else d[kk]) for kk in ("id", "exponent", "gi", "gt", "gc", "mi", "mt", "bits")}
            o["value"] = bytes_env(env, f"v{j}", nb).hex()
            out.append(o)
        return {"shares": out, "level": level}
    objs = [sh.Share(d["bits"], d["id"], d["exponent"], d["gi"], d["gt"], d["gc"], d["mi"], d["mt"], core.int_from_bytes(d["value"], "big"))
            for d in ds]
    S.decrypt = lambda self, secret, passphrase=b"": secret      # O5's subject; the identity here so that the returned value is S itself
    try:
        try:
            r = S(list(objs)).recover(b"")
        except ValueError as ex:
            check(True, "refused")
            return "refused:" + str(ex)
    finally:
        S.decrypt = _STATE["real_decrypt"]
    data = [(x, d["value"]) for x, d in zip(xs, ds)]
    D = S.interpolate(DIGEST_X, list(data))       # the real interpolate; the same (hash-consed) terms the code under test built
    Sv = S.interpolate(SECRET_X, list(data))
    mac = _sym_hmac(D[4:], Sv)
    check(_bytes_all_eq(list(mac)[:4], list(D)[:4]), f"recover() returned a secret for {k} arbitrary share values although the digest share "
                                                      f"interpolated at 254 does not authenticate the secret interpolated at 255", witness=wit)
    check((len(r) == nb) and _bytes_all_eq(r, Sv), "recover() does not return the value interpolated at 255", witness=wit)
    return "returned"


@_with_mods
def ob_digest_enforced(nb, xs, level, threshold):
    r = sym_run(lambda: _digest_path(nb, xs, level, {"threshold": threshold}), expect_classes=["returned", "refused:Digest does not match secret"],
                timeout_ms=120000, max_violations=8)
    r["sample"] = {"secret_bytes": nb, "x-coordinates": list(xs), "level": level, "threshold": threshold,
                   "symbolic": "every byte of every share value, the identifier"}
    return r


def replay_digest(w):
    """real recover() on the concrete share values: violated iff it returns although the real HMAC of the values interpolated
    (by the reference Lagrange formula) at 254 / 255 does not match"""
    from buidl.shamir import ShareSet
    ds = w["shares"]
    objs = [_native_share(d) for d in ds]
    xs = [d["gi"] if w["level"] == "group" else d["mi"] for d in ds]
    pts = [(x, bytes.fromhex(d["value"])) for x, d in zip(xs, ds)]
    D = bytes(spec_interpolate(DIGEST_X, pts))
    Sv = bytes(spec_interpolate(SECRET_X, pts))
    ok = _real_hmac(D[4:], Sv)[:4] == D[:4]
    ss = ShareSet(objs)
    ss.decrypt = lambda secret, passphrase=b"": secret
    try:
        r = ss.recover(b"")
    except Exception as ex:
        return {"violated": False, "observed": f"refused: {ex!r}"}
    return {"violated": not ok, "observed": f"{w['level']}-level recover() of {len(ds)} share values {[d['value'] for d in ds]} at x = {xs} returned "
                                            f"{bytes(r).hex()}; digest share at 254 = {D.hex()}, HMAC(D[4:], S)[:4] = {_real_hmac(D[4:], Sv)[:4].hex()} "
                                            f"({'matches' if ok else 'does NOT match'} D[:4])"}


# =============================================================================================== O5 Feistel

def _o5_path(nb, lp, exps):
    sh, S = mods()
    x = SBytes.sym("x", nb)
    pw = SBytes.sym("pw", lp) if lp else b""
    ident = SI.var("id", 0, (1 << 15) - 1)
    e = SI.var("e", exps[0], exps[-1]) if len(exps) > 1 else exps[0]

    def wit(env):
        return {"x": bytes_env(env, "x", nb).hex(), "pw": bytes_env(env, "pw", lp).hex(), "id": env["id"], "e": env.get("e", exps[0])}
    a = len(shims.HASH_CALLS)
    try:
        enc = S.encrypt(x, ident, e, pw)
    except Exception as ex:
        check(False, f"encrypt raised {type(ex).__name__}", witness=wit)
        return "error"
    ncalls = len(shims.HASH_CALLS) - a
    check(len(enc) == nb, "encrypt changes the length", witness=wit)
    check(ncalls == 4, f"encrypt makes {ncalls} PBKDF2 calls (4 Feistel rounds expected)", witness=wit)
    share = sh.Share(8 * nb, ident, e, 0, 1, 1, 0, 1, 0)
    ss = S([share])
    try:
        dec = ss.decrypt(enc, pw)
    except Exception as ex:
        check(False, f"decrypt raised {type(ex).__name__}", witness=wit)
        return "error"
    check((len(dec) == nb) and (dec == x), "decrypt(encrypt(x)) != x", witness=wit, fresh=True, timeout_ms=120000)
    # and the other way round (decryption is a bijection too): encrypt(decrypt(y)) == y
    enc2 = S.encrypt(ss.decrypt(x, pw), ident, e, pw)
    check((len(enc2) == nb) and (enc2 == x), "encrypt(decrypt(y)) != y", witness=wit, fresh=True, timeout_ms=120000)
    return "ok"


@_with_mods
def ob_feistel(nb, lps, exps, max_paths=64, wall_s=90):
    """one exploration per passphrase length, each capped (a passphrase-dependent fork in the code under test, e.g. stripping, would
    otherwise multiply paths with the length; the 0..2-byte obligations then still decide quickly and report the counterexample)"""
    runs = [sym_run(lambda: _o5_path(nb, lp, exps), expect_classes=["ok"], timeout_ms=120000, max_paths=max_paths, wall_s=wall_s,
                    max_violations=12) for lp in lps]
    m = merge_runs(runs)
    m["sample"] = {"payload_bytes": nb, "passphrase_bytes": list(lps), "exponent": f"symbolic in {list(exps)}", "id": "symbolic 15 bits",
                   "pbkdf2": "uninterpreted"}
    return m


def replay_feistel(w):
    from buidl.shamir import ShareSet, Share
    x, pw, ident, e = bytes.fromhex(w["x"]), bytes.fromhex(w["pw"]), w["id"], w["e"]
    enc = ShareSet.encrypt(x, ident, e, pw)
    ss = ShareSet([Share(8 * len(x), ident, e, 0, 1, 1, 0, 1, 0)])
    dec = ss.decrypt(enc, pw)
    enc2 = ShareSet.encrypt(ss.decrypt(x, pw), ident, e, pw)
    bad = dec != x or enc2 != x or len(enc) != len(x)
    return {"violated": bad, "observed": f"x={x.hex()} passphrase={pw.hex()} id={ident} e={e}: encrypt -> {enc.hex()}, decrypt(encrypt(x)) -> {dec.hex()}, "
                                         f"encrypt(decrypt(x)) -> {enc2.hex()}"}


# =============================================================================================== O4 share codec / RS1024

GEN = (0xE0E040, 0x1C1C080, 0x3838100, 0x7070200, 0xE0E0009, 0x1C0C2412, 0x38086C24, 0x3090FC48, 0x21B1F890, 0x3F3F120)   # SLIP39


def spec_rs_step(chk, v):
    """one symbol of the SLIP39 checksum polynomial on a 30-bit state (ints or proxies)"""
    b = chk >> 20
    chk = ((chk & 0xFFFFF) << 10) ^ v
    for i in range(10):
        bit = (b >> i) & 1
        if isinstance(bit, int):
            chk = chk ^ (GEN[i] if bit else 0)
        else:
            chk = chk ^ s_ite(bit == 1, GEN[i], 0)
    return chk


def spec_rs_fold(values):
    """SLIP39 checksum polynomial as the left fold of spec_rs_step from the state 1 (ints or proxies)"""
    chk = 1
    for v in values:
        chk = spec_rs_step(chk, v)
    return chk


def _pack3(t):
    return (t[0] << 20) | (t[1] << 10) | t[2]


class Handles:
    """token <-> (symbolic) word index: 'w<j>' = the full word of handle j, 'p<j>' = its four-letter prefix (hash-consed on the index)"""

    def __init__(self):
        self.by_key, self.index, self.kind, self.n = {}, {}, {}, 0

    def _h(self, idx):
        key = ("n", idx.n.id) if isinstance(idx, SI) else ("c", int(idx))
        j = self.by_key.get(key)
        if j is None:
            j = self.by_key[key] = self.n
            self.n += 1
            for pre, kind in (("w", "full"), ("p", "prefix")):
                self.index[f"{pre}{j}"] = idx
                self.kind[f"{pre}{j}"] = kind
        return j

    def token(self, idx, form="full"):
        return ("w" if form == "full" else "p") + str(self._h(idx))


class _Words:
    def __init__(self, hs, size):
        self.hs, self.size = hs, size

    def __getitem__(self, k):
        if k < 0:
            k = k + self.size
        if k < 0 or k >= self.size:
            raise IndexError("list index out of range")
        return self.hs.token(k)

    def __contains__(self, tok):
        return self.hs.kind.get(tok) == "full"

    def __len__(self):
        return self.size


class _Lookup:
    def __init__(self, hs):
        self.hs = hs

    def __getitem__(self, tok):
        if tok not in self.hs.index:
            raise KeyError(tok)
        return self.hs.index[tok]

    def __contains__(self, tok):
        return tok in self.hs.index


def install_handles(size=1024):
    """a real WordList object (real methods) over handle tables in place of sbuidl.shamir.SLIP39"""
    sh, S = mods()
    mn = loader.load("mnemonic")
    hs = Handles()
    wl = object.__new__(mn.WordList)
    wl.words = _Words(hs, size)
    wl.lookup = _Lookup(hs)
    sh.SLIP39 = wl
    return hs


@_untraced
def fold_polymod(values):
    """rs1024_polymod(values), compositionally: Z = polymod(values[:-3] + [0,0,0]) is an uninterpreted 30-bit function of the
    symbols values[:-3]; the last three symbols enter linearly: polymod(values) = Z ^ pack(values[-3:]) (lemmas O4-rs-step /
    O4-rs-fold on the real function).  Lists without symbolic entries go to the real function."""
    real = _STATE["real_polymod"]
    values = list(values)
    if len(values) <= 3 or all(isinstance(v, int) for v in values):
        return real(values)
    if not all((isinstance(v, int) and 0 <= v <= 1023) or (isinstance(v, SI) and v.lo >= 0 and v.hi <= 1023) for v in values):
        return real(values)
    pre, tail = values[:-3], values[-3:]
    arg = 0
    for v in pre:
        arg = (arg << 10) | v
    name = f"rszero_{len(pre)}"
    if name not in core.UF_IMPL:
        k = len(pre)
        core.UF_IMPL[name] = lambda val, k=k: spec_rs1024_polymod([(val >> (10 * (k - 1 - i))) & 1023 for i in range(k)] + [0, 0, 0])
    z = wrap(core.n_uf(name, 30, [lift(arg)], widths=(10 * len(pre),)))
    return z ^ _pack3(tail)


def use_polymod(kind):
    sh, S = mods()
    sh.rs1024_polymod = _STATE["real_polymod"] if kind == "real" else fold_polymod


def _step(real, S_, v):
    """state after one symbol v from the 30-bit state S_, through the real function (its first iteration maps (1, v0) to 1024 ^ v0)"""
    return real([S_ ^ 1024, v])


def _rs_step_path():
    sh, S = mods()
    real = _STATE["real_polymod"]
    S1 = SI.var("S1", 0, (1 << 30) - 1)
    S2 = SI.var("S2", 0, (1 << 30) - 1)
    v1 = SI.var("v1", 0, 1023)
    v2 = SI.var("v2", 0, 1023)
    wit = lambda env: {"kind": "step", "S1": env["S1"], "S2": env["S2"], "v1": env["v1"], "v2": env["v2"]}  # noqa
    check(real([]) == 1 and real([0]) == 1024, "initial state", witness=wit)
    check(real([v1]) == (1024 ^ v1), "first symbol: state (1 << 10) ^ v", witness=wit, fresh=True)
    a = _step(real, S1, v1)
    check(a == spec_rs_step(S1, v1), "one step of rs1024_polymod differs from the SLIP39 generator polynomial step", witness=wit, fresh=True)
    check(_step(real, S1 ^ S2, v1 ^ v2) == (a ^ _step(real, S2, v2)), "one step of rs1024_polymod is not XOR-linear in (state, symbol)", witness=wit,
          fresh=True, timeout_ms=120000)
    # the last three symbols enter linearly from any state (checksum creation / verification)
    t = [v1, v2, SI.var("v3", 0, 1023)]
    wit3 = lambda env: {"kind": "tail", "S1": env["S1"], "t": [env["v1"], env["v2"], env["v3"]]}  # noqa
    check(real([S1 ^ 1024] + t) == (real([S1 ^ 1024, 0, 0, 0]) ^ _pack3(t)), "the last three symbols do not enter rs1024_polymod linearly", witness=wit3,
          fresh=True, timeout_ms=120000)
    return Out("ok", a)


@_with_mods
def ob_rs_step():
    r = sym_run(_rs_step_path, expect_classes=["ok"], timeout_ms=120000,
                gen_env=lambda rng: {"S1": rng.randrange(1 << 30), "S2": rng.randrange(1 << 30), "v1": rng.randrange(1024), "v2": rng.randrange(1024),
                                     "v3": rng.randrange(1024)},
                native=lambda env: loader.native("shamir").rs1024_polymod([env["S1"] ^ 1024, env["v1"]]), n_val=20)
    r["sample"] = {"state": "symbolic 30 bits (two of them)", "symbols": "symbolic 10 bits"}
    return r


def _rs_fold_path(k, maxaff=2):
    """left fold through the first value and affinity for short fully symbolic lists"""
    sh, S = mods()
    real = _STATE["real_polymod"]
    p = [SI.var(f"p[{i}]", 0, 1023) for i in range(k)]
    e = [SI.var(f"e[{i}]", 0, 1023) for i in range(k)]
    t = [SI.var(f"t[{i}]", 0, 1023) for i in range(3)]
    wit = lambda env: {"kind": "fold", "p": [env[f"p[{i}]"] for i in range(k)], "e": [env[f"e[{i}]"] for i in range(k)],  # noqa
                       "t": [env[f"t[{i}]"] for i in range(3)]}
    whole = real(list(CS) + p + t)
    st = real(list(CS) + p)
    check(whole == real([st ^ 1024] + t), "rs1024_polymod(p + t) != rs1024_polymod([rs1024_polymod(p) ^ 1024] + t) (left fold)", witness=wit,
          fresh=True, timeout_ms=120000)
    if k > maxaff:
        return Out("ok", whole)     # (three fully symbolic prefix symbols + error symbols: z3 gives up; the step lemma carries the induction)
    # affinity: an error pattern e changes the result by the fold of e from the zero state, whatever the data
    lin = real([1024] + e + [0, 0, 0])
    moved = real(list(CS) + [a ^ b for a, b in zip(p, e)] + t)
    check(moved == (whole ^ lin), "rs1024_polymod(data ^ e) != rs1024_polymod(data) ^ L(e) for a short list", witness=wit, fresh=True, timeout_ms=120000)
    return Out("ok", whole)


@_with_mods
def ob_rs_fold(maxk, maxaff=2):
    nat = loader.native("shamir")
    runs = []
    for k in range(0, maxk + 1):
        def gen(rng, k=k):
            env = {f"p[{i}]": rng.randrange(1024) for i in range(k)}
            env.update({f"e[{i}]": rng.randrange(1024) for i in range(k)})
            env.update({f"t[{i}]": rng.randrange(1024) for i in range(3)})
            return env
        runs.append(sym_run(lambda: _rs_fold_path(k, maxaff), expect_classes=["ok"], timeout_ms=120000, gen_env=gen,
                            native=lambda env, k=k: nat.rs1024_polymod(list(CS) + [env[f"p[{i}]"] for i in range(k)] + [env[f"t[{i}]"] for i in range(3)]),
                            n_val=6))
    m = merge_runs(runs)
    m["sample"] = {"prefix": f"0..{maxk} symbolic symbols after b'shamir'", "error pattern": "same length, symbolic", "tail": "3 symbolic symbols"}
    return m


def replay_rs(w):
    from buidl.shamir import rs1024_polymod as real
    k = w["kind"]
    if k == "step":
        S1, S2, v1, v2 = w["S1"], w["S2"], w["v1"], w["v2"]
        a, b, c = real([S1 ^ 1024, v1]), real([S2 ^ 1024, v2]), real([S1 ^ S2 ^ 1024, v1 ^ v2])
        bad = real([]) != 1 or real([v1]) != 1024 ^ v1 or a != spec_rs_step(S1, v1) or c != a ^ b
        return {"violated": bad, "observed": f"step({S1:#x}, {v1}) = {a:#x}, SLIP39 step = {spec_rs_step(S1, v1):#x}; step(S1^S2, v1^v2) = {c:#x}, "
                                             f"step(S1,v1)^step(S2,v2) = {a ^ b:#x}"}
    if k == "tail":
        S1, t = w["S1"], w["t"]
        a, z = real([S1 ^ 1024] + t), real([S1 ^ 1024, 0, 0, 0])
        return {"violated": a != z ^ _pack3(t), "observed": f"state {S1:#x} tail {t}: {a:#x} vs {z ^ _pack3(t):#x}"}
    if k == "fold":
        p, e, t = w["p"], w["e"], w["t"]
        whole = real(list(CS) + p + t)
        folded = real([real(list(CS) + p) ^ 1024] + t)
        lin = real([1024] + e + [0, 0, 0])
        moved = real(list(CS) + [a ^ b for a, b in zip(p, e)] + t)
        ref = spec_rs1024_polymod(list(CS) + p + t)
        bad = whole != folded or moved != whole ^ lin or whole != ref
        return {"violated": bad, "observed": f"polymod(shamir+{p}+{t}) = {whole:#x} (reference {ref:#x}), folded {folded:#x}; with error {e}: {moved:#x} vs "
                                             f"{whole ^ lin:#x}"}
    raise KeyError(k)


def _base_codeword(nwords):
    """a valid share word sequence (concrete): zero data words and their checksum from the real rs1024_create_checksum"""
    sh, S = mods()
    zeros = [0] * (nwords - 3)
    return zeros + [int(x) for x in sh.rs1024_create_checksum(CS, list(zeros))]


def _rs_cols(nwords, p):
    """columns of the syndrome map of word position p of an nwords-word share: D_p(1 << i), computed by concrete runs of the
    (current) rs1024_polymod: D_p(e) = polymod(shamir + codeword with e xor-ed into word p) ^ polymod(shamir + codeword)"""
    real = _STATE["real_polymod"]
    cw = _base_codeword(nwords)
    base = real(list(CS) + cw)
    cols = []
    for i in range(10):
        v = list(cw)
        v[p] ^= 1 << i
        cols.append(real(list(CS) + v) ^ base)
    return cols


@_untraced
def _mat_apply(cols, e):
    """XOR of the columns selected by the bits of e, written output bit by output bit with shifts and xors only"""
    nbits = max(c.bit_length() for c in cols) if cols else 0
    bits = [(e >> i) & 1 for i in range(len(cols))]
    r = 0
    for j in range(nbits):
        par = 0
        for i, col in enumerate(cols):
            if (col >> j) & 1:
                par = par ^ bits[i]
        r = r | (par << j)
    return r


def _rs_positions_path(nwords, positions):
    sh, S = mods()
    use_polymod("real")
    real = _STATE["real_polymod"]
    e = SI.var("e", 0, 1023)
    codeword = _base_codeword(nwords)
    check(bool(sh.rs1024_verify_checksum(CS, list(codeword))), "create_checksum / verify_checksum disagree on the all-zero share")
    base = real(list(CS) + codeword)
    for p in positions:
        wit = lambda env, p=p: {"kind": "pos", "nwords": nwords, "positions": [p], "errors": [env["e"]]}  # noqa
        cw = list(codeword)
        cw[p] = cw[p] ^ e
        ok = sh.rs1024_verify_checksum(CS, list(cw))      # the real verification of the corrupted share (one symbolic word)
        check(s_implies(e != 0, s_not(ok)), f"a substitution of word {p} of a {nwords}-word share passes the checksum", witness=wit, fresh=True,
              timeout_ms=120000)
        d = real(list(CS) + cw) ^ base                     # same (hash-consed) term as inside verify_checksum
        check(d == _mat_apply(_rs_cols(nwords, p), e), f"position {p}: the syndrome of a single-word error is not the XOR of its bit columns",
              witness=wit, fresh=True, timeout_ms=120000)
    return "ok"


@_with_mods
def ob_rs_positions(nwords, lo, hi):
    r = sym_run(lambda: _rs_positions_path(nwords, range(lo, hi)), expect_classes=["ok"], timeout_ms=120000)
    r["sample"] = {"words": nwords, "positions": f"{lo}..{hi - 1}", "error": "symbolic 10-bit difference at one position"}
    return r


def _gf2_left_inverse(acols, nrows=30):
    """acols: the columns (ints, nrows bits) of a GF(2) matrix A.  Returns the columns of N with N*A = I (as ints over the
    len(acols) output bits, one per input bit 0..nrows-1), or None when A has not full column rank.  Untrusted helper: the
    product N*(A*e) == e is what z3 checks."""
    m = len(acols)
    rows = []
    for i in range(nrows):
        a = 0
        for c in range(m):
            a |= ((acols[c] >> i) & 1) << c
        rows.append([a, 1 << i])
    piv = {}
    r = 0
    for c in range(m):
        k = next((j for j in range(r, nrows) if (rows[j][0] >> c) & 1), None)
        if k is None:
            return None
        rows[r], rows[k] = rows[k], rows[r]
        for j in range(nrows):
            if j != r and (rows[j][0] >> c) & 1:
                rows[j][0] ^= rows[r][0]
                rows[j][1] ^= rows[r][1]
        piv[c] = r
        r += 1
    masks = [rows[piv[c]][1] for c in range(m)]          # masks[c]: which syndrome bits are summed to give input bit c
    return [sum(((masks[c] >> k) & 1) << c for c in range(m)) for k in range(nrows)]


def _rs_detect_path(nwords, ps, cols):
    """every error pattern on the word positions ps is detected: with A = [M_p1 | M_p2 | M_p3] (per-position syndrome columns)
    the harness computes a left inverse N over GF(2) and z3 verifies N*(A*e) == e for the symbolic error symbols e, so a zero
    syndrome forces e == 0.  Without a left inverse the question `syndrome != 0` goes to z3 directly (and yields a witness)."""
    es = [SI.var(f"e{j}", 0, 1023) for j in range(len(ps))]
    wit = lambda env: {"kind": "pos", "nwords": nwords, "positions": list(ps), "errors": [env[f"e{j}"] for j in range(len(ps))]}  # noqa
    syn, packed, acols = 0, 0, []
    for j, (x, p) in enumerate(zip(es, ps)):
        syn = syn ^ _mat_apply(cols[p], x)
        packed = packed | (x << (10 * j))
        acols += cols[p]
    ninv = _gf2_left_inverse(acols)
    if ninv is not None:
        sv = SI.var("syndrome", 0, (1 << 30) - 1)
        assume(sv == syn)      # let-binding (a fresh name for the syndrome term, so that its bits are read off one 30-bit term)
        check(_mat_apply(ninv, sv) == packed, f"word positions {list(ps)} of a {nwords}-word share: the error symbols are not a linear function of "
                                              f"the syndrome", witness=wit, fresh=True, timeout_ms=120000)
    else:
        some = s_or(*[x != 0 for x in es])
        check(s_implies(some, syn != 0), f"errors at word positions {list(ps)} of a {nwords}-word share can cancel in the checksum",
              witness=wit, fresh=True, timeout_ms=120000)
    return "ok"


@_with_mods
def ob_rs_detect(nwords, weight, chunk, nchunks, sample=None):
    mods()
    allsets = list(itertools.combinations(range(nwords), weight))
    if sample is not None and sample < len(allsets):
        allsets = _random.Random(nwords * 7 + weight).sample(allsets, sample)
    sets = allsets[chunk::nchunks]
    cols = {p: _rs_cols(nwords, p) for p in range(nwords)}
    runs = [sym_run(lambda: _rs_detect_path(nwords, ps, cols), expect_classes=["ok"], timeout_ms=120000) for ps in sets]
    r = merge_runs(runs)
    r["sample"] = {"words": nwords, "positions per set": weight, "sets": len(sets), "of": _comb(nwords, weight),
                   "errors": "symbolic 10-bit differences (every pattern on the set, sub-patterns included)"}
    return r


def replay_rs_detect(w):
    """a valid share word sequence (native create_checksum over pseudo-random data) with the witness's differences applied"""
    from buidl.shamir import rs1024_create_checksum, rs1024_verify_checksum
    nwords, ps, es = w["nwords"], w["positions"], w["errors"]
    rng = _random.Random(5)
    data = [rng.randrange(1024) for _ in range(nwords - 3)]
    cw = data + rs1024_create_checksum(CS, list(data))
    if not rs1024_verify_checksum(CS, list(cw)):
        return {"violated": True, "observed": "verify_checksum rejects the output of create_checksum"}
    bad = list(cw)
    for p, e in zip(ps, es):
        bad[p] ^= e
    if bad == cw:
        return {"violated": False, "observed": "no change"}
    acc = rs1024_verify_checksum(CS, list(bad))
    return {"violated": bool(acc), "observed": f"{nwords}-word share indices {cw}: changing positions {ps} by xor {es} gives a sequence that "
                                               f"{'passes' if acc else 'fails'} the RS1024 checksum"}


# ---- the acceptance predicate of the real Share.parse under <= 3 substituted words (every well-formed share as the base)

def _plain_ite(c, a, b):
    """`a if c else b` of rs1024_polymod as a non-forking ite on the plain truth value of c (the form symx.anf reads as one bit)"""
    if isinstance(c, SI):
        return s_ite(c != 0, a, b)
    if isinstance(c, SB):
        return s_ite(c, a, b)
    return a if c else b


def _detect_seam(sp, evars, state, wit):
    """what the real parse sees as rs1024_polymod: the real (if-converted) function runs on the symbolic word values; its result is
    rewritten into the XOR-affine normal form c0 ^ A*e (symx.anf DAG pass; semantics preserving rewriting, cross-checked in C09 and
    on random vectors below).  When nothing but bits of the error symbols is left in it (the data words cancel against the checksum
    words that were computed from them), the syndrome A*e gets a name `syndrome<k>` (let-binding) and z3 proves the certificate
    N*(A*e) == e for a left inverse N computed by the harness; the proved equation is then kept on the path (a consequence of the
    let-binding, so it excludes nothing), so that whatever comparison the code under test makes on the result propagates to e."""
    from symx import anf
    real = _STATE["real_polymod"]

    def polymod(values):
        values = list(values)
        r = real(values)
        if isinstance(r, int):
            return r
        state["calls"].append(list(itertools.takewhile(lambda v: isinstance(v, int) and 0 <= v < 256, values)))   # the customization string
        try:
            masks = anf.forms(r, 30, sp)
        except anf.NotAffine:
            return r
        c0, cols = anf.columns(masks)
        by = {e.n.id: j for j, e in enumerate(evars)}
        acols = [0] * (10 * len(evars))
        for idx, col in cols.items():
            node, bit = sp.atoms[idx]
            j = by.get(node.id)
            if j is None or bit >= 10:
                return wrap(anf.rebuild(masks, sp))      # data bits are left: normal form only
            acols[10 * j + bit] = col
        key = tuple(acols)
        sv = state["named"].get(key)
        if sv is None:
            syn, packed = 0, 0
            for j, x in enumerate(evars):
                syn = syn ^ _mat_apply(acols[10 * j:10 * j + 10], x)
                packed = packed | (x << (10 * j))
            sv = SI.var(f"syndrome{len(state['named'])}", 0, (1 << 30) - 1)
            assume(sv == syn)
            ninv = _gf2_left_inverse(acols) if len(acols) <= 30 else None
            if ninv is not None:
                lemma = _mat_apply(ninv, sv) == packed
                if check(lemma, "certificate: the error symbols are not the harness's linear function of the syndrome", witness=wit, fresh=True,
                         timeout_ms=120000):
                    assume(lemma)
                    state["certified"] += 1
            state["named"][key] = sv
        return sv ^ c0
    return polymod


def _parse_detect_path(nwords, ps):
    """base: EVERY well-formed share of nwords words (all header / value words symbolic, padding zero, threshold <= count, the three
    checksum words computed from them by the reference polynomial); corrupted: the base with symbolic differences e_j xor-ed into
    the words at positions ps.  The real Share.parse (real word lookup methods over the handle list, real rs1024_verify_checksum /
    rs1024_polymod) runs on the corrupted words: it may return only when every e_j is 0."""
    from symx import anf
    sh, S = mods()
    hs = install_handles()
    sp = anf.Space(opaque=False)
    nd = nwords - 3
    nbits = (nwords - 7) * 10 // 16 * 16
    pad = (nwords - 7) * 10 - nbits
    data = [SI.var(f"w[{k}]", 0, (1023 >> pad) if k == 4 else 1023) for k in range(nd)]      # word 4 carries the (zero) padding bits
    es = [SI.var(f"e{j}", 0, 1023) for j in range(len(ps))]

    def wit(env):
        return {"kind": "parse", "nwords": nwords, "data": [env[f"w[{k}]"] for k in range(nd)], "positions": list(ps),
                "errors": [env[f"e{j}"] for j in range(len(ps))], "customizations": [bytes(c).decode("latin1") for c in state["calls"]]}
    state = {"calls": [], "named": {}, "certified": 0}
    gt = ((data[2] >> 2) & 15) + 1
    gc = (((data[2] & 3) << 2) | (data[3] >> 8)) + 1
    assume(gt <= gc)
    pm = anf.normalize(spec_rs_fold(list(CS) + data + [0, 0, 0]), 30, sp) ^ 1
    base = data + [(pm >> (10 * (2 - i))) & 1023 for i in range(3)]
    cor = list(base)
    for p, e in zip(ps, es):
        cor[p] = cor[p] ^ e
    text = " ".join(hs.token(i) for i in cor)
    ite0 = sh.__dict__["__sx_ite__"]
    sh.__dict__["__sx_ite__"] = _plain_ite
    sh.rs1024_polymod = _detect_seam(sp, es, state, wit)
    try:
        try:
            share = sh.Share.parse(text)
        except Exception as ex:
            check(True, "rejected")
            return "rejected:" + type(ex).__name__
    finally:
        sh.rs1024_polymod = _STATE["real_polymod"]
        sh.__dict__["__sx_ite__"] = ite0
    check(s_and(*[e == 0 for e in es]), f"Share.parse accepts a well-formed {nwords}-word share with substituted words at positions {list(ps)}",
          witness=wit, timeout_ms=120000)
    check(share.share_bit_length == nbits, "share length", witness=wit)
    return "accepted"


def _detect_sets(nwords, weight, sample, seed):
    """position sets: always the checksum words, the header words, a burst in the value, one word of each region; then sampled ones"""
    n = nwords
    fixed = [(n - 3, n - 2, n - 1), (0, 1, 2), (1, 2, 3), (6, 7, 8), (0, 4, n - 1), (3, n // 2, n - 2), (4, 5, n - 3)]
    fixed = [tuple(sorted(set(t)))[:weight] for t in fixed]
    allsets = list(itertools.combinations(range(n), weight))
    if sample is None or sample >= len(allsets):
        return allsets
    rng = _random.Random(seed)
    out = []
    for t in fixed + rng.sample(allsets, len(allsets)):
        if len(t) == weight and t not in out:
            out.append(t)
        if len(out) >= sample:
            break
    return out


def _selfcheck_seam(nwords, ps):
    """the seam's normal form against the native function on random concrete words"""
    from symx import anf
    nat = loader.native("shamir")
    rng = _random.Random(nwords * 31 + sum(ps))
    for cs in (CS, b"x", b""):
        def f():
            sp = anf.Space(opaque=False)
            es = [SI.var(f"e{j}", 0, 1023) for j in range(len(ps))]
            st = {"calls": [], "named": {}, "certified": 0}
            words = [rng.randrange(1024) for _ in range(nwords)]
            cor = list(words)
            for p, e in zip(ps, es):
                cor[p] = cor[p] ^ e
            sh = _STATE["sh"]
            ite0 = sh.__dict__["__sx_ite__"]
            sh.__dict__["__sx_ite__"] = _plain_ite
            try:
                r = _detect_seam(sp, es, st, None)(list(cs) + cor)
            finally:
                sh.__dict__["__sx_ite__"] = ite0
            for _ in range(4):
                vals = [rng.randrange(1024) for _ in ps]
                conc = list(words)
                for p, v in zip(ps, vals):
                    conc[p] ^= v
                env = {f"e{j}": v for j, v in enumerate(vals)}
                want = nat.rs1024_polymod(list(cs) + conc)
                check(s_implies(s_and(*[e == v for e, v in zip(es, vals)]), r == want), "seam self-check: normal form differs from the native "
                      "rs1024_polymod", witness=lambda env_, conc=conc, cs=cs: {"kind": "seam", "values": list(cs) + conc})
            return "ok"
        c, out = core.explore(f)
        if c.violations or c.inconclusive or not out:
            raise RuntimeError(f"parse-detect seam disagrees with the native rs1024_polymod: {c.violations[:1]} {c.inconclusive[:1]}")


@_with_mods
def ob_parse_detect(nwords, weight, chunk, nchunks, sample=None):
    sets = _detect_sets(nwords, weight, sample, nwords * 13 + weight)[chunk::nchunks]
    if sets:
        _selfcheck_seam(nwords, sets[0])
    runs = [sym_run(lambda: _parse_detect_path(nwords, ps), expect_classes=["accepted", "rejected:ValueError"], timeout_ms=120000, max_violations=4)
            for ps in sets]
    r = merge_runs(runs)
    r["sample"] = {"words": nwords, "base share": "every header and value word symbolic (padding zero, threshold <= count), checksum words from the "
                                                  "reference polynomial", "positions per set": weight, "sets": len(sets), "of": _comb(nwords, weight),
                   "first sets": [list(s) for s in sets[:8]], "errors": "symbolic 10-bit differences (every pattern on the set, sub-patterns included)"}
    return r


def replay_parse_detect(w):
    """native Share.parse on a well-formed share (reference checksum over the witness's header / value words) and on the same words
    with the witness's substitutions: violated when the substituted sequence (1..3 words differ) is accepted"""
    from buidl.shamir import Share
    if w.get("kind") != "parse":
        return {"violated": False, "observed": "harness self-check witness"}
    nwords, data, ps, es = w["nwords"], list(w["data"]), w["positions"], w["errors"]
    words = _real_words()
    base = data + spec_checksum(data)
    nbits = (nwords - 7) * 10 // 16 * 16
    value = 0
    for i in base[4:-3]:
        value = (value << 10) | i
    gt = ((base[2] >> 2) & 15) + 1
    gc = (((base[2] & 3) << 2) | (base[3] >> 8)) + 1
    wellformed = len(base) == nwords and spec_rs1024_polymod(list(CS) + base) == 1 and (value >> nbits) == 0 and gt <= gc and nbits >= 128
    if not wellformed:
        return {"violated": False, "observed": "the base of the witness is not a well-formed share"}
    try:
        Share.parse(_words_of(base, None, words))
    except Exception as ex:
        return {"violated": False, "observed": f"the well-formed base share is itself refused ({ex!r}): subject of O4-decode"}
    bad = list(base)
    for p, e in zip(ps, es):
        bad[p] ^= e
    changed = [k for k in range(nwords) if bad[k] != base[k]]
    if not 1 <= len(changed) <= 3:
        return {"violated": False, "observed": f"{len(changed)} words differ"}
    text = _words_of(bad, None, words)
    try:
        s = Share.parse(text)
    except Exception as ex:
        return {"violated": False, "observed": f"rejected: {ex!r}"}
    cws = [c for c in (w.get("customizations") or [])]
    return {"violated": True, "observed": f"Share.parse accepts {text!r}, which differs from the well-formed share {_words_of(base, None, words)!r} in the "
                                          f"{len(changed)} word(s) at positions {changed} (parsed value {s.value:#x}, base value {value:#x}; checksum "
                                          f"prefixes the parser tried: {cws})"}


# ---- share mnemonic codec (handle word list, checksum polynomial composed from the lemmas above)

def _real_words():
    with open(os.path.join(_repo(), "buidl", "slip39_words.txt")) as f:
        return f.read().split()


def _sym_fields(prefix=""):
    return {name: SI.var(f"{prefix}{name}", lo, hi) for name, lo, hi in FIELDS}


def _env_fields(env, prefix=""):
    return {name: env[f"{prefix}{name}"] for name, _, _ in FIELDS}


def _share_fields_eq(share, f, value, nbits):
    return s_and(share.id == f["id"], share.exponent == f["exponent"], share.group_index == f["gi"], share.group_threshold == f["gt"],
                 share.group_count == f["gc"], share.member_index == f["mi"], share.member_threshold == f["mt"], share.value == value,
                 share.share_bit_length == nbits)


def _encode_path(nbits, pattern):
    sh, S = mods()
    hs = install_handles()
    use_polymod("fold")
    f = _sym_fields()
    value = SI.var("value", 0, (1 << nbits) - 1)
    wit = lambda env: {"kind": "encode", "bits": nbits, "fields": _env_fields(env), "value": hex(env["value"]), "pattern": pattern}  # noqa
    try:
        share = sh.Share(nbits, f["id"], f["exponent"], f["gi"], f["gt"], f["gc"], f["mi"], f["mt"], value)
    except ValueError:
        check(f["gt"] > f["gc"], "Share() refuses header fields that are in range", witness=wit)
        return "share-invalid"
    text = share.mnemonic()
    toks = text.split(" ")
    want = spec_pack(f, value, nbits)
    if not check(len(toks) == len(want) + 3 and all(hs.kind.get(t) == "full" for t in toks), "mnemonic(): word count / tokens", witness=wit):
        return "shape"
    got = [hs.index[t] for t in toks]
    check(s_and(*[a == b for a, b in zip(got, want)]), "mnemonic(): word indices differ from the SLIP39 share layout", witness=wit)
    cs_want = fold_polymod(list(CS) + want + [0, 0, 0]) ^ 1
    check(_pack3(got[-3:]) == cs_want, "mnemonic(): the last three words are not polymod(shamir + data + 000) ^ 1", witness=wit)
    forms = [("prefix" if (pattern == "prefix" or (pattern == "alternating" and k % 2)) else "full") for k in range(len(toks))]
    text2 = " ".join(hs.token(i, fm) for i, fm in zip(got, forms))
    try:
        back = sh.Share.parse(text2)
    except Exception as ex:
        check(False, f"parse(mnemonic(share)) raised {type(ex).__name__}: {ex}", witness=wit)
        return "parse-error"
    check(_share_fields_eq(back, f, value, nbits), "parse(mnemonic(share)) differs from the share", witness=wit)
    check((len(back.bytes) == nbits // 8) and (back.bytes == share.bytes), "parse(mnemonic(share)).bytes", witness=wit)
    return "ok"


@_with_mods
def ob_encode(nbits, patterns):
    runs = [sym_run(lambda: _encode_path(nbits, pt), expect_classes=["ok", "share-invalid"], timeout_ms=60000) for pt in patterns]
    m = merge_runs(runs)
    m["sample"] = {"bits": nbits, "fields": "id, exponent, group index/threshold/count, member index/threshold, value: all symbolic",
                   "word forms on the way back": list(patterns)}
    return m


def _words_of(indices, forms=None, words=None):
    words = words or _real_words()
    return " ".join("zzzzzz" if (forms is not None and forms[k] == "unknown") else
                    (words[i] if (forms is None or forms[k] == "full") else words[i][:4]) for k, i in enumerate(indices))


def replay_encode(w):
    from buidl.shamir import Share
    f, nbits, value = w["fields"], w["bits"], int(w["value"], 16)
    words = _real_words()
    try:
        share = Share(nbits, f["id"], f["exponent"], f["gi"], f["gt"], f["gc"], f["mi"], f["mt"], value)
    except ValueError as ex:
        return {"violated": f["gt"] <= f["gc"], "observed": f"Share({f}) raised {ex!r}"}
    data = spec_pack(f, value, nbits)
    want = _words_of(data + spec_checksum(data), None, words)
    text = share.mnemonic()
    if text != want:
        return {"violated": True, "observed": f"mnemonic() = {text!r}; SLIP39 layout + RS1024: {want!r}"}
    n = len(data) + 3
    for pattern in ("full", "prefix", "alternating"):
        forms = [("prefix" if (pattern == "prefix" or (pattern == "alternating" and k % 2)) else "full") for k in range(n)]
        t2 = _words_of(data + spec_checksum(data), forms, words)
        try:
            b = Share.parse(t2)
        except Exception as ex:
            return {"violated": True, "observed": f"parse({t2!r}) raised {ex!r}"}
        got = {"id": b.id, "exponent": b.exponent, "gi": b.group_index, "gt": b.group_threshold, "gc": b.group_count, "mi": b.member_index,
               "mt": b.member_threshold}
        if got != f or b.value != value or b.share_bit_length != nbits or b.bytes != value.to_bytes(nbits // 8, "big"):
            return {"violated": True, "observed": f"parse(mnemonic({f}, value {value:#x})) gives {got}, value {b.value:#x}, {b.share_bit_length} bits"}
    return {"violated": False, "observed": "agrees"}


def _decode_path(nwords, pattern):
    """every sequence of nwords list words: accepted exactly when the checksum matches, the padding bits are zero and the
    group threshold does not exceed the group count; what is accepted re-encodes to the same words"""
    sh, S = mods()
    hs = install_handles()
    use_polymod("fold")
    idx = [SI.var(f"w[{k}]", 0, 1023) for k in range(nwords)]
    forms = [("prefix" if (pattern == "prefix" or (pattern == "alternating" and k % 2)) else "full") for k in range(nwords)]
    text = " ".join(hs.token(i, fm) for i, fm in zip(idx, forms))
    chk_ok = fold_polymod(list(CS) + idx) == 1

    def wit(env):
        return {"kind": "decode", "indices": [env[f"w[{k}]"] for k in range(nwords)], "forms": forms, "chk_valid": _model_true(chk_ok)}
    nbits = (nwords - 7) * 10 // 16 * 16
    pad = (nwords - 7) * 10 - nbits
    value = 0
    for i in idx[4:-3]:
        value = (value << 10) | i
    pad_ok = (value >> nbits) == 0
    gt = ((idx[2] >> 2) & 15) + 1
    gc = (((idx[2] & 3) << 2) | (idx[3] >> 8)) + 1
    try:
        share = sh.Share.parse(text)
    except (ValueError, SyntaxError) as ex:
        check(s_not(s_and(chk_ok, pad_ok, gt <= gc)), f"parse refuses ({type(ex).__name__}: {ex}) a well-formed {nwords}-word share", witness=wit)
        return "refused:" + type(ex).__name__
    check(s_and(chk_ok, pad_ok, gt <= gc), "parse accepts a word sequence with a wrong checksum / non-zero padding / threshold above count", witness=wit)
    check(share.share_bit_length == nbits and pad == 10 - nbits % 10, "share length", witness=wit)
    text2 = share.mnemonic()
    toks = text2.split(" ")
    if not check(len(toks) == nwords and all(hs.kind.get(t) == "full" for t in toks), "mnemonic(parse(m)): word count", witness=wit):
        return "shape"
    check(s_and(*[hs.index[t] == i for t, i in zip(toks, idx)]), "mnemonic(parse(m)) differs from m", witness=wit)
    return "accepted"


def _model_true(cond):
    """truth value of a condition in the current model (witness construction)"""
    c = core.ctx()
    if isinstance(cond, bool):
        return cond
    try:
        return bool(core.model_bool(c.model, cond.n, c.mode))
    except Exception:
        return None


def _unknown_word_path(nwords, pos):
    sh, S = mods()
    hs = install_handles()
    use_polymod("fold")
    idx = [SI.var(f"w[{k}]", 0, 1023) for k in range(nwords)]
    toks = [("zzzzzz" if k == pos else hs.token(i)) for k, i in enumerate(idx)]
    try:
        sh.Share.parse(" ".join(toks))
    except Exception as ex:
        check(True, "refused")
        return type(ex).__name__
    check(False, "a share mnemonic containing a word outside the list is accepted",
          witness=lambda env: {"kind": "decode", "indices": [env[f"w[{k}]"] for k in range(nwords)], "forms": ["unknown" if k == pos else "full" for k in range(nwords)],
                               "chk_valid": False})
    return "accepted"


@_with_mods
def ob_decode(nwords, patterns):
    runs = [sym_run(lambda: _decode_path(nwords, pt), expect_classes=["accepted", "refused:ValueError"], timeout_ms=60000) for pt in patterns]
    runs += [sym_run(lambda: _unknown_word_path(nwords, pos), expect_classes=["KeyError"]) for pos in (0, 4, nwords - 1)]
    m = merge_runs(runs)
    m["sample"] = {"words": nwords, "indices": "all symbolic in [0,1024)", "forms": list(patterns)}
    return m


def replay_decode(w):
    """the witness's checksum words refer to the composed polynomial: when the model had a valid checksum they are recomputed with the
    reference RS1024 before the native functions run"""
    from buidl.shamir import Share
    idx, forms = list(w["indices"]), w["forms"]
    words = _real_words()
    cands = [idx]
    if w.get("chk_valid") is not False:
        cands.append(idx[:-3] + spec_checksum(idx[:-3]))
    last = None
    for c in cands:
        nwords = len(c)
        nbits = (nwords - 7) * 10 // 16 * 16
        value = 0
        for i in c[4:-3]:
            value = (value << 10) | i
        gt = ((c[2] >> 2) & 15) + 1
        gc = (((c[2] & 3) << 2) | (c[3] >> 8)) + 1
        good = spec_rs1024_polymod(list(CS) + c) == 1 and (value >> nbits) == 0 and gt <= gc and nbits >= 128 and "unknown" not in forms
        text = _words_of(c, forms, words)
        try:
            share = Share.parse(text)
        except Exception as ex:
            if good:
                return {"violated": True, "observed": f"parse({text!r}) raised {ex!r} on a well-formed share"}
            last = f"refused {ex!r}"
            continue
        if not good:
            return {"violated": True, "observed": f"parse({text!r}) accepts a malformed share (checksum ok: {spec_rs1024_polymod(list(CS) + c) == 1}, "
                                                  f"padding ok: {(value >> nbits) == 0}, threshold {gt} of {gc})"}
        again = share.mnemonic()
        if again != _words_of(c, None, words):
            return {"violated": True, "observed": f"mnemonic(parse(m)) = {again!r} != {_words_of(c, None, words)!r}"}
        last = "round trip ok"
    return {"violated": False, "observed": last}


# =============================================================================================== O6 generate_shares -> recover_mnemonic (wiring)

class _Bip39Token:
    """what the BIP39 seam hands out for bytes_to_mnemonic(b, nbits)"""

    def __init__(self, b, nbits):
        self.b, self.nbits = b, nbits


def _wiring_path(nb, k, n, subsets, lp, e):
    sh, S = mods()
    install_handles()
    use_polymod("fold")
    GF_REWRITE[0] = True
    secret = SBytes.sym("s", nb)
    pw = SBytes.sym("pw", lp) if lp else b""
    drawn = _rand_env()
    seen = {}

    def wit(env, subset=None):
        return {"secret": bytes_env(env, "s", nb).hex(), "pw": bytes_env(env, "pw", lp).hex(), "k": k, "n": n, "e": e,
                "rnd": [env[f"r[{i}]"] for i in range(len(drawn))], "subset": list(subset) if subset is not None else None}
    # seams: the BIP39 codec (C14's subject)
    sh.mnemonic_to_bytes = lambda m: (seen.setdefault("in", m), secret)[1]
    sh.bytes_to_mnemonic = lambda b, nbits: _Bip39Token(b, nbits)
    real_split = _STATE["real_split_secret"].__func__
    real_interp = _STATE["real_interpolate"].__func__
    rec = {}

    def split(cls, payload, kk, nn):
        rec["payload"] = payload
        out = real_split(cls, payload, kk, nn)
        rec["shares"] = out
        return out

    def interp(cls, x, share_data):
        r = real_interp(cls, x, share_data)
        e_ = rec.get("expected", {}).get(x)
        if e_ is not None and len(r) == len(e_):
            if check(_bytes_all_eq(r, e_), f"recover: interpolate({x}) over the parsed shares does not give back the "
                                           f"{'encrypted secret' if x == SECRET_X else 'digest share'}",
                     witness=lambda env: wit(env, rec.get("subset")), fresh=True, timeout_ms=120000):
                return e_
        return r
    S.split_secret = classmethod(split)
    try:
        try:
            texts = S.generate_shares("bip39 words", k, n, passphrase=pw, exponent=e)
        except Exception as ex:
            check(False, f"generate_shares({k} of {n}) raised {type(ex).__name__}: {ex}", witness=wit)
            return "generate-error"
        check(seen.get("in") == "bip39 words", "generate_shares does not decode the mnemonic it was given", witness=wit)
        if not check(drawn and drawn[0][0] == 15, "identifier: 15 random bits drawn first", witness=wit):
            return "shape"
        if not check(len(texts) == (n if k > 1 else 1), f"generate_shares({k} of {n}) returns {len(texts)} mnemonics", witness=wit):
            return "shape"
        payload = rec["payload"]
        if k > 1:
            R = [v for _, v in drawn[1:1 + nb - 4]]
            dshare = list(_sym_hmac(R, payload))[:4] + R
            rec["expected"] = {SECRET_X: payload, DIGEST_X: norm(SBytes(dshare))}
        S.interpolate = classmethod(interp)
        for sub in (subsets if k > 1 else [(0,)]):
            rec["subset"] = sub
            try:
                out = S.recover_mnemonic([texts[i] for i in sub], pw)
            except Exception as ex:
                check(False, f"recover_mnemonic(shares {list(sub)} of a {k}-of-{n} split) raised {type(ex).__name__}: {ex}",
                      witness=lambda env: wit(env, sub))
                continue
            ok = isinstance(out, _Bip39Token) and out.nbits == 8 * nb and len(out.b) == nb
            check(ok and (out.b == secret), f"recover_mnemonic(shares {list(sub)}) does not re-encode the original secret",
                  witness=lambda env: wit(env, sub), fresh=True, timeout_ms=120000)
        # history on one ShareSet object: asked first with another passphrase (2 symbolic bytes; the real one has 0 or 3), then with
        # the real one -- the second answer is the secret
        sub = subsets[0] if k > 1 else (0,)
        rec["subset"] = sub
        pw2 = SBytes.sym("pw2", 2)
        wit2 = lambda env: dict(wit(env, sub), pw2=bytes_env(env, "pw2", 2).hex())  # noqa
        try:
            sset = S([sh.Share.parse(texts[i]) for i in sub])
            try:
                sset.recover(pw2)
            except Exception:
                pass
            out2 = sset.recover(pw)
            check((len(out2) == nb) and (out2 == secret), "ShareSet.recover(passphrase) on an object first asked with another passphrase does not "
                  "return the secret", witness=wit2, fresh=True, timeout_ms=120000)
        except Exception as ex:
            check(False, f"ShareSet.recover on one object, second passphrase: raised {type(ex).__name__}: {ex}", witness=wit2)
    finally:
        S.split_secret = _STATE["real_split_secret"]
        S.interpolate = _STATE["real_interpolate"]
        sh.mnemonic_to_bytes = _STATE["real_m2b"]
        sh.bytes_to_mnemonic = _STATE["real_b2m"]
    return "ok"


@_with_mods
def ob_wiring(nb, k, n, lp, e, limit=None):
    rng = _random.Random(77 * k + n)
    subsets = _subsets(n, k, limit, rng) if k >= 2 else []
    r = sym_run(lambda: _wiring_path(nb, k, n, subsets, lp, e), expect_classes=["ok"], timeout_ms=120000, max_violations=12)
    r["sample"] = {"secret_bytes": nb, "k": k, "n": n, "subsets": len(subsets), "passphrase_bytes": lp, "exponent": e,
                   "symbolic": "secret, passphrase, identifier, all random bytes"}
    return r


def replay_wiring(w):
    """native generate_shares / recover_mnemonic with the recorded randomness, a real BIP39 mnemonic of the secret"""
    import buidl.shamir as shamir
    from buidl.mnemonic import bytes_to_mnemonic
    secret, pw, k, n, e = bytes.fromhex(w["secret"]), bytes.fromhex(w["pw"]), w["k"], w["n"], w["e"]
    m = bytes_to_mnemonic(secret, 8 * len(secret))
    it = iter(w["rnd"])
    orig = shamir.randbits
    shamir.randbits = lambda bits: next(it)
    try:
        try:
            texts = shamir.ShareSet.generate_shares(m, k, n, passphrase=pw, exponent=e)
        except Exception as ex:
            return {"violated": True, "observed": f"generate_shares({m!r}, {k}, {n}) raised {ex!r}"}
    finally:
        shamir.randbits = orig
    if len(texts) != (n if k > 1 else 1):
        return {"violated": True, "observed": f"generate_shares({k} of {n}) returned {len(texts)} mnemonics"}
    subs = [tuple(w["subset"])] if w.get("subset") else (_subsets(n, k) if k > 1 else [(0,)])
    for sub in subs:
        try:
            out = shamir.ShareSet.recover_mnemonic([texts[i] for i in sub], pw)
        except Exception as ex:
            return {"violated": True, "observed": f"recover_mnemonic(shares {list(sub)} of {k}-of-{n}, secret {secret.hex()}) raised {ex!r}"}
        if out != m:
            return {"violated": True, "observed": f"recover_mnemonic(shares {list(sub)}) = {out!r} != {m!r}"}
    if "pw2" in w:
        sub = subs[0]
        # (HMAC pads its key with zero bytes, so a passphrase that differs from the real one only by trailing NULs is the same
        # key for the real PBKDF2 although it is another argument of the uninterpreted one: further members of the class are tried)
        for pw2 in (bytes.fromhex(w["pw2"]), b"\x01\x02", b"wrong passphrase"):
            sset = shamir.ShareSet([shamir.Share.parse(texts[i]) for i in sub])
            try:
                first = sset.recover(pw2)
            except Exception as ex:
                first = repr(ex)
            try:
                second = sset.recover(pw)
            except Exception as ex:
                return {"violated": True, "observed": f"one ShareSet object: recover({pw2!r}) -> {first!r}, then recover({pw!r}) raised {ex!r}"}
            if second != secret:
                return {"violated": True, "observed": f"one ShareSet object: recover({pw2!r}) -> {first.hex() if isinstance(first, bytes) else first}, then "
                                                      f"recover({pw!r}) -> {second.hex()} instead of the secret {secret.hex()}"}
    return {"violated": False, "observed": "agrees"}


# =============================================================================================== O0 word list facts (concrete, trusted base of the handles)

def _wordlist_facts():
    words = _real_words()
    problems = []
    if len(words) != 1024:
        problems.append(f"{len(words)} words")
    if len(set(words)) != len(words):
        problems.append("duplicate words")
    if words != sorted(words):
        problems.append("not sorted")
    if not all(w.isascii() and w.isalpha() and w == w.lower() and 4 <= len(w) <= 8 for w in words):
        problems.append("a word is not 4..8 lower-case ASCII letters")
    if len({w[:4] for w in words}) != len(words):
        problems.append("four-letter prefixes are not unique")
    expected = {}
    for i, w in enumerate(words):
        expected[w] = i
        expected[w[:4]] = i
    sh = loader.native("shamir")
    wl = sh.SLIP39
    if list(wl.words) != words or dict(wl.lookup) != expected:
        problems.append("SLIP39.words / SLIP39.lookup is not exactly {word: i, word[:4]: i}")
    for i, w in enumerate(words):
        if not (wl[w] == i and wl[w[:4]] == i and wl[i] == w):
            problems.append(f"lookup of word {i}")
            break
    real = _STATE.get("real_slip39")
    if real is not None and (list(real.words) != words or dict(real.lookup) != expected):
        problems.append("the shimmed module's SLIP39 differs")
    return (not problems), ("1024 sorted unique words of 4..8 letters, unique 4-letter prefixes, prefix lookup == full lookup"
                            if not problems else "; ".join(problems[:5]))


@_with_mods
def ob_wordlist():
    mods()
    return conc_run(_wordlist_facts, "SLIP39 word list: 1024 words, unique four-letter prefixes, WordList prefix lookup agrees with full-word "
                                     "lookup (the facts the handle model assumes)")


# =============================================================================================== registry

def obligations(tier):
    q = tier == "quick"
    obs = [Ob("O0-wordlist", ob_wordlist)]
    # O1
    for lo, hi in ((1, 63), (64, 127), (128, 191), (192, 255)):
        obs.append(Ob("O1-tables-mul", ob_tables_mul, {"lo": lo, "hi": hi}, replay="tables", budget_s=900))
    obs.append(Ob("O1-tables-inverse", ob_tables_inverse, replay="tables"))
    # O2
    for lo in range(0, 255, 32):
        obs.append(Ob("O2-lemma", ob_lemma, {"lo": lo, "hi": min(lo + 32, 255)}, replay="tables"))
    if q:
        kn = [(16, 1, 1, None), (16, 2, 2, None), (16, 2, 3, None), (16, 3, 3, None), (16, 3, 5, None), (32, 1, 1, None), (32, 2, 3, None),
              (32, 3, 3, None)]
        for nb, k, n, lim in kn:
            obs.append(Ob("O2-split-recover", ob_split_recover, {"nb": nb, "k": k, "n": n, "limit": lim}, replay="split_recover"))
    else:
        for nb in (16, 32):
            for n in range(1, 6):
                for k in range(1, n + 1):
                    obs.append(Ob("O2-split-recover", ob_split_recover, {"nb": nb, "k": k, "n": n}, replay="split_recover", budget_s=1800))
            for k in range(6, 17):
                obs.append(Ob("O2-split-recover", ob_split_recover, {"nb": nb, "k": k, "n": k}, replay="split_recover", budget_s=1800))
            for k, n in ((1, 16), (2, 16), (5, 16), (9, 16), (15, 16), (2, 8), (7, 10), (13, 15)):
                obs.append(Ob("O2-split-recover", ob_split_recover, {"nb": nb, "k": k, "n": n, "limit": 12}, replay="split_recover", budget_s=1800))
    # O3
    shapes = [(), ((None, 128),), ((None, 256),), ((None, 128), (2, 128)), ((0, 128), (1, 256)), ((3, 256), (3, 128)),
              ((0, 128), (1, 128), (None, 128)), ((2, 256), (2, 256), (None, 256)), ((0, 128), (0, 128), (1, 128), (1, 128)),
              ((0, 128), (1, 128), (2, 128), (3, 128)), ((0, 256), (1, 256), (2, 256), (3, 256), (4, 256))]
    if not q:
        shapes += [((None, 128), (None, 128)), ((None, 256), (None, 256)), ((None, 128), (None, 128), (5, 128)), ((0, 128), (0, 128), (0, 128), (None, 128)),
                   ((0, 128), (1, 128), (2, 128), (3, 128), (4, 128), (5, 128)), ((7, 128), (7, 128), (7, 128), (9, 128), (9, 128), (15, 128)),
                   ((None, 256), (4, 256), (None, 256))]
    for shp in shapes:
        obs.append(Ob("O3-refusal", ob_refusal, {"shape": shp}, replay="refusal", budget_s=600 if q else 3000))
    dig = [(16, (0, 1), "group", 2), (16, (3, 9), "member", 2), (16, (0, 1, 2), "group", 3), (16, (2, 7, 15), "member", 3)]
    if not q:
        dig += [(32, (2, 7, 15), "member", 3), (32, (0, 1), "group", 2), (32, (5, 6), "member", 2), (16, (1, 4, 11), "member", 3), (32, (0, 8, 15), "group", 3),
                (16, (0, 1, 2), "group", 2), (16, (0, 1, 2, 3), "group", 4), (16, (0, 5, 6, 10), "member", 4), (32, (0, 1, 2, 3, 4), "group", 5)]
    for nb, xs, level, th in dig:
        obs.append(Ob("O3-digest-enforced", ob_digest_enforced, {"nb": nb, "xs": xs, "level": level, "threshold": th}, replay="digest"))
    # O4
    obs.append(Ob("O4-rs-step", ob_rs_step, replay="rs"))
    obs.append(Ob("O4-rs-fold", ob_rs_fold, {"maxk": 2 if q else 3, "maxaff": 1 if q else 2}, replay="rs", budget_s=1200))
    for nwords, step in ((20, 4), (33, 3)):
        for lo in range(0, nwords, step):
            obs.append(Ob("O4-rs-positions", ob_rs_positions, {"nwords": nwords, "lo": lo, "hi": min(lo + step, nwords)}, replay="rs_detect",
                          budget_s=900))
    if q:
        for nwords in (20, 33):
            for weight in (2, 3):
                for ch in range(2):
                    obs.append(Ob("O4-rs-detect", ob_rs_detect, {"nwords": nwords, "weight": weight, "chunk": ch, "nchunks": 2, "sample": 16},
                                  replay="rs_detect"))
    else:
        for nwords, nch in ((20, 24), (33, 96)):
            for ch in range(nch):
                obs.append(Ob("O4-rs-detect", ob_rs_detect, {"nwords": nwords, "weight": 3, "chunk": ch, "nchunks": nch}, replay="rs_detect",
                              budget_s=2400))
    # the acceptance predicate of the real Share.parse on corrupted well-formed shares (base share symbolic)
    for nwords, nch, smp in (((20, 2, 24), (33, 2, 24)) if q else ((20, 16, None), (33, 64, None))):
        for ch in range(nch):
            obs.append(Ob("O4-parse-detect", ob_parse_detect, {"nwords": nwords, "weight": 3, "chunk": ch, "nchunks": nch, "sample": smp},
                          replay="parse_detect", budget_s=600 if q else 2400))
    pats = ("full", "alternating") if q else ("full", "prefix", "alternating")
    for nbits in (128, 256):
        obs.append(Ob("O4-encode", ob_encode, {"nbits": nbits, "patterns": pats}, replay="encode"))
    for nwords in (20, 33):
        obs.append(Ob("O4-decode", ob_decode, {"nwords": nwords, "patterns": pats}, replay="decode"))
    # O5
    for nb in (16, 32):
        obs.append(Ob("O5-feistel-short", ob_feistel, {"nb": nb, "lps": (0, 1, 2), "exps": (0, 1, 2), "max_paths": 2000, "wall_s": 300},
                      replay="feistel"))
        obs.append(Ob("O5-feistel-long", ob_feistel, {"nb": nb, "lps": (6, 40) if q else (6, 13, 40, 100), "exps": (0, 1, 2)}, replay="feistel"))
    # O6
    wiring = [(16, 1, 1, 0, 0, None), (16, 2, 3, 3, 1, None)] if q else \
        [(16, 1, 1, 0, 0, None), (32, 1, 3, 4, 2, None), (16, 2, 2, 0, 0, None), (16, 2, 3, 3, 1, None), (32, 2, 3, 6, 2, None),
         (16, 3, 5, 5, 0, 6), (32, 3, 5, 5, 2, 6), (16, 5, 5, 9, 1, None), (16, 2, 8, 1, 2, 4)]
    for nb, k, n, lp, e, lim in wiring:
        obs.append(Ob("O6-wiring", ob_wiring, {"nb": nb, "k": k, "n": n, "lp": lp, "e": e, "limit": lim}, replay="wiring", budget_s=1200 if q else 3000))
    return obs
