"""C19 — P2P framing and primitive wire codecs (DESIGN.md section 3, C19).

Oracle: the Bitcoin P2P wire layout (protocol documentation / BIP157) written here as spec_* / layout functions over
values that may be symbolic proxies or plain Python ints/bytes (the replays run the same functions on plain values).
"""
import hashlib

from symx import core, loader, shims
from symx.core import SI, SBytes, check, s_and, s_not, norm, assume, bytes_env, Out, conc_value, concretize
from vlib.run import Ob, sym_run, merge_runs

PROPERTY = "C19"

META = {
    "bounds": {
        "quick": {"envelope round trip": "each of the 4 networks x command of 0..12 symbolic non-NUL bytes x symbolic payload of length {0,1,2,70}",
                  "envelope rejection": "each network; stream = 4 arbitrary magic bytes | command | arbitrary 32-bit length field | checksum | k payload "
                                        "bytes present, k in {0,1,2,3,70}; checksum either the checksum of the bytes the reader can see or any other 4 bytes",
                  "fixed-width ints": "widths 1,2,4,8,32, little and big endian: every integer in [0, 256^w + 5] (encode, overflow refusal) and every "
                                      "w-byte string (decode, re-encode)",
                  "varint": "every integer in [0, 2^64+5]; every 9-byte stream prefix (decode direction)",
                  "varstr": "symbolic strings of length {0,1,2,252,253,254}",
                  "messages": "every field symbolic over its full unsigned width: version (user agent length {0,1,27,252,253}, relay both), verack, "
                              "ping, pong, getheaders, headers (0..3 headers), getdata (0..3 items), 80-byte block header, getcfilters, "
                              "cfilter (filter bytes length {1,2,252,253} with the GCS decoder stubbed; one concrete BIP158 filter with the real "
                              "decoder), getcfheaders, cfheaders (0..3 hashes), getcfcheckpt, cfcheckpt (0..3 headers); VersionMessage() "
                              "defaults with the clock and the RNG returning any value of their range"},
        "thorough": {"envelope round trip": "payload lengths {0,1,2,70,252,253,1000,65535,65536,100000}",
                     "envelope rejection": "k in {0,1,2,3,4,70,253,300}",
                     "fixed-width ints": "same", "varint": "same", "varstr": "lengths {0,1,2,252,253,254,65535,65536,70000}",
                     "messages": "user agent lengths add {65535,65536}; headers / getdata / cfheaders / cfcheckpt counts add {252,253}; "
                                 "cfilter filter lengths add {65535,65536}"}},
    "outside": ["sockets, SimpleNode, GenericMessage",
                "envelope commands are restricted to non-NUL bytes: a command containing NUL bytes cannot round-trip through NUL padding in any "
                "implementation (parse strips leading and trailing NULs)",
                "commands longer than 12 bytes and payloads >= 2^32 bytes",
                "corruption of payload bytes (or a length field corrupted downwards) is detected only through the 4-byte checksum; rejecting it "
                "needs collision freedom of a 32-bit truncated hash, which does not hold: not claimed",
                "signed fields (version, timestamp, start height) are exercised over the non-negative range of their width only",
                "GetHeadersMessage carries exactly one locator hash; the layout compared is version | compact-size(num_hashes) | start | stop "
                "for every num_hashes value, but only num_hashes == 1 is a well-formed protocol message",
                "parse-only classes (headers, cfilter, cfheaders, cfcheckpt) have no serialiser: the obligation is parse(layout(fields)) == fields",
                "hash fields: block hashes are held in display order and reversed on the wire (as the Get* serialisers do); filter hashes / "
                "filter headers are held in wire order (the order BIP157 chains them in)",
                "truncated *header* regions of an envelope (fewer than 24 bytes): only the payload region is covered by the property"],
    "stubs": ["hash256 as an uninterpreted function on symbolic input (same symbol in the code and in the spec)",
              "CompactFilter.parse (Golomb-coded-set decoding, property C18) replaced by a recorder for symbolic filter bytes; the real decoder "
              "runs on one concrete filter",
              "time.time() / random.randint() return an arbitrary value of their range (VersionMessage defaults)"],
    "assumptions": ["the Bitcoin P2P layout as transcribed in checks/c19.py (network address port in network byte order, BIP157 message layouts)"],
}

MANIFEST = {"technique": "symbolic execution of the real envelope / message / integer codec functions on symbolic field values; each serialiser "
                         "compared with an independent byte-layout specification, each parser with the fields it was fed; accept/reject of "
                         "arbitrary envelope streams compared with the exact validity predicate; z3 decides each path"}

MAGIC_SPEC = {"mainnet": bytes.fromhex("f9beb4d9"), "testnet": bytes.fromhex("0b110907"), "signet": bytes.fromhex("0a03cf40"),
              "regtest": bytes.fromhex("fabfb5da")}
NETWORKS = ("mainnet", "testnet", "signet", "regtest")


# ------------------------------------------------------------------------------------------ spec helpers (proxy or plain)

def _plain(b):
    return isinstance(b, (bytes, bytearray))


def spec_sha256(b):
    if _plain(b):
        return hashlib.sha256(bytes(b)).digest()
    return shims._H("sha256", b).digest()


def spec_hash256(b):
    return spec_sha256(spec_sha256(b))


def mkbytes(items):
    items = list(items)
    if all(isinstance(i, int) for i in items):
        return bytes(items)
    return norm(SBytes(items))


def le(x, n):
    """n-byte little-endian layout of x (written with shifts, independent of int.to_bytes)"""
    return mkbytes([(x >> (8 * i)) & 0xFF for i in range(n)])


def be(x, n):
    return mkbytes([(x >> (8 * (n - 1 - i))) & 0xFF for i in range(n)])


def le_value(b):
    v = 0
    for i in range(len(b)):
        v = v + (b[i] << (8 * i))
    return v


def be_value(b):
    v = 0
    for i in range(len(b)):
        v = v + (b[i] << (8 * (len(b) - 1 - i)))
    return v


def spec_varint(n):
    """compact size of a concrete count"""
    if n < 0xFD:
        return bytes([n])
    if n < 0x10000:
        return b"\xfd" + le(n, 2)
    if n < 0x100000000:
        return b"\xfe" + le(n, 4)
    return b"\xff" + le(n, 8)


def spec_varint_sym(n):
    """compact size of a possibly symbolic value (forks on the width class)"""
    if n < 0xFD:
        return mkbytes([n])
    if n < 0x10000:
        return b"\xfd" + le(n, 2)
    if n < 0x100000000:
        return b"\xfe" + le(n, 4)
    return b"\xff" + le(n, 8)


def rev(b):
    return b[::-1]


def eq(a, b):
    """byte strings equal (bool or SB)"""
    if len(a) != len(b):
        return False
    if len(a) == 0:
        return True
    return a == b


def veq(a, b):
    """field values equal: ints, bools, byte strings, lists of those"""
    if isinstance(a, (list, tuple)) or isinstance(b, (list, tuple)):
        if not isinstance(a, (list, tuple)) or not isinstance(b, (list, tuple)) or len(a) != len(b):
            return False
        return s_and(*[veq(x, y) for x, y in zip(a, b)]) if len(a) else True
    if isinstance(a, (bytes, bytearray, SBytes)) or isinstance(b, (bytes, bytearray, SBytes)):
        if not isinstance(a, (bytes, bytearray, SBytes)) or not isinstance(b, (bytes, bytearray, SBytes)):
            return False
        return eq(a, b)
    return a == b


def cat(*parts):
    out = b""
    for p in parts:
        out = out + p
    return out


def symb(name, n):
    return SBytes.sym(name, n) if n else b""


def _stream(mod_is_native, data):
    if mod_is_native:
        from io import BytesIO
        return BytesIO(bytes(data))
    return shims.BytesIOShim(data)


def jsonable(v):
    if isinstance(v, (bytes, bytearray)):
        return bytes(v).hex()
    if isinstance(v, (list, tuple)):
        return [jsonable(x) for x in v]
    if isinstance(v, dict):
        return {k: jsonable(x) for k, x in v.items()}
    return v


def unjson(v):
    if isinstance(v, str):
        return bytes.fromhex(v)
    if isinstance(v, list):
        return [unjson(x) for x in v]
    if isinstance(v, dict):
        return {k: unjson(x) for k, x in v.items()}
    return v


# ------------------------------------------------------------------------------------------ O1 envelope

def spec_envelope(network, command, payload):
    return cat(MAGIC_SPEC[network], command, b"\x00" * (12 - len(command)), le(len(payload), 4), spec_hash256(payload)[:4], payload)


def sym_command(clen):
    return SBytes([SI.var(f"cmd[{i}]", 1, 255) for i in range(clen)]) if clen else b""


def _env_rt_path(network, clen, plen):
    nw = loader.load("network")
    cmd = sym_command(clen)
    payload = symb("p", plen)

    def wit(env):
        return {"case": "roundtrip", "network": network, "command": bytes_env(env, "cmd", clen).hex(), "payload": bytes_env(env, "p", plen).hex()}
    e = nw.NetworkEnvelope(cmd, payload, network=network)
    raw = e.serialize()
    want = spec_envelope(network, cmd, payload)
    check(eq(raw, want), "envelope serialisation differs from magic | command padded to 12 | length | checksum | payload", witness=wit)
    s = shims.BytesIOShim(want + b"\xf9\xbe\xb4")
    try:
        back = nw.NetworkEnvelope.parse(s, network=network)
    except Exception as ex:
        check(False, f"parse of a well-formed envelope raised {type(ex).__name__}", witness=wit)
        return "parse-error"
    check(s_and(veq(back.command, cmd), veq(back.payload, payload), veq(back.magic, MAGIC_SPEC[network])),
          "parse(serialize(envelope)) does not reproduce command / payload / magic", witness=wit)
    check(s.tell() == len(want), "parse does not consume exactly one envelope", witness=wit)
    raw2 = back.serialize()
    check(eq(raw2, want), "serialize(parse(raw)) != raw", witness=wit)
    return "ok"


def ob_envelope_roundtrip(network, plens):
    runs = []
    for plen in plens:
        for clen in range(0, 13):
            runs.append(sym_run(lambda: _env_rt_path(network, clen, plen), expect_classes=["ok"]))
    m = merge_runs(runs)
    m["sample"] = {"network": network, "command": "0..12 symbolic non-NUL bytes", "payload_lengths": list(plens)}
    return m


def _env_reject_path(network, k, clen, kind):
    """arbitrary stream with a complete 24-byte header and k payload bytes: accepted exactly when the magic is the network's,
    the declared length is covered by the bytes present, and the checksum is that of the declared payload"""
    nw = loader.load("network")
    magic = SBytes.sym("magic", 4)
    cmd = sym_command(clen)
    lenb = SBytes.sym("len", 4)
    declared = le_value(lenb)
    payload = symb("p", k)
    if declared > k:
        short = True
        seen = payload
    else:
        short = False
        dc = concretize(declared)
        seen = payload[:dc]
    good = spec_hash256(seen)[:4]
    if kind == "good":
        cs = good
    else:
        cs = SBytes.sym("cs", 4)
        assume(cs != good)
    stream = cat(magic, cmd, b"\x00" * (12 - clen), lenb, cs, payload)

    def wit(env):
        return {"case": "reject", "network": network, "magic": bytes_env(env, "magic", 4).hex(), "command": bytes_env(env, "cmd", clen).hex(),
                "declared": le_value(bytes_env(env, "len", 4)), "payload": bytes_env(env, "p", k).hex(), "present": k, "cs_kind": kind,
                "cs": bytes_env(env, "cs", 4).hex() if kind != "good" else None}
    magic_ok = veq(magic, MAGIC_SPEC[network])
    valid = magic_ok if (kind == "good" and not short) else False
    s = shims.BytesIOShim(stream)
    try:
        e = nw.NetworkEnvelope.parse(s, network=network)
        accepted = True
    except Exception:
        accepted = False
    if accepted:
        if short:
            check(False, "envelope with fewer payload bytes than its length field declares is accepted "
                         "(the checksum supplied is that of the bytes present)", witness=wit)
            return "accepted-short"
        if kind != "good":
            check(False, "envelope with a wrong checksum is accepted", witness=wit)
            return "accepted-bad-checksum"
        check(magic_ok, "envelope with a wrong magic is accepted", witness=wit)
        check(s_and(veq(e.command, cmd), veq(e.payload, seen)), "accepted envelope does not carry the command / declared payload", witness=wit)
        check(s.tell() == 24 + len(seen), "parse does not consume header + declared payload", witness=wit)
        return "accepted"
    check(s_not(valid), "a valid envelope is rejected", witness=wit)
    return "rejected"


def ob_envelope_reject(network, k):
    clen = (5 * k + 3) % 13
    r1 = sym_run(lambda: _env_reject_path(network, k, clen, "good"), expect_classes=["accepted", "rejected"], timeout_ms=60000)
    r2 = sym_run(lambda: _env_reject_path(network, k, clen, "bad"), expect_classes=["rejected"], timeout_ms=60000)
    m = merge_runs([r1, r2])
    m["sample"] = {"network": network, "stream": f"magic(4 symbolic) | command({clen} symbolic + NUL padding) | length(4 symbolic) | checksum | "
                                                 f"{k} symbolic payload bytes", "checksum": "of the visible bytes / any other value"}
    return m


def replay_envelope(w):
    from buidl import network as nw
    from io import BytesIO
    net = w["network"]
    cmd = bytes.fromhex(w["command"])
    payload = bytes.fromhex(w["payload"])
    if w["case"] == "roundtrip":
        want = spec_envelope(net, cmd, payload)
        raw = nw.NetworkEnvelope(cmd, payload, network=net).serialize()
        if raw != want:
            return {"violated": True, "observed": f"serialize {raw[:32].hex()}.. != layout {want[:32].hex()}.."}
        s = BytesIO(want + b"\xf9\xbe\xb4")
        try:
            back = nw.NetworkEnvelope.parse(s, network=net)
        except Exception as ex:
            return {"violated": True, "observed": f"parse of a well-formed envelope raised {ex!r}"}
        bad = back.command != cmd or back.payload != payload or back.magic != MAGIC_SPEC[net] or s.tell() != len(want) or back.serialize() != want
        return {"violated": bad, "observed": f"command {back.command!r} payload {back.payload.hex()[:40]} consumed {s.tell()}/{len(want)}"}
    magic = bytes.fromhex(w["magic"])
    declared = w["declared"]
    seen = payload[:declared]
    good = spec_hash256(seen)[:4]
    if w["cs_kind"] == "good":
        cs = good
    else:
        cs = bytes.fromhex(w["cs"])
        if cs == good:  # the solver's hash is uninterpreted: keep the checksum wrong under the real hash
            cs = bytes([cs[0] ^ 1]) + cs[1:]
    stream = magic + cmd + b"\x00" * (12 - len(cmd)) + le(declared, 4) + cs + payload
    valid = magic == MAGIC_SPEC[net] and declared <= len(payload) and w["cs_kind"] == "good"
    s = BytesIO(stream)
    try:
        e = nw.NetworkEnvelope.parse(s, network=net)
    except Exception as ex:
        return {"violated": valid, "observed": f"rejected with {ex!r}; valid={valid}"}
    desc = (f"NetworkEnvelope.parse accepted magic={magic.hex()} declared length={declared} with {len(payload)} payload bytes present, "
            f"checksum={cs.hex()} ({'checksum of the bytes present' if w['cs_kind'] == 'good' else 'wrong'}); returned payload {e.payload.hex()[:40]}")
    if not valid:
        return {"violated": True, "observed": desc}
    bad = e.command != cmd or e.payload != seen or s.tell() != 24 + len(seen)
    return {"violated": bad, "observed": desc}


# ------------------------------------------------------------------------------------------ O2 primitive codecs

def H():
    return loader.load("helper")


def _int_encode_path(endian, width):
    h = H()
    enc = h.int_to_little_endian if endian == "little" else h.int_to_big_endian
    dec = h.little_endian_to_int if endian == "little" else h.big_endian_to_int
    n = SI.var("n", 0, (1 << (8 * width)) + 5)
    w = lambda env: {"case": "encode", "endian": endian, "width": width, "n": env["n"]}  # noqa
    try:
        b = enc(n, width)
    except OverflowError:
        check(n >= (1 << (8 * width)), "fixed-width encoder refuses a value that fits", witness=w)
        return Out("overflow", "overflow")
    check(n < (1 << (8 * width)), "fixed-width encoder accepts a value that does not fit", witness=w)
    want = le(n, width) if endian == "little" else be(n, width)
    check(eq(b, want), f"{width}-byte {endian}-endian layout", witness=w)
    check(dec(b) == n, "decode(encode(n)) == n", witness=w)
    return Out("ok", b)


def _int_decode_path(endian, width):
    h = H()
    enc = h.int_to_little_endian if endian == "little" else h.int_to_big_endian
    dec = h.little_endian_to_int if endian == "little" else h.big_endian_to_int
    b = SBytes.sym("b", width)
    w = lambda env: {"case": "decode", "endian": endian, "width": width, "b": bytes_env(env, "b", width).hex()}  # noqa
    v = dec(b)
    want = le_value(b) if endian == "little" else be_value(b)
    check(v == want, f"{endian}-endian value of a {width}-byte string", witness=w)
    check(eq(enc(v, width), b), "encode(decode(b)) == b", witness=w)
    return Out("ok", v)


def ob_ints(endian):
    nat = loader.native("helper")
    nenc = nat.int_to_little_endian if endian == "little" else nat.int_to_big_endian
    ndec = nat.little_endian_to_int if endian == "little" else nat.big_endian_to_int
    runs = []
    for width in (1, 2, 4, 8, 32):
        top = 1 << (8 * width)

        def native_enc(env):
            try:
                return nenc(env["n"], width)
            except OverflowError:
                return "overflow"
        runs.append(sym_run(lambda: _int_encode_path(endian, width), expect_classes=["ok", "overflow"],
                            gen_env=lambda rng: {"n": rng.choice([0, 1, 0x7F, 0x80, 0xFF, top >> 1, top - 1, top, top + 5, rng.randrange(0, top + 6)])},
                            native=native_enc, n_val=24))
        runs.append(sym_run(lambda: _int_decode_path(endian, width), expect_classes=["ok"],
                            gen_env=lambda rng: {f"b[{j}]": rng.choice([0, 1, 0x7F, 0x80, 0xFF, rng.randrange(256)]) for j in range(width)},
                            native=lambda env: ndec(bytes_env(env, "b", width)), n_val=16))
    m = merge_runs(runs)
    m["sample"] = {"endian": endian, "widths": [1, 2, 4, 8, 32], "n": "symbolic in [0, 256^w + 5]", "b": "w symbolic bytes"}
    return m


def replay_ints(w):
    from buidl import helper
    endian, width = w["endian"], w["width"]
    enc = helper.int_to_little_endian if endian == "little" else helper.int_to_big_endian
    dec = helper.little_endian_to_int if endian == "little" else helper.big_endian_to_int
    if w["case"] == "encode":
        n = w["n"]
        try:
            b = enc(n, width)
        except OverflowError:
            return {"violated": n < (1 << (8 * width)), "observed": f"encode({n}, {width}) raised OverflowError"}
        want = le(n, width) if endian == "little" else be(n, width)
        bad = n >= (1 << (8 * width)) or b != want or dec(b) != n
        return {"violated": bad, "observed": f"encode({n}, {width}) = {b.hex()}, layout {want.hex()}, decoded {dec(b)}"}
    b = bytes.fromhex(w["b"])
    v = dec(b)
    want = le_value(b) if endian == "little" else be_value(b)
    return {"violated": v != want or enc(v, width) != b, "observed": f"decode({b.hex()}) = {v}, value {want}"}


def ob_varint():
    h = H()
    nat = loader.native("helper")

    def p_enc():
        i = SI.var("i", 0, (1 << 64) + 5)
        w = lambda env: {"case": "encode", "i": env["i"]}  # noqa
        try:
            b = h.encode_varint(i)
        except RuntimeError:
            check(i >= (1 << 64), "encode_varint refuses a value below 2^64", witness=w)
            return Out("err", "err")
        check(i < (1 << 64), "encode_varint accepts a value >= 2^64", witness=w)
        e = spec_varint_sym(i)
        check(eq(b, e), "compact-size layout / minimal width", witness=w)
        s = shims.BytesIOShim(b + b"\x55")
        check(h.read_varint(s) == i, "read_varint(encode_varint(i)) == i", witness=w)
        check(s.tell() == len(e), "read_varint consumes exactly the encoding", witness=w)
        return Out(len(e), b)

    def native(env):
        try:
            return nat.encode_varint(env["i"])
        except RuntimeError:
            return "err"

    def p_dec():
        raw = SBytes.sym("r", 9)
        w = lambda env: {"case": "decode", "raw": bytes_env(env, "r", 9).hex()}  # noqa
        s = shims.BytesIOShim(raw)
        v = h.read_varint(s)
        used = s.tell()
        f = raw[0]
        if f == 0xFD:
            wv, wu = le_value(raw[1:3]), 3
        elif f == 0xFE:
            wv, wu = le_value(raw[1:5]), 5
        elif f == 0xFF:
            wv, wu = le_value(raw[1:9]), 9
        else:
            wv, wu = f, 1
        check(v == wv, "read_varint value", witness=w)
        check(used == wu, "read_varint consumed width", witness=w)
        return Out(wu, v)

    def native_dec(env):
        from io import BytesIO
        return nat.read_varint(BytesIO(bytes_env(env, "r", 9)))
    r1 = sym_run(p_enc, expect_classes=[1, 3, 5, 9, "err"],
                 gen_env=lambda rng: {"i": rng.choice([0, 0xFC, 0xFD, 0xFFFF, 0x10000, 0xFFFFFFFF, 0x100000000, (1 << 64) - 1, 1 << 64,
                                                       rng.randrange(0, (1 << 64) + 6)])}, native=native, n_val=40)
    r2 = sym_run(p_dec, expect_classes=[1, 3, 5, 9],
                 gen_env=lambda rng: {f"r[{j}]": (rng.choice([0, 0xFC, 0xFD, 0xFE, 0xFF, rng.randrange(256)]) if j == 0 else rng.randrange(256))
                                      for j in range(9)}, native=native_dec, n_val=30)
    m = merge_runs([r1, r2])
    m["sample"] = {"i": "symbolic in [0, 2^64+5]", "raw": "9 symbolic bytes"}
    return m


def replay_varint(w):
    from buidl import helper
    from io import BytesIO
    if w["case"] == "encode":
        i = w["i"]
        try:
            b = helper.encode_varint(i)
        except RuntimeError:
            return {"violated": i < (1 << 64), "observed": f"encode_varint({i}) raised"}
        if i >= (1 << 64):
            return {"violated": True, "observed": f"encode_varint({i}) returned {b.hex()}"}
        s = BytesIO(b + b"\x55")
        j = helper.read_varint(s)
        bad = b != spec_varint(i) or j != i or s.tell() != len(b)
        return {"violated": bad, "observed": f"encode_varint({i}) = {b.hex()} (layout {spec_varint(i).hex()}), read back {j}"}
    raw = bytes.fromhex(w["raw"])
    s = BytesIO(raw)
    v = helper.read_varint(s)
    f = raw[0]
    wv, wu = {0xFD: (le_value(raw[1:3]), 3), 0xFE: (le_value(raw[1:5]), 5), 0xFF: (le_value(raw[1:9]), 9)}.get(f, (f, 1))
    return {"violated": v != wv or s.tell() != wu, "observed": f"read_varint({raw.hex()}) = {v} using {s.tell()} bytes; expected {wv} using {wu}"}


def _varstr_path(L):
    h = H()
    data = symb("d", L)
    w = lambda env: {"L": L, "fill": bytes_env(env, "d", min(L, 4)).hex()}  # noqa
    enc = h.encode_varstr(data)
    want = spec_varint(L) + data
    check(eq(enc, want), "var-string layout: compact-size length then the bytes", witness=w)
    s = shims.BytesIOShim(want + b"\xaa\xbb")
    back = h.read_varstr(s)
    check(veq(back, data), "read_varstr(encode_varstr(b)) == b", witness=w)
    check(s.tell() == len(want), "read_varstr consumes exactly the encoding", witness=w)
    return "ok"


def ob_varstr(lengths):
    runs = [sym_run(lambda: _varstr_path(L), expect_classes=["ok"]) for L in lengths]
    m = merge_runs(runs)
    m["sample"] = {"lengths": list(lengths), "content": "symbolic"}
    return m


def replay_varstr(w):
    from buidl import helper
    from io import BytesIO
    L = w["L"]
    fill = bytes.fromhex(w["fill"]) or b"\x00"
    data = (fill * (L // len(fill) + 1))[:L]
    enc = helper.encode_varstr(data)
    want = spec_varint(L) + data
    s = BytesIO(want + b"\xaa\xbb")
    back = helper.read_varstr(s)
    bad = enc != want or back != data or s.tell() != len(want)
    return {"violated": bad, "observed": f"length {L}: prefix {enc[:9].hex()} (layout {want[:9].hex()}), read back {len(back)} bytes"}


# ------------------------------------------------------------------------------------------ O3 messages

U32 = (1 << 32) - 1
U64 = (1 << 64) - 1


def spec_header(f):
    return cat(le(f["version"], 4), rev(f["prev_block"]), rev(f["merkle_root"]), le(f["timestamp"], 4), f["bits"], f["nonce"])


def sym_header(pfx):
    return {"version": SI.var(pfx + "version", 0, U32), "prev_block": SBytes.sym(pfx + "prev", 32), "merkle_root": SBytes.sym(pfx + "root", 32),
            "timestamp": SI.var(pfx + "time", 0, U32), "bits": SBytes.sym(pfx + "bits", 4), "nonce": SBytes.sym(pfx + "nonce", 4)}


def header_fields(b):
    return {"version": b.version, "prev_block": b.prev_block, "merkle_root": b.merkle_root, "timestamp": b.timestamp, "bits": b.bits,
            "nonce": b.nonce}


class Msg:
    """descriptor of one message type: symbolic fields, independent layout, how to build / parse / read back the real object"""
    module = "network"
    cls = None
    has_serialize = True
    has_parse = False

    def fields(self, shape):
        raise NotImplementedError

    def layout(self, f, shape):
        raise NotImplementedError

    def segments(self, f, shape, total):
        """label -> byte ranges of the serialisation compared under that label"""
        return {"": [(0, total)]}

    def build(self, mod, f, shape):
        raise NotImplementedError

    def parse(self, mod, stream):
        return getattr(mod, self.cls).parse(stream)

    def extract(self, obj, shape):
        raise NotImplementedError

    def extra(self, mod, obj, f, shape):
        """further (label, condition) pairs on a parsed object"""
        return []


class VersionMsg(Msg):
    cls = "VersionMessage"
    # shape: (user agent length, relay)

    def fields(self, shape):
        return {"version": SI.var("version", 0, U32), "services": SI.var("services", 0, U64), "timestamp": SI.var("timestamp", 0, U64),
                "receiver_services": SI.var("rsvc", 0, U64), "receiver_ip": SBytes.sym("rip", 4), "receiver_port": SI.var("rport", 0, 0xFFFF),
                "sender_services": SI.var("ssvc", 0, U64), "sender_ip": SBytes.sym("sip", 4), "sender_port": SI.var("sport", 0, 0xFFFF),
                "nonce": SBytes.sym("nonce", 8), "user_agent": symb("ua", shape[0]), "latest_block": SI.var("height", 0, U32),
                "relay": bool(shape[1])}

    def layout(self, f, shape):
        def addr(svc, ip, port):
            # services | IPv4-mapped IPv6 address | port in network byte order
            return cat(le(svc, 8), b"\x00" * 10 + b"\xff\xff", ip, be(port, 2))
        return cat(le(f["version"], 4), le(f["services"], 8), le(f["timestamp"], 8),
                   addr(f["receiver_services"], f["receiver_ip"], f["receiver_port"]),
                   addr(f["sender_services"], f["sender_ip"], f["sender_port"]),
                   f["nonce"], spec_varint(len(f["user_agent"])), f["user_agent"], le(f["latest_block"], 4),
                   b"\x01" if f["relay"] else b"\x00")

    def segments(self, f, shape, total):
        return {"all fields except the two address ports": [(0, 44), (46, 70), (72, total)],
                "address port (network byte order)": [(44, 46), (70, 72)]}

    def build(self, mod, f, shape):
        return mod.VersionMessage(version=f["version"], services=f["services"], timestamp=f["timestamp"],
                                  receiver_services=f["receiver_services"], receiver_ip=f["receiver_ip"], receiver_port=f["receiver_port"],
                                  sender_services=f["sender_services"], sender_ip=f["sender_ip"], sender_port=f["sender_port"],
                                  nonce=f["nonce"], user_agent=f["user_agent"], latest_block=f["latest_block"], relay=f["relay"])


class VerAckMsg(Msg):
    cls = "VerAckMessage"
    has_parse = True

    def fields(self, shape):
        return {}

    def layout(self, f, shape):
        return b""

    def build(self, mod, f, shape):
        return mod.VerAckMessage()

    def extract(self, obj, shape):
        return {}

    def extra(self, mod, obj, f, shape):
        return [("verack parses to a VerAckMessage", isinstance(obj, mod.VerAckMessage))]


class PingMsg(Msg):
    cls = "PingMessage"
    has_parse = True

    def fields(self, shape):
        return {"nonce": SBytes.sym("nonce", 8)}

    def layout(self, f, shape):
        return f["nonce"]

    def build(self, mod, f, shape):
        return getattr(mod, self.cls)(f["nonce"])

    def extract(self, obj, shape):
        return {"nonce": obj.nonce}


class PongMsg(PingMsg):
    cls = "PongMessage"


class GetHeadersMsg(Msg):
    cls = "GetHeadersMessage"
    # shape: whether the stop hash is given explicitly

    def fields(self, shape):
        f = {"version": SI.var("version", 0, U32), "num_hashes": SI.var("num_hashes", 0, (1 << 32) + 5), "start_block": SBytes.sym("start", 32)}
        if shape:
            f["end_block"] = SBytes.sym("end", 32)
        return f

    def layout(self, f, shape):
        return cat(le(f["version"], 4), spec_varint_sym(f["num_hashes"]), rev(f["start_block"]), rev(f.get("end_block", b"\x00" * 32)))

    def build(self, mod, f, shape):
        return mod.GetHeadersMessage(version=f["version"], num_hashes=f["num_hashes"], start_block=f["start_block"], end_block=f.get("end_block"))


class HeadersMsg(Msg):
    cls = "HeadersMessage"
    has_serialize = False
    has_parse = True
    # shape: number of headers

    def fields(self, shape):
        return {"headers": [sym_header(f"h{i}.") for i in range(shape)]}

    def layout(self, f, shape):
        out = spec_varint(len(f["headers"]))
        for h in f["headers"]:
            out = cat(out, spec_header(h), b"\x00")
        return out

    def extract(self, obj, shape):
        return {"headers": [header_fields(b) for b in obj.headers]}


class GetDataMsg(Msg):
    cls = "GetDataMessage"
    # shape: number of items

    def fields(self, shape):
        return {"items": [[SI.var(f"type{i}", 0, U32), SBytes.sym(f"id{i}", 32)] for i in range(shape)]}

    def layout(self, f, shape):
        out = spec_varint(len(f["items"]))
        for t, ident in f["items"]:
            out = cat(out, le(t, 4), rev(ident))
        return out

    def build(self, mod, f, shape):
        m = mod.GetDataMessage()
        for t, ident in f["items"]:
            m.add_data(t, ident)
        return m


class BlockHeaderMsg(Msg):
    module = "block"
    cls = "Block"
    has_parse = True

    def fields(self, shape):
        return sym_header("")

    def layout(self, f, shape):
        return spec_header(f)

    def build(self, mod, f, shape):
        return mod.Block(f["version"], f["prev_block"], f["merkle_root"], f["timestamp"], f["bits"], f["nonce"])

    def parse(self, mod, stream):
        return mod.Block.parse_header(stream)

    def extract(self, obj, shape):
        return header_fields(obj)

    def extra(self, mod, obj, f, shape):
        return [("serialize(parse_header(raw)) == raw", eq(obj.serialize(), spec_header(f)))]


class GetCFiltersMsg(Msg):
    module = "compactfilter"
    cls = "GetCFiltersMessage"

    def fields(self, shape):
        return {"filter_type": SI.var("ftype", 0, 255), "start_height": SI.var("start_height", 0, U32), "stop_hash": SBytes.sym("stop", 32)}

    def layout(self, f, shape):
        return cat(mkbytes([f["filter_type"]]), le(f["start_height"], 4), rev(f["stop_hash"]))

    def build(self, mod, f, shape):
        return getattr(mod, self.cls)(filter_type=f["filter_type"], start_height=f["start_height"], stop_hash=f["stop_hash"])


class GetCFHeadersMsg(GetCFiltersMsg):
    cls = "GetCFHeadersMessage"


class GetCFCheckPointMsg(Msg):
    module = "compactfilter"
    cls = "GetCFCheckPointMessage"

    def fields(self, shape):
        return {"filter_type": SI.var("ftype", 0, 255), "stop_hash": SBytes.sym("stop", 32)}

    def layout(self, f, shape):
        return cat(mkbytes([f["filter_type"]]), rev(f["stop_hash"]))

    def build(self, mod, f, shape):
        return mod.GetCFCheckPointMessage(filter_type=f["filter_type"], stop_hash=f["stop_hash"])


REAL_FILTER = bytes.fromhex("0385acb4f0fe889ef0")  # BIP158 filter of three elements (vector used by /repo's own test)


class CFilterMsg(Msg):
    module = "compactfilter"
    cls = "CFilterMessage"
    has_serialize = False
    has_parse = True
    # shape: ("stub", filter length) -> symbolic filter bytes with the GCS decoder recorded instead of run;  ("real",) -> concrete filter

    def fields(self, shape):
        fb = symb("filter", shape[1]) if shape[0] == "stub" else REAL_FILTER
        return {"filter_type": SI.var("ftype", 0, 255), "block_hash": SBytes.sym("block", 32), "filter_bytes": fb}

    def layout(self, f, shape):
        return cat(mkbytes([f["filter_type"]]), rev(f["block_hash"]), spec_varint(len(f["filter_bytes"])), f["filter_bytes"])

    def extract(self, obj, shape):
        return {"filter_type": obj.filter_type, "block_hash": obj.block_hash, "filter_bytes": obj.filter_bytes}

    def extra(self, mod, obj, f, shape):
        if shape[0] == "stub":
            key, fb = obj.cf
            # BIP158: SipHash key = first 16 bytes of the block hash as serialised on the wire
            return [("filter decoded with the BIP158 key and the filter bytes", s_and(veq(key, rev(f["block_hash"])[:16]), veq(fb, f["filter_bytes"])))]
        return [("the concrete BIP158 filter decodes to its three hashed elements", sorted(obj.cf.hashes) == [570774, 1341840, 1483084])]


class CFHeadersMsg(Msg):
    module = "compactfilter"
    cls = "CFHeadersMessage"
    has_serialize = False
    has_parse = True
    # shape: number of filter hashes

    def fields(self, shape):
        return {"filter_type": SI.var("ftype", 0, 255), "stop_hash": SBytes.sym("stop", 32), "previous_filter_header": SBytes.sym("prev", 32),
                "filter_hashes": [SBytes.sym(f"fh{i}", 32) for i in range(shape)]}

    def layout(self, f, shape):
        return cat(mkbytes([f["filter_type"]]), rev(f["stop_hash"]), f["previous_filter_header"], spec_varint(len(f["filter_hashes"])),
                   *f["filter_hashes"])

    def extract(self, obj, shape):
        return {"filter_type": obj.filter_type, "stop_hash": obj.stop_hash, "previous_filter_header": obj.previous_filter_header,
                "filter_hashes": list(obj.filter_hashes)}

    def extra(self, mod, obj, f, shape):
        cur = f["previous_filter_header"]
        for fh in f["filter_hashes"]:
            cur = spec_hash256(cat(fh, cur))  # BIP157: header = hash256(filter_hash || previous_header)
        return [("last_header is the BIP157 chain of the filter hashes", veq(obj.last_header, cur))]


class CFCheckPointMsg(Msg):
    module = "compactfilter"
    cls = "CFCheckPointMessage"
    has_serialize = False
    has_parse = True

    def fields(self, shape):
        return {"filter_type": SI.var("ftype", 0, 255), "stop_hash": SBytes.sym("stop", 32),
                "filter_headers": [SBytes.sym(f"fh{i}", 32) for i in range(shape)]}

    def layout(self, f, shape):
        return cat(mkbytes([f["filter_type"]]), rev(f["stop_hash"]), spec_varint(len(f["filter_headers"])), *f["filter_headers"])

    def extract(self, obj, shape):
        return {"filter_type": obj.filter_type, "stop_hash": obj.stop_hash, "filter_headers": list(obj.filter_headers)}


MSGS = {"version": VersionMsg(), "verack": VerAckMsg(), "ping": PingMsg(), "pong": PongMsg(), "getheaders": GetHeadersMsg(),
        "headers": HeadersMsg(), "getdata": GetDataMsg(), "blockheader": BlockHeaderMsg(), "getcfilters": GetCFiltersMsg(),
        "cfilter": CFilterMsg(), "getcfheaders": GetCFHeadersMsg(), "cfheaders": CFHeadersMsg(), "getcfcheckpt": GetCFCheckPointMsg(),
        "cfcheckpt": CFCheckPointMsg()}


def _pick(b, ranges):
    out = b""
    for a, z in ranges:
        out = out + b[a:z]
    return out


def _tolist(shape):
    return list(shape) if isinstance(shape, tuple) else shape


def _msg_path(name, shape):
    d = MSGS[name]
    mod = loader.load(d.module)
    f = d.fields(shape)

    def wit(seg=None, part=None):
        def w(env):
            return {"msg": name, "shape": _tolist(shape), "fields": jsonable(conc_value(f, env)), "segment": seg, "part": part}
        return w
    want = d.layout(f, shape)
    if d.has_serialize:
        try:
            raw = d.build(mod, f, shape).serialize()
        except Exception as ex:
            check(False, f"{d.cls}.serialize raised {type(ex).__name__}", witness=wit(part="serialize"))
            return "serialize-error"
        if len(raw) != len(want):
            check(False, f"{d.cls}.serialize: length differs from the protocol layout", witness=wit(part="serialize"))
            return "length"
        for seg, ranges in d.segments(f, shape, len(want)).items():
            check(eq(_pick(raw, ranges), _pick(want, ranges)), f"{d.cls}.serialize differs from the protocol layout" + (f": {seg}" if seg else ""),
                  witness=wit(seg=seg, part="serialize"))
    if d.has_parse:
        stubbed = name == "cfilter" and shape[0] == "stub"
        if stubbed:
            orig = mod.CompactFilter.__dict__["parse"]
            mod.CompactFilter.parse = classmethod(lambda cls, key, fb: (key, fb))
        try:
            s = shims.BytesIOShim(want + b"\x5a\xa5")
            try:
                obj = d.parse(mod, s)
            except Exception as ex:
                check(False, f"{d.cls}.parse of a well-formed message raised {type(ex).__name__}", witness=wit(part="parse"))
                return "parse-error"
        finally:
            if stubbed:
                mod.CompactFilter.parse = orig
        check(_fields_eq(d.extract(obj, shape), f), f"{d.cls}.parse(layout(fields)) does not reproduce the fields", witness=wit(part="parse"))
        check(s.tell() == len(want), f"{d.cls}.parse does not consume exactly the message", witness=wit(part="parse"))
        for label, cond in d.extra(mod, obj, f, shape):
            check(cond, f"{d.cls}: {label}", witness=wit(part="parse"))
    return "ok"


def _fields_eq(got, f):
    """every field the parser exposes equals the field the layout was built from"""
    conds = []
    for k, v in got.items():
        if isinstance(v, list) and v and isinstance(v[0], dict):
            if len(v) != len(f[k]):
                return False
            for a, b in zip(v, f[k]):
                conds.append(_fields_eq(a, b))
        else:
            conds.append(veq(v, f[k]))
    return s_and(*conds) if conds else True


def ob_message(name, shapes):
    runs = [sym_run(lambda: _msg_path(name, shape), expect_classes=None, timeout_ms=60000, max_violations=12) for shape in shapes]
    m = merge_runs(runs)
    d = MSGS[name]
    m["sample"] = {"message": d.cls, "shapes": [_tolist(s) for s in shapes][:8], "fields": "all symbolic",
                   "directions": [x for x, on in (("serialize == layout", d.has_serialize), ("parse(layout) == fields", d.has_parse)) if on]}
    if name == "verack":
        m["inconclusive"] = [x for x in m["inconclusive"] if "no assertion" not in x]
    return m


def replay_message(w):
    """rebuild the concrete message on the native classes and compare with the same layout on plain values"""
    import importlib
    from io import BytesIO
    name = w["msg"]
    d = MSGS[name]
    shape = tuple(w["shape"]) if isinstance(w["shape"], list) else w["shape"]
    f = unjson(w["fields"])
    if name == "cfilter" and shape[0] == "real":
        f["filter_bytes"] = REAL_FILTER
    mod = importlib.import_module("buidl." + d.module)
    want = bytes(d.layout(f, shape))
    if w.get("part") == "serialize":
        try:
            raw = d.build(mod, f, shape).serialize()
        except Exception as ex:
            return {"violated": True, "observed": f"{d.cls}.serialize raised {ex!r}"}
        if len(raw) != len(want):
            return {"violated": True, "observed": f"{d.cls}.serialize length {len(raw)} != layout length {len(want)}"}
        segs = d.segments(f, shape, len(want))
        seg = w.get("segment") or ""
        ranges = segs.get(seg, [(0, len(want))])
        got, exp = _pick(raw, ranges), _pick(want, ranges)
        return {"violated": got != exp, "observed": f"{d.cls}.serialize [{seg or 'whole message'}]: got {got.hex()[:80]} protocol {exp.hex()[:80]}"}
    stubbed = name == "cfilter" and shape[0] == "stub"
    if stubbed:
        orig = mod.CompactFilter.__dict__["parse"]
        mod.CompactFilter.parse = classmethod(lambda cls, key, fb: (key, fb))
    try:
        s = BytesIO(want + b"\x5a\xa5")
        try:
            obj = d.parse(mod, s)
        except Exception as ex:
            return {"violated": True, "observed": f"{d.cls}.parse(<{len(want)}-byte well-formed message>) raised {ex!r}"}
    finally:
        if stubbed:
            mod.CompactFilter.parse = orig
    ok = bool(_fields_eq(d.extract(obj, shape), f)) and s.tell() == len(want)
    for label, cond in d.extra(mod, obj, f, shape):
        ok = ok and bool(cond)
    return {"violated": not ok, "observed": f"{d.cls}.parse: fields reproduced / consumed / derived values ok = {ok}"}


# ---- VersionMessage() defaults: clock and RNG are arbitrary values of their range

def _version_defaults_path():
    nw = loader.load("network")
    box = {}

    def randint(a, b):
        box["range"] = (a, b)
        box["rand"] = SI.var("rand", a, b)
        return box["rand"]

    def now():
        box["now"] = SI.var("now", 0, (1 << 62))
        return box["now"]
    shims.set_env(randint=randint, time=now)
    w = lambda env: {"case": "version-defaults", "rand": env.get("rand"), "now": env.get("now")}  # noqa
    try:
        m = nw.VersionMessage()
        raw = m.serialize()
    except Exception as ex:
        check(False, f"VersionMessage() with default nonce raised {type(ex).__name__} for a value the random generator may return", witness=w)
        return "raised"
    check(len(m.nonce) == 8, "default nonce is 8 bytes", witness=w)
    f = {"version": 70015, "services": 0, "timestamp": box["now"], "receiver_services": 0, "receiver_ip": b"\x00" * 4, "receiver_port": 8333,
         "sender_services": 0, "sender_ip": b"\x00" * 4, "sender_port": 8333, "nonce": m.nonce, "user_agent": b"/programmingblockchain:0.1/",
         "latest_block": 0, "relay": True}
    want = MSGS["version"].layout(f, None)
    rng = [(0, 44), (46, 70), (72, len(want))]
    check((len(raw) == len(want)) and eq(_pick(raw, rng), _pick(want, rng)), "default VersionMessage layout (ports aside)", witness=w)
    return "ok"


def ob_version_defaults():
    r = sym_run(_version_defaults_path, expect_classes=["ok"])
    r["sample"] = {"message": "VersionMessage()", "time.time()": "symbolic", "randint(0, 2**64)": "symbolic over the closed range"}
    return r


def replay_version_defaults(w):
    from buidl import network as nw
    import time as _t
    orig_r, orig_t = nw.randint, _t.time
    nw.randint = lambda a, b: w["rand"]
    nw.time.time = lambda: w["now"] or 0
    try:
        try:
            m = nw.VersionMessage()
            raw = m.serialize()
        except Exception as ex:
            return {"violated": True, "observed": f"VersionMessage() raised {ex!r} when randint(0, 2**64) returns {w['rand']}"}
        return {"violated": len(m.nonce) != 8 or len(raw) != 113, "observed": f"nonce {m.nonce.hex()}, {len(raw)} bytes"}
    finally:
        nw.randint = orig_r
        nw.time.time = orig_t


# ------------------------------------------------------------------------------------------ registry

def obligations(tier):
    q = tier == "quick"
    obs = []
    plens = (0, 1, 2, 70) if q else (0, 1, 2, 70, 252, 253, 1000, 65535, 65536, 100000)
    for net in NETWORKS:
        if q:
            obs.append(Ob("O1-envelope-roundtrip", ob_envelope_roundtrip, {"network": net, "plens": plens}, replay="envelope"))
        else:
            for pl in plens:
                obs.append(Ob("O1-envelope-roundtrip", ob_envelope_roundtrip, {"network": net, "plens": (pl,)}, replay="envelope", budget_s=1500))
    for net in NETWORKS:
        for k in ((0, 1, 2, 3, 70) if q else (0, 1, 2, 3, 4, 70, 253, 300)):
            obs.append(Ob("O1-envelope-reject", ob_envelope_reject, {"network": net, "k": k}, replay="envelope", budget_s=1500))
    for endian in ("little", "big"):
        obs.append(Ob("O2-ints", ob_ints, {"endian": endian}, replay="ints"))
    obs.append(Ob("O2-varint", ob_varint, replay="varint"))
    obs.append(Ob("O2-varstr", ob_varstr, {"lengths": (0, 1, 2, 252, 253, 254) if q else (0, 1, 2, 252, 253, 254, 65535, 65536, 70000)},
                  replay="varstr", budget_s=1500))
    counts = (0, 1, 2, 3) if q else (0, 1, 2, 3, 252, 253)
    ua = (0, 1, 27, 252, 253) if q else (0, 1, 27, 252, 253, 65535, 65536)
    flens = (1, 2, 252, 253) if q else (1, 2, 252, 253, 65535, 65536)
    shapes = {
        "version": tuple((n, r) for n in ua for r in (True, False)),
        "verack": (None,), "ping": (None,), "pong": (None,),
        "getheaders": (True, False),
        "headers": counts, "getdata": counts, "blockheader": (None,),
        "getcfilters": (None,), "getcfheaders": (None,), "getcfcheckpt": (None,),
        "cfilter": tuple(("stub", n) for n in flens) + (("real", 0),),
        "cfheaders": counts, "cfcheckpt": counts,
    }
    for name in MSGS:
        sh = shapes[name]
        if q or len(sh) <= 2:
            obs.append(Ob("O3-message", ob_message, {"name": name, "shapes": sh}, replay="message", budget_s=1500))
        else:
            for s in sh:
                obs.append(Ob("O3-message", ob_message, {"name": name, "shapes": (s,)}, replay="message", budget_s=1500))
    obs.append(Ob("O3-version-defaults", ob_version_defaults, replay="version_defaults"))
    return obs
